#!/bin/sh
# tools/try_seed.sh <seed dir under /verif/seeded> [check ids...]
# applies seeded/<dir>/patch.diff to /repo, runs the named checks (default: the property in
# meta.json), prints their verdict lines, and restores /repo.  Nothing is committed.
set -u
D="/verif/seeded/$1"
shift
if [ ! -f "$D/patch.diff" ]; then echo "no $D/patch.diff"; exit 2; fi
cd /repo || exit 2
if [ -n "$(git status --porcelain --untracked-files=no)" ]; then echo "/repo has local changes"; exit 2; fi
git apply "$D/patch.diff" || { echo "patch does not apply"; exit 2; }
IDS="$*"
if [ -z "$IDS" ]; then IDS=$(python3 -c "import json;print(json.load(open('$D/meta.json'))['property'])"); fi
for id in $IDS; do
  echo "== $id on seeded change $(basename $D)"
  (cd /verif && timeout 1500 ./check "$id" --tier quick 2>&1 | grep -v "resource_tracker\|warnings.warn" | grep "VIOLATION\|KNOWN-FINDING\|what:\|^$id:\|CHECKER" | cut -c1-300)
  echo "   exit=$?"
done
cd /repo && git checkout -- . && git status --porcelain --untracked-files=no | head -3
