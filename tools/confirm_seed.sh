#!/bin/sh
# tools/confirm_seed.sh <seed dir under /verif/seeded>...
# Re-checks a seeded change independently of the checks: in a scratch worktree of /repo's
# HEAD (outside /repo and /verif, removed afterwards) the patch must apply, the unedited
# test suite must pass with it, and the demo must exit 1 with it and 0 without it.
set -u
for S in "$@"; do
  D="/verif/seeded/$S"
  W="/tmp/confirm_$S.$$"
  git -C /repo worktree add --detach "$W" HEAD -q 2>/dev/null || { echo "$S: cannot create worktree"; continue; }
  (cd "$W" && /venv/bin/python "$D/demo.py" "$W" >/dev/null 2>&1); clean=$?
  if ! git -C "$W" apply "$D/patch.diff" 2>/dev/null; then
    echo "$S: PATCH DOES NOT APPLY"; git -C /repo worktree remove --force "$W"; continue
  fi
  tests=$(cd "$W" && /venv/bin/python -m pytest -q -p no:cacheprovider -x 2>&1 | tail -1)
  (cd "$W" && /venv/bin/python "$D/demo.py" "$W" >/dev/null 2>&1); seeded=$?
  echo "$S: demo clean=$clean seeded=$seeded tests: $tests"
  git -C /repo worktree remove --force "$W"
done
git -C /repo worktree prune
