#!/usr/bin/env python3
"""tools/mutdiff.py <survivors-with-checks.json> <out.json> [-j N]

Triage help for mutants the checks did not flag: runs HEAD and the mutant over one corpus
(the suite's samples, the RARE_C units, small command-line runs) and records where the
observable output differs.  A mutant without any difference is *probably* equivalent for the
listed properties; one with differences has to be read.  Uses scratch copies under /tmp/mutd."""
import glob
import json
import os
import shutil
import subprocess
import sys
from concurrent.futures import ThreadPoolExecutor

sys.path.insert(0, os.path.dirname(os.path.abspath(__file__)))
import mutate as M

M.SCRATCH = "/tmp/mutd"

RUNNER = r'''
import sys, json, io, os, signal, contextlib
sys.path.insert(0, os.getcwd())
from norminette.file import File
from norminette.lexer import Lexer
from norminette.context import Context
from norminette.registry import Registry
from norminette.exceptions import CParsingError
corpus = json.load(open(sys.argv[1]))
out = {}
class Hang(BaseException): pass
def onalarm(*a): raise Hang()
signal.signal(signal.SIGALRM, onalarm)
for name, (fname, text) in corpus.items():
    toks = None
    signal.alarm(5)
    try:
        f = File(fname, text)
        toks = list(Lexer(f))
        with contextlib.redirect_stdout(io.StringIO()):
            Registry().run(Context(f, toks))
        res = [f.errors.status, sorted((e.name, e.level, tuple((h.lineno, h.column) for h in e.highlights)) for e in f.errors)]
    except CParsingError as e:
        res = ["fatal", str(e.msg)[:80]]
    except Hang:
        res = ["hang"]
    except Exception as e:
        res = ["exc", type(e).__name__]
    finally:
        signal.alarm(0)
    res.append([(t.type, t.pos, t.value) for t in toks] if toks is not None else None)
    out[name] = res
    toks = None
json.dump(out, sys.stdout)
'''

CLI_SETS = [["ok.c"], ["bad.c"], ["ok.c", "bad.c", "note.c"], ["bad.c", "ok.c"], ["fatal.c", "ok.c"], ["d"], ["ok.c", "x.txt"],
            ["missing.c"], ["--cfile", "int main(){}", "--filename", "z.c"], ["-d", "ok.c"], ["--format", "json", "ok.c", "bad.c"],
            ["--format", "json", "h.h"], ["h.h", "ok.c"], ["-R", "CheckDefine", "h.h"], ["--no-colors", "bad.c"], []]


def build_corpus(path):
    corpus = {}
    for p in sorted(glob.glob("/repo/tests/rules/samples/*.[ch]")) + sorted(glob.glob("/repo/tests/tokenizer/samples/**/*.c", recursive=True)):
        try:
            corpus[os.path.relpath(p, "/repo")] = (os.path.basename(p), open(p).read())
        except Exception:
            pass
    sys.path.insert(0, "/verif")
    from vp.bounded import programs as P
    for k, t in enumerate(P.RARE_C):
        corpus[f"rare{k}.c"] = ("a.c", t)
        corpus[f"rare{k}.h"] = ("a.h", t)
    json.dump(corpus, open(path, "w"))
    return len(corpus)


def make_cli_dir(d):
    sys.path.insert(0, "/verif")
    from vp.bounded import programs as P
    import random
    os.makedirs(os.path.join(d, "d", "sub dir"), exist_ok=True)
    ok = P.conforming_c(random.Random(1), 2, "ok.c")
    files = {"ok.c": ok, "bad.c": ok.replace("ok.c", "bad.c", 1) + "int x;\n", "note.c": ok.replace("ok.c", "note.c", 1),
             "fatal.c": "int main(void) { 42 42 ; ) }\n", "x.txt": "hello\n", "h.h": P.conforming_h("h.h"),
             "d/a.c": ok.replace("ok.c", "a.c ", 1), "d/sub dir/b.h": P.conforming_h("b.h"), "d/sub dir/c.cc": "x"}
    for n, t in files.items():
        open(os.path.join(d, n), "w").write(t)


def observe(w, corpus_path, clidir):
    env = dict(os.environ, PYTHONDONTWRITEBYTECODE="1", PYTHONPATH=w)
    try:
        r = subprocess.run(["/venv/bin/python", "-c", RUNNER, corpus_path], cwd=w, capture_output=True, text=True, timeout=900, env=env)
        lib = json.loads(r.stdout) if r.returncode == 0 else {"__runner__": ["crash", r.stderr[-300:]]}
    except subprocess.TimeoutExpired:
        lib = {"__runner__": ["timeout"]}
    cli = {}
    for k, args in enumerate(CLI_SETS):
        try:
            r = subprocess.run(["/venv/bin/python", "-m", "norminette"] + args, cwd=clidir, capture_output=True, text=True, timeout=60, env=env)
            cli[" ".join(args)] = [r.returncode, r.stdout[-1500:], r.stderr[-200:].splitlines()[-1:] ]
        except subprocess.TimeoutExpired:
            cli[" ".join(args)] = ["timeout"]
    return lib, cli


def main():
    args = sys.argv[1:]
    j = 12
    if "-j" in args:
        k = args.index("-j"); j = int(args[k + 1]); del args[k:k + 2]
    ms = [m for m in json.load(open(args[0])) if not m.get("detected")]
    os.makedirs(M.SCRATCH, exist_ok=True)
    corpus_path = os.path.join(M.SCRATCH, "corpus.json")
    n = build_corpus(corpus_path)
    clidir = os.path.join(M.SCRATCH, "cli")
    make_cli_dir(clidir)
    base = M.make_copy("base")
    lib0, cli0 = observe(base, corpus_path, clidir)
    print("corpus", n, "units; baseline runner:", lib0.get("__runner__"))

    def job(w, m):
        lib, cli = observe(w, corpus_path, clidir)
        d = {"lib": {}, "cli": {}}
        for k in lib0:
            if lib.get(k) != lib0[k]:
                a, b = lib0[k], lib.get(k)
                d["lib"][k] = {"head": a[:2] if a else a, "mutant": b[:2] if b else b,
                               "tokens_differ": bool(a and b and a[-1] != b[-1])}
        if "__runner__" in lib:
            d["lib"]["__runner__"] = lib["__runner__"]
        for k in cli0:
            if cli.get(k) != cli0[k]:
                d["cli"][k] = {"head": cli0[k], "mutant": cli.get(k)}
        return d
    res = M.worker_pool(j, job, ms)
    for m, d in zip(ms, res):
        m["diff_count"] = len(d["lib"]) + len(d["cli"])
        m["diff"] = {"lib": dict(list(d["lib"].items())[:4]), "cli": dict(list(d["cli"].items())[:3])}
    json.dump(ms, open(args[1], "w"), indent=1)
    print(len(ms), "undetected mutants;", sum(1 for m in ms if m["diff_count"]), "differ from HEAD somewhere on the corpus")


if __name__ == "__main__":
    main()
