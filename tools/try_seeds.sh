#!/bin/bash
# tools/try_seeds.sh [-j N] <seed dir under /verif/seeded>...
# Runs the check of each seeded change's property on a scratch worktree of /repo's HEAD
# with the patch applied (VERIF_REPO points the check at the worktree, VERIF_OUT sends its
# evidence and replay files to a scratch directory), several seeds at a time.  /repo's
# working tree and /verif/evidence are not touched; worktrees are removed afterwards.
# SEED_CHECKS="C05 C07" overrides the property in meta.json; SEED_TIER=thorough the tier.
if [ "$1" = "--one" ]; then
  S=$2
  D=/verif/seeded/$S
  W=/tmp/seedrun/$S
  mkdir -p /tmp/seedrun
  git -C /repo worktree add --detach "$W" HEAD -q 2>/dev/null || { echo "$S: cannot create worktree"; exit 0; }
  if ! git -C "$W" apply "$D/patch.diff" 2>/dev/null; then
    echo "$S: PATCH DOES NOT APPLY"; git -C /repo worktree remove --force "$W"; exit 0
  fi
  IDS=${SEED_CHECKS:-$(python3 -c "import json;print(json.load(open('$D/meta.json'))['property'])")}
  for id in $IDS; do
    out=$(cd /verif && VERIF_REPO="$W" VERIF_OUT="$W.out" timeout 3000 ./check "$id" --tier ${SEED_TIER:-quick} 2>&1); rc=$?
    mkdir -p /tmp/seedlogs; echo "$out" > "/tmp/seedlogs/$S.$id.log"
    {
      echo "== $S / $id exit=$rc"
      echo "$out" | grep -v "resource_tracker\|warnings.warn" | grep "VIOLATION\|what:\|^$id:\|CHECKER\|Traceback" | cut -c1-330 | head -8 | sed 's/^/   /'
    }
  done
  git -C /repo worktree remove --force "$W"
  rm -rf "$W.out"
  exit 0
fi
J=4
if [ "$1" = "-j" ]; then J=$2; shift 2; fi
printf '%s\n' "$@" | xargs -P "$J" -n 1 "$0" --one
git -C /repo worktree prune
