#!/usr/bin/env python3
"""tools/mutate.py -- mechanical small mutants of /repo, as a measure of what the checks see.

    mutate.py gen  <out.json> [files...]       enumerate mutants (text edits found through the AST)
    mutate.py test <in.json> <out.json> [-j N] keep the mutants the unedited test suite does not kill
    mutate.py check <in.json> <out.json> [-j N] run the checks mapped to the mutated file on each survivor

Everything happens on scratch copies of /repo's working tree under /tmp/mut (removed at the
end); /repo and /verif/evidence are not touched (VERIF_REPO / VERIF_OUT).  Not part of any
registered check: it is how DESIGN.md 10.9 was measured."""
import ast
import json
import os
import shutil
import subprocess
import sys
from concurrent.futures import ThreadPoolExecutor

REPO = os.environ.get("MUT_REPO", "/repo")
SCRATCH = "/tmp/mut"

CMP = {ast.Lt: ("<", "<="), ast.LtE: ("<=", "<"), ast.Gt: (">", ">="), ast.GtE: (">=", ">"),
       ast.Eq: ("==", "!="), ast.NotEq: ("!=", "=="), ast.In: ("in", "not in"), ast.NotIn: ("not in", "in"),
       ast.Is: ("is", "is not"), ast.IsNot: ("is not", "is")}
BIN = {ast.Add: ("+", "-"), ast.Sub: ("-", "+")}


def offsets(src):
    out, n = [0], 0
    for ln in src.split("\n"):
        n += len(ln.encode()) + 1
        out.append(n)
    return out


class Gen(ast.NodeVisitor):
    def __init__(self, path, src):
        self.path, self.src, self.b = path, src, src.encode()
        self.off = offsets(src)
        self.out = []
        self.fn = []

    def pos(self, line, col):
        return self.off[line - 1] + col

    def span(self, node):
        return self.pos(node.lineno, node.col_offset), self.pos(node.end_lineno, node.end_col_offset)

    def add(self, a, b, new, op, node):
        old = self.b[a:b].decode()
        if old == new:
            return
        self.out.append({"file": self.path, "start": a, "end": b, "old": old, "new": new, "op": op,
                         "line": node.lineno, "function": ".".join(self.fn)})

    def between(self, a, b, word, new, op, node):
        seg = self.b[a:b].decode()
        i = seg.find(word)
        if i >= 0 and seg.count(word) == 1 or (i >= 0 and seg.strip() == word):
            self.add(a + i, a + i + len(word.encode()), new, op, node)

    def visit_FunctionDef(self, node):
        self.fn.append(node.name)
        self.generic_visit(node)
        self.fn.pop()

    visit_ClassDef = visit_FunctionDef
    visit_AsyncFunctionDef = visit_FunctionDef

    def visit_Compare(self, node):
        left = node.left
        for op, right in zip(node.ops, node.comparators):
            if type(op) in CMP:
                old, new = CMP[type(op)]
                self.between(self.span(left)[1], self.span(right)[0], old, new, "cmp", node)
            left = right
        self.generic_visit(node)

    def visit_BoolOp(self, node):
        old, new = ("and", "or") if isinstance(node.op, ast.And) else ("or", "and")
        for l, r in zip(node.values, node.values[1:]):
            self.between(self.span(l)[1], self.span(r)[0], old, new, "boolop", node)
        self.generic_visit(node)

    def visit_BinOp(self, node):
        if type(node.op) in BIN:
            old, new = BIN[type(node.op)]
            self.between(self.span(node.left)[1], self.span(node.right)[0], old, new, "arith", node)
        self.generic_visit(node)

    def visit_UnaryOp(self, node):
        if isinstance(node.op, ast.Not):
            a, b = self.span(node)
            self.add(a, b, "(" + self.b[slice(*self.span(node.operand))].decode() + ")", "drop-not", node)
        self.generic_visit(node)

    def visit_Constant(self, node):
        a, b = self.span(node)
        v = node.value
        if isinstance(v, bool):
            self.add(a, b, str(not v), "bool", node)
        elif isinstance(v, int) and 0 <= v <= 4096:
            self.add(a, b, str(v + 1), "int+1", node)
            if v > 0:
                self.add(a, b, str(v - 1), "int-1", node)
        self.generic_visit(node)

    def visit_If(self, node):
        a, b = self.span(node.test)
        self.add(a, b, "not (" + self.b[a:b].decode() + ")", "negate-if", node)
        self.generic_visit(node)

    def visit_While(self, node):
        self.generic_visit(node)

    def visit_Break(self, node):
        a, b = self.span(node)
        self.add(a, b, "continue", "break-continue", node)

    def visit_Continue(self, node):
        a, b = self.span(node)
        self.add(a, b, "break", "continue-break", node)

    def visit_Expr(self, node):
        if isinstance(node.value, ast.Call) and node.lineno == node.end_lineno:
            a, b = self.span(node)
            self.add(a, b, "pass", "drop-call", node)
        self.generic_visit(node)

    def visit_AugAssign(self, node):
        if node.lineno == node.end_lineno:
            a, b = self.span(node)
            self.add(a, b, "pass", "drop-augassign", node)
        self.generic_visit(node)

    def visit_Return(self, node):
        if node.value is not None and isinstance(node.value, (ast.Tuple,)) and node.value.elts and \
                isinstance(node.value.elts[0], ast.Constant) and isinstance(node.value.elts[0].value, bool):
            pass        # the Constant visitor flips it
        self.generic_visit(node)

    def seq_drop(self, node):
        """drop one element of a literal list / tuple / set of constants (tables of token kinds)"""
        if len(node.elts) >= 2 and all(isinstance(e, ast.Constant) and isinstance(e.value, str) for e in node.elts):
            for k, e in enumerate(node.elts):
                a, b = self.span(e)
                if k + 1 < len(node.elts):
                    b = self.span(node.elts[k + 1])[0]
                else:
                    a = self.span(node.elts[k - 1])[1]
                self.add(a, b, "", "drop-element", e)

    def visit_List(self, node):
        self.seq_drop(node)
        self.generic_visit(node)

    visit_Tuple = visit_List
    visit_Set = visit_List

    def visit_Subscript(self, node):
        self.generic_visit(node)


def gen(files):
    out = []
    for rel in files:
        src = open(os.path.join(REPO, rel), encoding="utf-8").read()
        g = Gen(rel, src)
        g.visit(ast.parse(src))
        for m in g.out:
            b = src.encode()
            new = b[:m["start"]] + m["new"].encode() + b[m["end"]:]
            try:
                ast.parse(new.decode())
            except SyntaxError:
                continue
            out.append(m)
    for k, m in enumerate(out):
        m["id"] = k
    return out


def default_files():
    fs = []
    for d, _, names in os.walk(os.path.join(REPO, "norminette")):
        for n in sorted(names):
            if n.endswith(".py"):
                fs.append(os.path.relpath(os.path.join(d, n), REPO))
    return sorted(fs)


def make_copy(k):
    w = os.path.join(SCRATCH, f"w{k}")
    if os.path.exists(w):
        shutil.rmtree(w)
    shutil.copytree(REPO, w, ignore=shutil.ignore_patterns(".git", "__pycache__", ".pytest_cache", "pdf"))
    return w


def apply(w, m):
    p = os.path.join(w, m["file"])
    b = open(os.path.join(REPO, m["file"]), "rb").read()
    open(p, "wb").write(b[:m["start"]] + m["new"].encode() + b[m["end"]:])


def restore(w, m):
    shutil.copyfile(os.path.join(REPO, m["file"]), os.path.join(w, m["file"]))


def worker_pool(n, job, items):
    import queue
    free = queue.Queue()
    for k in range(n):
        free.put(make_copy(k))

    def run(m):
        w = free.get()
        try:
            apply(w, m)
            return job(w, m)
        finally:
            restore(w, m)
            free.put(w)
    res = []
    with ThreadPoolExecutor(n) as ex:
        for k, r in enumerate(ex.map(run, items)):
            res.append(r)
            if (k + 1) % 10 == 0:
                print(f"[{k + 1}/{len(items)}]", file=sys.stderr, flush=True)
    shutil.rmtree(SCRATCH, ignore_errors=True)
    return res


def job_test(w, m):
    try:
        r = subprocess.run(["/venv/bin/python", "-m", "pytest", "-q", "-x", "-p", "no:cacheprovider", "--timeout=120"],
                           cwd=w, capture_output=True, text=True, timeout=600,
                           env=dict(os.environ, PYTHONDONTWRITEBYTECODE="1"))
        return r.returncode == 0
    except subprocess.TimeoutExpired:
        return False


CHECKS_BY_FILE = [      # cheapest check first: the first exit 1 ends the run for that mutant
    ("norminette/lexer/", "C10 C12 C11 C17 C09 C05"),
    ("norminette/__main__.py", "C04 C14 C16 C13 C15 C06 C05"),
    ("norminette/errors.py", "C08 C04 C16"),
    ("norminette/file.py", "C16 C15 C03 C12 C09"),
    ("norminette/norm_error.py", "C08 C04 C05"),
    ("norminette/registry.py", "C06 C07 C05"),
    ("norminette/context.py", "C18 C14 C06 C03 C07 C05"),
    ("norminette/scope.py", "C03 C07"),
    ("norminette/rules/check_header.py", "C13"),
    ("norminette/rules/check_preprocessor_protection.py", "C14"),
    ("norminette/rules/is_preprocessor_statement.py", "C18 C14 C06 C07 C05"),
    ("norminette/rules/check_line_len.py", "C03"),
    ("norminette/rules/check_comment_line_len.py", "C08 C03 C09"),
    ("norminette/rules/check_line_count.py", "C03"),
    ("norminette/rules/check_func_arguments_count.py", "C03"),
    ("norminette/rules/check_functions_count.py", "C03"),
    ("norminette/rules/check_variable_declaration.py", "C03 C05"),
    ("norminette/rules/rule.py", "C06 C07 C05"),
    ("norminette/rules/is_", "C18 C03 C07 C05"),
    ("norminette/rules/", "C18 C17 C05"),
]


def checks_for(rel):
    for pre, ids in CHECKS_BY_FILE:
        if rel.startswith(pre):
            return ids.split()
    return ["C05"]


def job_check(w, m):
    res = {}
    for cid in checks_for(m["file"]):
        out = os.path.join(SCRATCH, f"out_{os.path.basename(w)}")
        try:
            r = subprocess.run(["./check", cid, "--tier", "quick"], cwd="/verif", capture_output=True, text=True, timeout=900,
                               env=dict(os.environ, VERIF_REPO=w, VERIF_OUT=out, PYTHONDONTWRITEBYTECODE="1"))
            lines = [l for l in r.stdout.splitlines() if "VIOLATION" in l or l.strip().startswith(("what:", "obligation:"))]
            res[cid] = {"exit": r.returncode, "lines": [l[:400] for l in lines[:6]]}
        except subprocess.TimeoutExpired:
            res[cid] = {"exit": "timeout", "lines": []}
        shutil.rmtree(out, ignore_errors=True)
        if res[cid]["exit"] == 1:
            break           # detected: the other checks are not needed
    return res


def main():
    cmd = sys.argv[1]
    args = sys.argv[2:]
    j = 14
    if "-j" in args:
        k = args.index("-j")
        j = int(args[k + 1])
        del args[k:k + 2]
    if cmd == "gen":
        out = args[0]
        ms = gen(args[1:] or default_files())
        json.dump(ms, open(out, "w"), indent=0)
        print(len(ms), "mutants")
    elif cmd == "test":
        ms = json.load(open(args[0]))
        os.makedirs(SCRATCH, exist_ok=True)
        res = worker_pool(j, job_test, ms)
        surv = [m for m, ok in zip(ms, res) if ok]
        json.dump(surv, open(args[1], "w"), indent=0)
        print(len(ms), "mutants,", len(surv), "survive the test suite")
    elif cmd == "check":
        ms = json.load(open(args[0]))
        os.makedirs(SCRATCH, exist_ok=True)
        res = worker_pool(j, job_check, ms)
        for m, r in zip(ms, res):
            m["checks"] = r
            m["detected"] = any(v["exit"] == 1 for v in r.values())
        json.dump(ms, open(args[1], "w"), indent=0)
        print(len(ms), "survivors,", sum(m["detected"] for m in ms), "detected")


if __name__ == "__main__":
    main()
