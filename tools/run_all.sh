#!/bin/sh
# runs every claimed check (quick tier by default) on /repo and prints one line per check
TIER="${1:-quick}"
cd /verif
for id in $(python3 -c "import json;print(' '.join(c['property_id'] for c in json.load(open('MANIFEST.json'))['checks']))"); do
  out=$(timeout 3000 ./check "$id" --tier "$TIER" 2>&1)
  rc=$?
  echo "$out" | grep -v "resource_tracker\|warnings.warn" | grep "VIOLATION\|CHECKER\|^$id:" | cut -c1-200
  echo "   $id exit=$rc"
done
