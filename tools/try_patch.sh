#!/bin/bash
# tools/try_patch.sh <label> <patch file> <check ids...>
# Applies an arbitrary patch to a scratch worktree of /repo's HEAD and runs the named checks on
# it (VERIF_REPO / VERIF_OUT as in try_seeds.sh).  Used for behaviour-preserving refactorings:
# every check must exit 0 there.
L=$1; P=$2; shift 2
W=/tmp/patchrun/$L
mkdir -p /tmp/patchrun /tmp/patchlogs
git -C /repo worktree add --detach "$W" HEAD -q 2>/dev/null || { echo "$L: cannot create worktree"; exit 0; }
if ! git -C "$W" apply "$P" 2>/dev/null; then echo "$L: PATCH DOES NOT APPLY"; git -C /repo worktree remove --force "$W"; exit 0; fi
for id in "$@"; do
  out=$(cd /verif && VERIF_REPO="$W" VERIF_OUT="$W.out" timeout 3000 ./check "$id" --tier ${SEED_TIER:-quick} 2>&1); rc=$?
  echo "$out" > "/tmp/patchlogs/$L.$id.log"
  echo "== $L / $id exit=$rc $(echo "$out" | grep "^$id:" | sed 's/.*level=/level=/' | cut -c1-90)"
  echo "$out" | grep -v "resource_tracker\|warnings.warn" | grep "VIOLATION\|what:\|CHECKER" | cut -c1-300 | head -4 | sed 's/^/   /'
done
git -C /repo worktree remove --force "$W"; rm -rf "$W.out"
