"""C07 -- every statement is examined exactly once; nothing is skipped silently."""
import ast
import json
import os
import random
import time

from .common import Check, main_wrapper, native_batch, run_parallel
from ..specs import registry as SR, primaries as PR
from ..bounded import programs as P
from ..pyvc.values import SOpt
import z3


def finite_frame(chk):
    """only Context.pop_tokens assigns .tokens, only Registry.run calls pop_tokens; the
    priorities the contracts rely on; token kinds the lexer can produce"""
    root = chk.repo.root
    writes, calls, esc = [], [], []
    for dp, dn, fn in os.walk(os.path.join(root, "norminette")):
        for f in fn:
            if not f.endswith(".py"):
                continue
            rel = os.path.relpath(os.path.join(dp, f), root)
            tree = chk.repo.module(rel).tree
            for fn_node in ast.walk(tree):
                if not isinstance(fn_node, ast.FunctionDef):
                    continue
                for x in ast.walk(fn_node):
                    if isinstance(x, ast.Attribute) and x.attr == "tokens" and isinstance(x.ctx, (ast.Store, ast.Del)):
                        writes.append(f"{rel}:{fn_node.name}:{x.lineno}")
                    if isinstance(x, ast.Call) and isinstance(x.func, ast.Attribute) and x.func.attr == "pop_tokens":
                        calls.append(f"{rel}:{fn_node.name}")
                    if isinstance(x, ast.Call) and isinstance(x.func, ast.Name) and x.func.id == "Token" and x.args \
                            and isinstance(x.args[0], ast.Constant) and x.args[0].value == "ESCAPED_NEWLINE":
                        esc.append(f"{rel}:{x.lineno}")
    ok_w = all(w.startswith("norminette/context.py:__init__") or w.startswith("norminette/context.py:pop_tokens")
               for w in writes)
    chk.frame("frame.tokens_assigned_only_by_pop_tokens", ok_w, {"writes": writes},
              what=f"context.tokens is assigned outside Context.__init__/pop_tokens: {writes}")
    ok_c = all(c == "norminette/registry.py:run" for c in calls)
    chk.frame("frame.pop_tokens_called_only_by_registry_run", ok_c, {"calls": sorted(set(calls))},
              what=f"pop_tokens is called outside Registry.run: {calls}")
    chk.frame("frame.no_escaped_newline_token", not esc, {"sites": esc}, what=f"ESCAPED_NEWLINE tokens are built at {esc}")
    # priorities: read from the class statements (keyword priority=)
    prios = {}
    rules_dir = os.path.join(root, "norminette", "rules")
    for f in sorted(os.listdir(rules_dir)):
        if f.startswith("is_") and f.endswith(".py"):
            tree = chk.repo.module("norminette/rules/" + f).tree
            for node in tree.body:
                if isinstance(node, ast.ClassDef):
                    for kw in node.keywords:
                        if kw.arg == "priority" and isinstance(kw.value, ast.Constant):
                            prios[node.name] = kw.value.value
    ok_p = prios.get("IsEmptyLine", 0) > max(prios.get("IsBlockStart", 0), prios.get("IsBlockEnd", 0))
    distinct = len(set(prios.values())) == len(prios)
    chk.finite("registry.empty_line_before_block_rules", ok_p, len(prios), {"priorities": prios},
               what="IsEmptyLine must have a higher priority than IsBlockStart/IsBlockEnd")
    chk.finite("registry.priorities_distinct", distinct, len(prios), {"priorities": prios},
               what="two primaries share a priority")
    # Scope subclasses define nothing but __init__ (methods of symbolic-class scopes are Scope's)
    tree = chk.repo.module("norminette/scope.py").tree
    bad = []
    for node in tree.body:
        if isinstance(node, ast.ClassDef) and node.name != "Scope":
            for b in node.body:
                if isinstance(b, ast.FunctionDef) and b.name != "__init__":
                    bad.append(f"{node.name}.{b.name}")
    chk.finite("scope.subclasses_only_override_init", not bad, 6, {"overrides": bad},
               what=f"Scope subclasses override methods: {bad}")


def primaries_frame(chk):
    """completeness of the progress contracts and the registry facts they rely on"""
    under = {"IsBlockStart", "IsBlockEnd", "IsComment", "IsEmptyLine", "IsFuncDeclaration"} | set(PR.primary_contracts())
    found, prios, scoped = set(), {}, set()
    rules_dir = os.path.join(chk.repo.root, "norminette", "rules")
    for f in sorted(os.listdir(rules_dir)):
        if not f.endswith(".py"):
            continue
        for node in chk.repo.module("norminette/rules/" + f).tree.body:
            if isinstance(node, ast.ClassDef) and any(isinstance(b, ast.Name) and b.id == "Primary" for b in node.bases):
                found.add(node.name)
                for kw in node.keywords:
                    if kw.arg == "priority" and isinstance(kw.value, ast.Constant):
                        prios[node.name] = kw.value.value
                if any(isinstance(b, ast.Assign) and any(isinstance(t, ast.Name) and t.id == "scope" for t in b.targets)
                       for b in node.body):
                    scoped.add(node.name)
    missing = sorted(found - under)
    chk.finite("primaries.every_primary_has_a_progress_contract", not missing, len(found),
               {"primaries": sorted(found), "without_contract": missing},
               what=f"primary rule(s) without a progress contract: {missing} -- a match of such a rule is not known to "
                    "consume a token")
    # NOT_EMPTY: IsEmptyLine runs before the primaries that assume a non-blank statement, in every scope
    needs = ["IsControlStatement", "IsAmbiguousDeclaration"]
    ok = "IsEmptyLine" not in scoped and all(prios.get("IsEmptyLine", -1) > prios.get(n, 10 ** 6) for n in needs)
    chk.finite("registry.empty_line_before_primaries_that_assume_a_non_blank_statement", ok, len(needs),
               {"priorities": {n: prios.get(n) for n in needs + ["IsEmptyLine"]}, "IsEmptyLine_scope_restricted": "IsEmptyLine" in scoped},
               what="IsEmptyLine no longer runs before IsControlStatement / IsAmbiguousDeclaration in every scope")
    # IsExpressionStatement reads history[-1] (is_operator): it only runs inside a function body
    tree = chk.repo.module("norminette/rules/is_expression_statement.py").tree
    sc = []
    for node in tree.body:
        if isinstance(node, ast.ClassDef) and node.name == "IsExpressionStatement":
            for b in node.body:
                if isinstance(b, ast.Assign) and any(isinstance(t, ast.Name) and t.id == "scope" for t in b.targets):
                    sc = [ast.unparse(e) for e in getattr(b.value, "elts", [])]
    chk.finite("registry.expression_statement_only_inside_functions", sorted(sc) == ["ControlStructure", "Function"], 1,
               {"scope": sc}, what=f"IsExpressionStatement.scope is {sc}: its contract assumes a non-empty history")


LAST_RESULTS = []


def bounded_segments(chk, seed, thorough):
    rnd = random.Random(seed)
    cases = []
    nprog = 12 if thorough else 5
    for k in range(nprog):
        text = P.conforming_c(rnd, nfunc=rnd.randint(1, 4))
        cases.append({"kind": "conforming", "text": text, "name": "a.c"})
        lines = text.split("\n")
        # statement boundaries at top level: after the header block, between definitions
        bounds = [i for i, ln in enumerate(lines) if ln == "" and i > 11]
        for b in bounds[: (6 if thorough else 3)]:
            for g in P.GARBAGE[: (7 if thorough else 4)]:
                t2 = "\n".join(lines[:b] + [g] + lines[b:])
                cases.append({"kind": "garbage-inside", "text": t2, "name": "a.c", "g": g})
        for g in P.UNRECOGNISABLE:
            for b in [0] + bounds:
                t2 = "\n".join(lines[:b] + [g] + lines[b:])
                cases.append({"kind": "unrecognisable", "text": t2, "name": "a.c", "g": g, "at": b})
        for g in P.GARBAGE[: (7 if thorough else 4)]:
            cases.append({"kind": "garbage-first-line", "text": g + "\n" + text, "name": "a.c", "g": g})
            cases.append({"kind": "garbage-first-line-glued", "text": g + ";\n" + text, "name": "a.c", "g": g})
        for g in P.GARBAGE:
            cases.append({"kind": "garbage-last-line", "text": text + g + "\n", "name": "a.c", "g": g})
            cases.append({"kind": "garbage-last-line-no-newline", "text": text + g, "name": "a.c", "g": g})
    cases.append({"kind": "conforming", "text": P.conforming_h(), "name": "a.h"})
    # user type bodies: every line is one statement by construction; an unrecognisable statement
    # after any enumerator / member (the last one included, with or without value) is fatal
    for fname in ("a.h",):
        hdr = P.header(fname).rstrip("\n").split("\n")
        g = fname.upper().replace(".", "_")
        for last in ("\tKEY_Z = 124", "\tKEY_Z", "\tKEY_Z = KEY_A | 4"):
            body = ["\tKEY_A,", "\tKEY_B = 2,", "\tKEY_C = KEY_A | 2,", "\tKEY_D = (1 << 3),", "\tKEY_E = KEY_A ? 1 : 2,", last]
            lines = hdr + ["", f"#ifndef {g}", f"# define {g}", "", "enum e_key", "{"] + body + ["};", "",
                                                                                              "typedef struct s_pt", "{", "\tint\tx;", "\tint\ty;", "}\tt_pt;", "",
                                                                                              "int\tft_fa(int c);", "", "#endif"]
            text = "\n".join(lines) + "\n"
            cases.append({"kind": "counted", "text": text, "name": fname, "want": len(lines), "shape": f"enum body ending in {last.strip()!r}"})
            first = lines.index("{") + 1
            for at in range(first + 1, first + len(body) + 1):
                for junk in P.UNRECOGNISABLE[:2]:
                    t2 = "\n".join(lines[:at] + ["\t" + junk] + lines[at:]) + "\n"
                    cases.append({"kind": "unrecognisable", "text": t2, "name": fname, "g": junk, "at": at})
    # statement count known by construction (conforming or not): every body shape alone, last in
    # the function body, and in pairs
    names = list(P.SHAPES)
    combos = [[n] for n in names] + [[a, b] for a in names for b in names if a != b][:: (1 if thorough else 5)]
    for combo in combos:
        for tail in (True, False):
            text, want = P.shaped_program(combo, tail_return=tail)
            cases.append({"kind": "counted", "text": text, "name": "a.c", "want": want, "shape": "+".join(combo) +
                          ("" if tail else " (last statement of the body)")})
    t0 = time.time()
    res = native_batch([{"op": "segments", "text": c["text"], "name": c["name"]} for c in cases])
    LAST_RESULTS[:] = res
    fails = []
    for c, r in zip(cases, res):
        m = None
        if r["exc"]:
            m = None      # internal exceptions are C05's business
        else:
            left = r["n0"]
            for (before, stop) in r["pops"]:
                if before != left:
                    m = f"token list length {before} at a pop, expected {left}: segments do not tile the stream"
                    break
                if stop < 1:
                    m = f"a statement consumed {stop} tokens"
                    break
                left = max(0, left - stop)
            if m is None and not r["fatal"] and left != 0:
                m = f"{left} tokens were never consumed"
            if m is None and c["kind"] == "conforming":
                if r["fatal"]:
                    m = f"conforming file is fatal: {r['fatal']}"
                elif r["scope_end"] != "GlobalScope":
                    m = f"nesting depth is not back at file level at the end ({r['scope_end']})"
                else:
                    for (l0, c0, lastk, l1, rule) in r["segs"]:
                        if c0 != 1 or lastk != "NEWLINE":
                            m = f"statement {rule} at line {l0} starts at column {c0} / ends with {lastk}"
                            break
            if m is None and c["kind"] == "counted" and not r["fatal"]:
                if len(r["pops"]) != c["want"]:
                    m = (f"a function body made of [{c['shape']}] is split into {len(r['pops'])} statements, "
                         f"{c['want']} by construction")
                elif r["scope_end"] != "GlobalScope":
                    m = f"nesting depth is not back at file level after a body made of [{c['shape']}] ({r['scope_end']})"
            if m is None and c["kind"] in ("conforming", "counted") and not r["fatal"]:
                for (ln, scope_after, closes) in r.get("depth", []):
                    if closes and scope_after != "GlobalScope":
                        m = (f"after the closing brace of a function (line {ln}) the nesting depth is not back at file "
                             f"level: scope {scope_after}")
                        break
            if m is None and c["kind"] == "unrecognisable" and not r["fatal"]:
                m = (f"the unrecognisable statement {c['g']!r} inserted at line {c['at'] + 1} does not stop the run with a "
                     f"fatal diagnostic (status {r['status']}, diagnostics {r['errors'][:3]})")
            if m is None and c["kind"].startswith("garbage"):
                if not r["fatal"] and r["status"] == "OK":
                    m = f"unrecognisable text {c['g']!r} ({c['kind']}) was dropped and the file is OK!"
                elif not r["fatal"] and "uncaught" not in r.get("stdout", "") and r["status"] != "Error":
                    m = f"unrecognisable text {c['g']!r} vanished without a fatal diagnostic"
        if m:
            fails.append((c, m))
    return cases, fails, time.time() - t0


def run(tier, seed, replay):
    if replay:
        rp = json.load(open(replay))
        task = rp.get("replay")
        if not task:
            print(json.dumps(rp.get("verifier_output"), indent=1)[:3000])
            return 1
        if task.get("op") == "fatal_cli":
            from .common import run_native
            nat = run_native("cli_harness", {"op": "fatal_texts", "files": [(task["name"], task["text"])]}, timeout=120)
            print(json.dumps(nat["violations"], indent=1)[:1500])
            return 1 if nat["violations"] else 0
        r = native_batch([task])[0]
        print(json.dumps({k: r[k] for k in ("fatal", "exc", "status", "stdout", "errors")}, indent=1))
        bad = (not r["fatal"]) and r["status"] == "OK"
        print("verdict:", "text was dropped silently (file OK!)" if bad else "fatal / reported")
        return 1 if bad else 0
    chk = Check("C07", tier, seed)
    thorough = tier == "thorough"
    E = chk.engine()
    SR.install(E)
    E.value_types["optscope"] = lambda E_, st, name: SOpt(z3.Bool(name + "_none"), SR.T.make_scope(E_, st, name, depth=0))
    found = {}

    def search():
        if "r" not in found:
            found["r"] = bounded_segments(chk, seed, thorough)
        return found["r"]

    def replay_drop(ob, model):
        cases, fails, _ = search()
        for c, m in fails:
            if c["kind"].startswith("garbage"):
                return True, m, {"op": "segments", "text": c["text"], "name": c["name"]}
        return None

    # Registry.run against the call-site contracts of run_rules / update
    E.contracts[SR.REG + ":Registry.run_rules"] = SR.run_rules_callsite()
    E.contracts[SR.CTX + "update"] = SR.update_callsite()
    chk.run_contract(E, SR.registry_run(), replay=replay_drop)
    # scope bookkeeping: the real bodies
    E2 = chk.engine()
    SR.install(E2)
    E2.value_types["optscope"] = E.value_types["optscope"]
    upd = SR.update_contract()
    E2.contracts[upd.key] = upd
    chk.run_contract(E2, upd)
    chk.run_contract(E2, SR.outer_contract())
    ud = SR.udef_typedef()
    E2.contracts[ud.key] = ud
    chk.run_contract(E2, ud)
    for c in [SR.block_start(), SR.block_end()] + SR.simple_primaries():
        chk.run_contract(E2, c)
    fd, cff = SR.func_declaration()
    E2.contracts[cff.key] = cff
    chk.run_contract(E2, fd)
    # progress of every other primary, with the cursor helpers of Context and of the rule
    # classes they call: each verified against the contracts of the others
    run_parallel(chk, PR.jobs(chk.repo), PR.INSTALLS, procs=12)
    finite_frame(chk)
    primaries_frame(chk)

    cases, fails, dt = search()
    chk.add_bounded("Lexer + Registry.run with an observing wrapper on Context.pop_tokens",
                    "segments tile the token stream (each >= 1 token); conforming files: every statement starts at "
                    "column 1 and ends with a NEWLINE, depth back at file level; unrecognisable text at a statement "
                    "boundary or on the last line (with / without newline) is fatal or reported, never OK!",
                    f"{len([c for c in cases if c['kind'] == 'conforming'])} generated conforming files x "
                    "{statement boundaries} x {garbage lexemes}", len(cases), fails,
                    nontrivial=len({(c["kind"], c.get("g"), c.get("shape")) for c in cases}),
                    samples=[{"kind": c["kind"], "g": c.get("g")} for c in cases[1:4]], time_s=dt)
    # "stops the run with a fatal diagnostic and non-zero status": the same fatal texts through
    # the real command line (the exit status is decided in main(), not in Registry.run)
    from .common import run_native
    fatal_cases = [c for c, r in zip(cases, LAST_RESULTS) if r.get("fatal")]
    picks, kinds = [], set()
    for c in fatal_cases:
        if c["kind"] not in kinds or len(picks) < 3:
            kinds.add(c["kind"])
            picks.append((c["name"], c["text"]))
        if len(picks) >= (12 if thorough else 6):
            break
    if picks:
        t0 = time.time()
        nat = run_native("cli_harness", {"op": "fatal_texts", "files": picks}, timeout=600)
        chk.add_bounded("norminette.__main__.main (real CLI in a subprocess)",
                        "text that no rule recognises ends the run with the fatal diagnostic, no `OK!` and a non-zero "
                        "exit status", f"{len(picks)} of the fatal inputs of the stand-in above", nat["cases"],
                        nat["violations"], nontrivial=nat["cases"], time_s=time.time() - t0)
        if nat["violations"] and not chk.has_unlisted_failure():
            v = nat["violations"][0]
            chk.report_violation("C07.bounded.fatal_exit_status",
                                 {"property": "C07", "obligation": "C07.bounded.fatal_exit_status",
                                  "replay": {"op": "fatal_cli", "text": v["text"], "name": v["name"]},
                                  "confirmed_on_real_code": True}, what=v["what"], confirmed=True)
    explained = chk.has_unlisted_failure()
    if fails and not explained:
        c, m = fails[0]
        chk.report_violation("C07.bounded.segments", {"property": "C07", "obligation": "C07.bounded.segments",
                                                      "replay": {"op": "segments", "text": c["text"], "name": c["name"]},
                                                      "confirmed_on_real_code": True}, what=m, confirmed=True)
    chk.assumptions += [
        "Registry.run is verified against the call-site contract of run_rules: a primary that matches reports a "
        "jump >= 1 and does not assign context.tokens; that clause is proved for each of the 19 primaries "
        "(specs/primaries.py + specs/registry.py), each against the contracts of the helpers it calls, which are "
        "verified against their bodies in turn; that the 19 are all the primaries is a finite check",
        "token-stream fact used by the preprocessor / prototype contracts: an IDENTIFIER token carries its spelling "
        "(Lexer.parse_identifier builds Token('IDENTIFIER', pos, value)); not derived here",
        "IsControlStatement / IsAmbiguousDeclaration assume a statement that is not a blank line: IsEmptyLine runs "
        "first (finite check on priorities and scope) and matches exactly the blank lines (its contract); the "
        "composition of the two facts through the for-loop of Registry.run is a hand argument",
        "IsExpressionStatement assumes a non-empty history (it only runs in Function / ControlStructure scopes: finite "
        "check; that such a scope implies an earlier IsFuncDeclaration match is a hand argument)",
        "IsVarDeclaration.var_declaration: IndexError on ids[-1] is not excluded by its contract (it depends on what "
        "parenthesis_contain answers); the check_func_format contracts omit the function-name / alignment bookkeeping "
        "(mechanical slice, frame-scanned)",
        "termination of the recursive-descent ConstantExpressionParser rests on CPython's recursion limit "
        "(RecursionError is caught and turned into CParsingError by the real code)",
        "Context.dprint only prints (modelled as a no-op)",
        "rules.primaries / Registry.dependencies are sequences of unknown length of opaque rule classes",
        "alignment (statement starts at a line start, ends at a line end) and depth claims are about conforming "
        "programs: bounded stand-in only",
    ]
    return chk.finish()


if __name__ == "__main__":
    main_wrapper(run)
