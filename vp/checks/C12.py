"""C12 -- alternative spellings and line splices do not change the tokens."""
import ast
import json
import random
import time

from .common import Check, main_wrapper, run_native, run_parallel
from .frames_common import sample_files
from ..specs import lexer as SL
from ..bounded import programs as P

LEXER = "norminette/lexer/lexer.py"
RESPELLABLE = set("{}[]#\\^|~")


def raw_peek_frame(chk):
    """only peek / pop see characters that have an alternative spelling: every comparison of
    a raw_peek() result inside a parser uses constants free of { } [ ] # \\ ^ | ~ -- except the
    splice test of get_next_token, which lists both spellings"""
    tree = chk.repo.module(LEXER).tree
    bad, nsites = [], 0
    splice_ok = False
    for cls in tree.body:
        if not (isinstance(cls, ast.ClassDef) and cls.name == "Lexer"):
            continue
        for fn in cls.body:
            if not isinstance(fn, ast.FunctionDef) or fn.name in ("raw_peek", "peek", "pop"):
                continue
            rawvars = set()
            for x in ast.walk(fn):
                tgt = None
                if isinstance(x, ast.Assign) and len(x.targets) == 1 and isinstance(x.targets[0], ast.Name):
                    tgt, val = x.targets[0].id, x.value
                elif isinstance(x, ast.NamedExpr):
                    tgt, val = x.target.id, x.value
                if tgt and isinstance(val, ast.Call) and isinstance(val.func, ast.Attribute) and val.func.attr == "raw_peek":
                    rawvars.add(tgt)

            def is_raw(e):
                return (isinstance(e, ast.Name) and e.id in rawvars) or \
                    (isinstance(e, ast.Call) and isinstance(e.func, ast.Attribute) and e.func.attr == "raw_peek")

            def consts(e):
                if isinstance(e, ast.Constant) and isinstance(e.value, str):
                    return [e.value]
                if isinstance(e, (ast.Tuple, ast.List)):
                    return [c for el in e.elts for c in consts(el)]
                if isinstance(e, ast.BinOp):
                    return consts(e.left) + consts(e.right)
                return []
            for x in ast.walk(fn):
                strs = []
                if isinstance(x, ast.Compare) and (is_raw(x.left) or any(is_raw(c) for c in x.comparators)):
                    for side in [x.left] + list(x.comparators):
                        strs += consts(side)
                if isinstance(x, ast.Call) and isinstance(x.func, ast.Attribute) and x.func.attr in ("startswith", "endswith") \
                        and is_raw(x.func.value):
                    for a in x.args:
                        strs += consts(a)
                for s_ in strs:
                    nsites += 1
                    if set(s_) & RESPELLABLE:
                        if fn.name == "get_next_token" and s_ in ("\\\n", "??/\n"):
                            continue
                        bad.append(f"{fn.name}: raw text compared with {s_!r}")
            if fn.name == "get_next_token":
                src = ast.unparse(fn)
                splice_ok = "'\\\\\\n'" in src and "'??/\\n'" in src
    chk.frame("frame.parsers_compare_raw_text_only_with_unrespellable_characters", not bad, {"comparisons": nsites, "violations": bad},
              what=f"a parser looks at raw source characters that have an alternative spelling: {bad}")
    chk.frame("frame.splice_test_lists_both_spellings", splice_ok, {},
              what="get_next_token no longer tests both spellings of a line splice ('\\\\' newline and '??/' newline)")
    # parse_operator reads at most 3 logical characters (completeness of the finite evaluation)
    f = chk.repo.find_function(LEXER + ":Lexer.parse_operator")
    widths = []
    for x in ast.walk(f.node):
        if isinstance(x, ast.Call) and isinstance(x.func, ast.Attribute) and x.func.attr in ("raw_peek", "peek", "pop"):
            for k in x.keywords:
                if k.arg in ("collect", "times") and isinstance(k.value, ast.Constant):
                    widths.append(k.value.value)
                elif k.arg in ("collect", "times"):
                    widths.append(99)
    known = [w for w in widths if w != 99]
    if 99 in widths and all(w <= 3 for w in known):
        # a width that is not a literal (taken from a table, a variable): how far the function looks
        # is not known to this scan -- the finite evaluation may be incomplete; not a verdict
        from .common import Item
        chk.items.append(Item("C12.frame.parse_operator_reads_at_most_three_characters", "frame-scan", "undecided",
                              "frame-scan", 0.0, {"widths": widths}))
        chk.undecided.append("C12.frame.parse_operator_reads_at_most_three_characters: a look-ahead width of parse_operator "
                             "is not a literal; the bounded stand-in over mixed spellings decides")
    else:
        chk.frame("frame.parse_operator_reads_at_most_three_characters", all(w <= 3 for w in widths), {"widths": widths},
                  what=f"parse_operator looks further ahead than 3 characters ({widths}): the finite evaluation is not complete")


def run(tier, seed, replay):
    if replay:
        rp = json.load(open(replay))
        task = rp.get("replay")
        if not task:
            print(json.dumps(rp.get("verifier_output"), indent=1)[:3000])
            return 1
        r = run_native("spell_harness", {"op": "programs", "files": [[task["name"], task["a"]]], "seed": 0}) \
            if "a" in task else run_native("spell_harness", task)
        print(json.dumps(r, indent=1)[:1500])
        return 1 if r.get("violations") else 0
    chk = Check("C12", tier, seed)
    from .frames_common import file_source_obligations
    file_source_obligations(chk)
    thorough = tier == "thorough"
    rnd = random.Random(seed)
    # 1. peek is the respelling map of the C standard (for every source); 4. splices between tokens
    jobs = [j for j in SL.lexer_jobs() if j[0] in ("peek[1]", "peek[2]", "raw_peek[3]", "raw_peek[2]", "get_next_token",
                                                   "parse_operator", "parse_brackets")]
    run_parallel(chk, jobs, SL.INSTALLS, procs=8)
    # 2. frames
    raw_peek_frame(chk)
    # 3. longest match in every spelling: complete finite evaluation through the real tokenizer
    t0 = time.time()
    nat = run_native("spell_harness", {"op": "operators"}, timeout=1200)
    chk.finite("parse_operator.longest_match_in_every_spelling", not nat["violations"], nat["cases"],
               {"violations": [v["what"] for v in nat["violations"][:4]]},
               replay=({"op": "one", "text": nat["violations"][0]["text"]} if nat["violations"] else None),
               what=(nat["violations"][0]["what"] if nat["violations"] else ""), time_s=time.time() - t0)
    # 5. programs: respelling and splices (bounded)
    files = sample_files(chk.repo.root, None if thorough else 60)
    for i in range(4):
        files.append((f"gen{i}.c", P.conforming_c(rnd, 2, name=f"gen{i}.c")))
    files.append(("gen.h", P.conforming_h()))
    t0 = time.time()
    nat = run_native("spell_harness", {"op": "programs", "files": files, "seed": seed}, timeout=3000)
    chk.add_bounded("Lexer, and Lexer + Registry.run, two runs",
                    "writing { } [ ] # ^ | ~ as digraphs / trigraphs outside comments and literals, and inserting a line "
                    "splice (either spelling) between tokens, leaves the (kind, value) sequence unchanged; for braces "
                    "and brackets the diagnostics keep their names and lines (LINE_TOO_LONG apart: the spelling is wider)",
                    f"{len(files)} files x 4 respellings + 2 splice insertions (random subsets of the occurrences)",
                    nat["cases"], nat["violations"], nontrivial=nat["cases"], samples=[f[0] for f in files[:3]],
                    time_s=time.time() - t0)
    explained = chk.has_unlisted_failure()
    if nat["violations"] and not explained:
        v = nat["violations"][0]
        chk.report_violation("C12.bounded.programs", {"property": "C12", "obligation": "C12.bounded.programs",
                                                      "replay": {"a": v["a"], "b": v["b"], "name": v["name"]},
                                                      "confirmed_on_real_code": True}, what=v["what"], confirmed=True)
    # known finding K6: a splice right after a // comment
    k6 = [k for k in chk.known if k["id"] == "K6"]
    if k6:
        r = run_native("spell_harness", {"op": "one", "text": "// x\\\n\nint a;\n"})
        toks = [t[0] for t in (r["tokens"] or [])]
        chk.known_finding("K6", "INT" not in toks)
    chk.assumptions += [
        "column-independence of the rules under respelling (claim 5) is not analysed deductively: bounded stand-in",
        "completeness of the operator evaluation rests on the frame 'parse_operator reads at most 3 logical characters'",
        "a splice placed right after a // comment is known finding K6 and is not generated",
    ]
    return chk.finish()


if __name__ == "__main__":
    main_wrapper(run)
