"""Shared driver code for the per-property checks: obligation bookkeeping, verdicts,
evidence files, replay files, known findings."""
import json
import os
import subprocess
import sys
import time
import traceback

import z3

from ..pyvc.spec import new_engine, verify, SpecError
from ..pyvc.solver import discharge, cvc5_check, discharge_parallel
from ..pyvc.repo import Repo, repo_root
from ..pyvc.values import KINDS
from ..models import tokens as T

VERIF = os.path.dirname(os.path.dirname(os.path.dirname(os.path.abspath(__file__))))
# where evidence/ and replays/ are written: /verif unless VERIF_OUT is set (used by
# tools/try_seeds.sh so that trial runs on seeded trees never touch the committed evidence)
OUT = os.environ.get("VERIF_OUT") or VERIF
NATIVE_PY = "/venv/bin/python"

PY_ASSUMPTIONS = [
    "pyvc encodes CPython semantics for the stated subset (evaluation order, short-circuit, truthiness, "
    "negative-index wrap, IndexError/AttributeError/TypeError on None) -- validated by the CPython "
    "cross-check in the thorough tier, not proved",
    "Python integers are mathematical integers (exact)",
    "no monkey-patching / __getattr__ tricks in the code under contract",
]


class Item:
    """one line of the verdict table: an obligation group, a finite evaluation, a frame
    scan, a regular-language lemma or a bounded stand-in"""

    def __init__(self, name, kind, status, backend, time_s=0.0, detail=None, replay=None):
        self.name, self.kind, self.status, self.backend = name, kind, status, backend
        self.time_s, self.detail, self.replay = time_s, detail, replay

    def as_json(self):
        d = {"name": self.name, "kind": self.kind, "status": self.status, "backend": self.backend,
             "time_s": round(self.time_s, 4)}
        if self.detail is not None:
            d["detail"] = self.detail
        return d


CURRENT = None       # the Check of this process (main_wrapper finishes it when a run is cut short)


class Check:
    def __init__(self, pid, tier, seed):
        global CURRENT
        CURRENT = self
        self.pid, self.tier, self.seed = pid, tier, seed
        self.t0 = time.time()
        self.items = []
        self.functions = []
        self.bounded = []
        self.assumptions = list(PY_ASSUMPTIONS)
        self.trusted = ["z3 %s (deciding back end)" % z3.get_version_string(), "python ast module",
                        "pyvc symbolic executor (vp/pyvc)"]
        self.violations = []          # (description, replay path)
        self.known_printed = []
        self.known_bases = set()
        self.undecided = []
        self.vacuity = []
        self.notes = []
        self.repo = Repo()
        self.solver_time = 0.0
        self.known = load_known(pid)
        self.timeout_ms = 20000 if tier == "quick" else 120000
        self.defer = False            # child process: collect failures, the parent reports them
        self.pending = []
        os.makedirs(os.path.join(OUT, "replays"), exist_ok=True)
        os.makedirs(os.path.join(OUT, "evidence"), exist_ok=True)

    # ------------------------------------------------------------------ engines
    def engine(self):
        E = new_engine(self.repo)
        T.install(E)
        from ..specs import context as C
        from ..models import strings as S
        C.install(E)
        S.install(E)
        E.prefix = self.pid + "."
        for c in C.contracts():
            E.contracts.setdefault(c.key, c)
        return E

    # ------------------------------------------------------------------ contracts
    def run_contract(self, E, contract, variant=None, replay=None, setup=None, known_class=None):
        """verify one function against its contract, discharge, group per obligation base
        name.  replay(ob, model) -> (confirmed, input_description, replay_dict) or None"""
        t0 = time.time()
        try:
            res = verify(E, contract, variant=variant, setup=setup)
        except SpecError as e:
            # the contract cannot be evaluated on this body (a name of the specification is taken by a
            # local variable, a variable an invariant mentions is gone, the statement a slice is
            # anchored at has moved).  On the tree the contract was written for this does not happen
            # (the run on the unchanged tree would show it as undecided); on a changed tree it means
            # the contract says nothing about the new body: undecided, never a crash, never a verdict
            self.functions.append({"function": contract.key, "variant": variant, "unsupported": f"specification not evaluable: {e}"})
            self.items.append(Item(f"{self.pid}.{contract.key.split(':')[1]}", "contract", "undecided", "pyvc",
                                   detail={"specification-not-evaluable": str(e)[:400]}))
            self.undecided.append(f"{contract.key}: the contract cannot be evaluated on the current body ({str(e)[:160]})")

            class _Empty:
                obligations, notes, unsupported, paths, lines, src_hash = [], [], str(e), 0, 0, None
            return _Empty()
        fn = {"function": contract.key, "variant": variant, "source_hash": res.src_hash,
              "lines": res.lines, "paths": res.paths, "obligations": len(res.obligations)}
        self.functions.append(fn)
        for n in res.notes:
            if n not in self.notes:
                self.notes.append(n)
        if res.unsupported:
            fn["unsupported"] = res.unsupported
            self.items.append(Item(f"{self.pid}.{contract.key.split(':')[1]}", "contract", "undecided", "pyvc",
                                   detail={"unsupported-construct": res.unsupported}))
            self.undecided.append(f"{contract.key}: unsupported construct: {res.unsupported}")
            return res
        if len(res.obligations) < contract.min_obligations:
            raise RuntimeError(f"vacuity: {contract.key} generated {len(res.obligations)} obligations, "
                               f"expected at least {contract.min_obligations}")
        discharge_parallel([ob for ob in res.obligations if ob.kind != "mustfail"], self.timeout_ms)
        groups = {}
        for ob in res.obligations:
            groups.setdefault(ob.meta["base"], []).append(ob)
        for base, obs in groups.items():
            tg = 0.0
            kind = obs[0].kind
            for ob in obs:
                if ob.result is None and kind != "mustfail":
                    discharge(ob, self.timeout_ms)
                tg += ob.time
                self.solver_time += ob.time
            if kind == "mustfail":
                # vacuity guard: one refuted instance is enough; short budget per path,
                # shortest path conditions first
                refuted = False
                order = sorted(obs, key=lambda o: len(o.pc))
                order = order[-8:][::-1] + order[:8]
                for ob in order:
                    # quantified facts are left out: they only make the refutation harder to
                    # find (precondition vacuity has its own check in verify())
                    ob.pc = [t for t in ob.pc if not E.has_quantifier(t)]
                    discharge(ob, 4000)
                    self.solver_time += ob.time
                    if ob.result == "failed":
                        refuted = True
                        break
                self.vacuity.append({"guard": base, "refuted": refuted})
                if not refuted:
                    # on the tree the contract was written for every guard is refuted; when it is
                    # not, either the code no longer takes the path the guard stands for or the
                    # contract has become vacuous: nothing this contract says is believed any more
                    self.items.append(Item(base, "vacuity-guard", "undecided", "z3", tg,
                                           {"reason": "a clause that must be refutable was not refuted: the code no "
                                                      "longer takes the path this guard stands for, or the contract "
                                                      "is vacuous on it", "clause": obs[0].meta.get("ensures")}))
                    self.undecided.append(f"{base}: vacuity guard not refuted -- the contract of {contract.key} "
                                          "decides nothing on this tree")
                continue
            failed = [ob for ob in obs if ob.result == "failed" and not ob.meta.get("approx")]
            unknown = [ob for ob in obs if ob.result == "unknown"]
            # refuted only on paths that went through an over-approximated operation: undecided
            for ob in obs:
                if ob.result == "failed" and ob.meta.get("approx"):
                    ob.result = "unknown"
                    ob.meta["reason"] = "refuted only under an over-approximation: " + "; ".join(ob.meta["approx"])[:300]
                    unknown.append(ob)
            detail = {"paths": len(obs)}
            if obs[0].meta.get("ensures"):
                detail["clause"] = obs[0].meta["ensures"]
            if obs[0].meta.get("invariant"):
                detail["clause"] = obs[0].meta["invariant"]
            if obs[0].kind == "frame" and "modifies" in obs[0].meta:
                detail["modifies"] = obs[0].meta["modifies"]
                w = sorted({x for o in obs for x in o.meta.get("writes_outside_modifies", [])})
                if w:
                    detail["writes_outside_modifies"] = w
            if failed and base.endswith(".frame.modifies") and not getattr(contract, "frame_is_property", False):
                # the modifies clause is what call sites havoc: an auxiliary fact of the modular
                # argument, no part of any property.  A body that writes more is not described
                # by its contract any more -- the proofs that used it are not valid on this tree
                # (undecided, the level drops); it is not a violation of the property.
                status = "undecided"
                detail["reason"] = ("the body writes outside the modifies clause of its contract: "
                                    + ", ".join(detail.get("writes_outside_modifies", []))[:300])
                self.undecided.append(f"{base}: {detail['reason']} -- call sites of {contract.key} are no longer "
                                      "described by its contract")
            elif failed and base.endswith(".raises.unexpected.AssertionError"):
                # an `assert` of the code fails for some state the precondition of this contract
                # allows.  Asserts state invariants of the whole program (established by other
                # functions); whether such a state is ever reached is not decided by this contract
                status = "undecided"
                detail["reason"] = "an assert statement is not implied by the precondition of the contract"
                self.undecided.append(f"{base}: {detail['reason']} ({contract.key})")
            elif failed:
                status = "failed"
                self.handle_failed(contract, base, failed[0], replay, detail)
            elif unknown:
                status = "undecided"
                detail["reason"] = unknown[0].meta.get("reason")
                self.undecided.append(f"{base}: solver returned unknown ({detail['reason']})")
            else:
                status = "discharged"
                if self.tier == "thorough" and os.environ.get("VERIF_CVC5", "1") == "1":
                    detail["cvc5"] = cvc5_check(obs[0], 30)
                    if detail["cvc5"] == "sat":
                        raise RuntimeError(f"solver disagreement on {base}: z3 unsat, cvc5 sat")
            self.items.append(Item(base, kind, status, "z3", tg, detail))
        fn["wall_s"] = round(time.time() - t0, 3)
        return res

    def handle_failed(self, contract, base, ob, replay, detail):
        model_txt = model_summary(ob.model)
        detail["model"] = model_txt[:1500]
        rp = {"property": self.pid, "obligation": ob.name, "function": contract.key,
              "clause": ob.meta.get("ensures") or ob.meta.get("invariant") or ob.meta.get("when")
              or ob.meta.get("exception")
              or (f"the body writes outside its modifies clause {ob.meta.get('modifies')}: "
                  f"{ob.meta.get('writes_outside_modifies')}" if ob.meta.get("writes_outside_modifies") else None),
              "verifier_output": {"result": "sat (obligation refuted)", "model": model_txt[:6000]},
              "repo": repo_root()}
        if self.defer:
            self.pending.append({"key": contract.key, "base": base, "rp": rp, "obligation": ob.name})
            return
        self.finalize_failed(contract.key, base, rp, replay, ob)

    def finalize_failed(self, key, base, rp, replay, ob=None):
        confirmed = None
        if replay is not None:
            try:
                import inspect
                if len(inspect.signature(replay).parameters) >= 3:
                    confirmed = replay(ob, ob.model if ob is not None else None, base)
                else:
                    confirmed = replay(ob, ob.model if ob is not None else None)
            except Exception as e:      # replay harness problems never become verdicts
                rp["replay_error"] = repr(e)
        if confirmed:
            ok, desc, rdict = confirmed
            rp["replay"] = rdict
            rp["replay_result"] = desc
            rp["confirmed_on_real_code"] = bool(ok)
        else:
            rp["confirmed_on_real_code"] = False
        self.report_violation(base, rp, what=(confirmed[1] if confirmed else f"obligation {base} refuted"),
                              confirmed=bool(confirmed and confirmed[0]))

    # ------------------------------------------------------------------ other item kinds
    def finite(self, name, ok, cases, detail=None, replay=None, what=None, time_s=0.0):
        """complete evaluation of a finite domain through the real code"""
        d = {"cases": cases, "exhaustive": True}
        d.update(detail or {})
        self.items.append(Item(f"{self.pid}.{name}", "finite-domain", "discharged" if ok else "failed",
                               "finite", time_s, d))
        if not ok:
            rp = {"property": self.pid, "obligation": f"{self.pid}.{name}", "verifier_output": d,
                  "replay": replay, "confirmed_on_real_code": replay is not None, "repo": repo_root()}
            self.report_violation(f"{self.pid}.{name}", rp, what=what or name, confirmed=replay is not None)

    def frame(self, name, ok, detail=None, what=None, replay=None, time_s=0.0):
        self.items.append(Item(f"{self.pid}.{name}", "frame-scan", "discharged" if ok else "failed",
                               "frame-scan", time_s, detail))
        if not ok:
            rp = {"property": self.pid, "obligation": f"{self.pid}.{name}", "verifier_output": detail,
                  "replay": replay, "confirmed_on_real_code": replay is not None, "repo": repo_root()}
            self.report_violation(f"{self.pid}.{name}", rp, what=what or name, confirmed=replay is not None)

    def smt(self, name, result, time_s, detail=None, kind="lemma", replay=None, what=None, backend="z3"):
        """an obligation discharged outside pyvc (regex-language lemma, comparator law)"""
        status = {"unsat": "discharged", "sat": "failed"}.get(result, "undecided")
        self.solver_time += time_s
        self.items.append(Item(f"{self.pid}.{name}", kind, status, backend, time_s, detail))
        if status == "undecided":
            self.undecided.append(f"{self.pid}.{name}: {result}")
        if status == "failed":
            rp = {"property": self.pid, "obligation": f"{self.pid}.{name}", "verifier_output": detail,
                  "replay": replay, "confirmed_on_real_code": bool(replay and replay.get("confirmed")),
                  "repo": repo_root()}
            self.report_violation(f"{self.pid}.{name}", rp, what=what or name,
                                  confirmed=bool(replay and replay.get("confirmed")))

    def add_bounded(self, function, contract, bound, cases, failures, nontrivial=None, samples=None,
                    time_s=0.0):
        """bounded stand-in: never counted as proved"""
        entry = {"function": function, "contract": contract, "bound": bound, "cases": cases,
                 "failures": len(failures), "label": "bounded", "time_s": round(time_s, 2)}
        if nontrivial is not None:
            entry["distinct_nontrivial"] = nontrivial
        if samples:
            entry["samples"] = samples[:3]
        self.bounded.append(entry)

    # ------------------------------------------------------------------ verdicts
    def is_known(self, rp, what):
        for k in self.known:
            if k.get("status") == "fixed":
                continue
            pat = k.get("obligation")
            if pat and pat not in rp.get("obligation", ""):
                continue
            if k.get("match") and k["match"] not in json.dumps(rp, default=str) and k["match"] not in what:
                continue
            return k
        return None

    def has_unlisted_failure(self):
        """a failed obligation that is not a listed known finding: it has been reported as a
        violation already, so a failure of the bounded stand-in of the same contract is
        explained by it (a known finding explains nothing else)"""
        return any(i.status == "failed" and i.name not in self.known_bases for i in self.items)

    def report_violation(self, base, rp, what, confirmed):
        k = self.is_known(rp, what)
        if k is not None:
            self.known_bases.add(base)
            line = f"KNOWN-FINDING: property={self.pid} {k['what']}"
            if line not in self.known_printed:
                print(line)
                self.known_printed.append(line)
            return
        idx = len(self.violations)
        path = os.path.join(OUT, "replays", f"{self.pid}_{idx}_{safe(base)}.json")
        with open(path, "w") as fh:
            json.dump(rp, fh, indent=1, default=str)
        tail = "" if confirmed else " no-failing-input-found"
        print(f"VIOLATION property={self.pid} replay={path}{tail}")
        print(f"  obligation: {rp.get('obligation')}")
        print(f"  what: {what}")
        self.violations.append((what, path))

    def known_finding(self, kid, still_fails):
        """a listed finding whose witness was replayed natively"""
        for k in self.known:
            if k["id"] == kid and k.get("status") != "fixed":
                if still_fails:
                    line = f"KNOWN-FINDING: property={self.pid} {k['what']}"
                    if line not in self.known_printed:
                        print(line)
                        self.known_printed.append(line)
                return k
        return None

    # ------------------------------------------------------------------ evidence
    def finish(self, level_if_complete="proof", explanation=None, extra_cov=None):
        for i in self.items:
            if i.status == "failed":
                for k in self.known:
                    if k.get("status") != "fixed" and k.get("obligation") and k["obligation"] in i.name:
                        i.status = "known-finding"
        prov = [i for i in self.items if i.kind != "bounded" and i.status != "known-finding"]
        n_ob = len(prov)
        n_dis = sum(1 for i in prov if i.status == "discharged")
        by_backend = {}
        for i in prov:
            if i.status == "discharged":
                by_backend[i.backend] = by_backend.get(i.backend, 0) + 1
        level = level_if_complete
        if level == "proof" and (n_dis != n_ob or n_ob == 0 or self.violations or self.undecided):
            level = "other"          # a run that reports a violation proves nothing
        if n_ob == 0 and not self.bounded:
            raise RuntimeError("vacuity: the check generated no obligation at all")
        samples = [i.as_json() for i in prov[:5]]
        cov = {
            "obligations": n_ob,
            "discharged": n_dis,
            "checker_cmd": f"./check {self.pid} --tier {self.tier}",
            "trusted_base": self.trusted,
            "samples": samples,
            "by_backend": by_backend,
            "solver_time_s": round(self.solver_time, 3),
            "functions_under_contract": self.functions,
            "undecided": self.undecided,
            "bounded": self.bounded,
            "vacuity": self.vacuity,
            "known_findings_reproduced": self.known_printed,
            "excluded_as_known_finding": [i.name for i in self.items if i.status == "known-finding"],
            "all_items": [i.as_json() for i in self.items],
            "explanation": explanation or "",
        }
        if self.bounded:
            ev = sum(b["cases"] for b in self.bounded)
            cov["evaluations"] = ev
            cov["distinct_nontrivial"] = sum(b.get("distinct_nontrivial", 0) for b in self.bounded)
            cov["rule"] = "bounded stand-ins only (never counted under obligations/discharged): " + \
                "; ".join(f"{b['function']}: {b['bound']}" for b in self.bounded)
        if extra_cov:
            cov.update(extra_cov)
        if level == "other" and not cov["explanation"]:
            cov["explanation"] = "some obligations were not discharged: " + "; ".join(self.undecided[:10])
        if level in ("exploration",):
            cov.setdefault("evaluations", 0)
        ev = {
            "property_id": self.pid, "tier": self.tier, "seed": self.seed, "level": level,
            "coverage": cov,
            "assumptions": self.assumptions + self.notes,
            "wall_s": round(time.time() - self.t0, 2),
            "violations": len(self.violations),
        }
        path = os.path.join(OUT, "evidence", f"{self.pid}.json")
        with open(path, "w") as fh:
            json.dump(ev, fh, indent=1, default=str)
        print(f"{self.pid}: level={level} obligations={n_ob} discharged={n_dis} "
              f"bounded-cases={sum(b['cases'] for b in self.bounded)} violations={len(self.violations)} "
              f"undecided={len(self.undecided)} wall={ev['wall_s']}s")
        return 1 if self.violations else 0


def _parallel_job(job):
    """child process: verify one contract with its own engine"""
    pid, tier, seed, label, modname, funcname, args, installs = job
    import importlib
    from ..pyvc import solver as _solver
    _solver.NO_POOL = True          # the jobs already fill the cores; no pool inside a pool
    chk = Check(pid, tier, seed)
    chk.defer = True
    E = chk.engine()
    for m in installs:
        importlib.import_module(m).install(E)
    mod = importlib.import_module(modname)
    contract, variant = getattr(mod, funcname)(E, *args)
    t0 = time.time()
    try:
        chk.run_contract(E, contract, variant=variant)
        err = None
    except Exception:
        err = traceback.format_exc()
    from ..pyvc.solver import shutdown_pool
    shutdown_pool()
    if os.environ.get("VERIF_PROGRESS"):
        print(f"[job {label}] {time.time() - t0:.1f}s", file=sys.stderr, flush=True)
    return {"label": label, "items": [(i.name, i.kind, i.status, i.backend, i.time_s, i.detail) for i in chk.items],
            "functions": chk.functions, "notes": chk.notes, "undecided": chk.undecided, "vacuity": chk.vacuity,
            "pending": chk.pending, "solver_time": chk.solver_time, "error": err}


def run_parallel(chk, jobs, installs, replays=None, procs=8):
    """jobs: (label, module, function, args); function(E, *args) -> (contract, variant).
    Each contract is verified in its own process; results are merged in job order."""
    import multiprocessing as mp
    from concurrent.futures import ProcessPoolExecutor
    full = [(chk.pid, chk.tier, chk.seed, lab, m, f, a, installs) for lab, m, f, a in jobs]
    # every job gets its result within a time limit; a job whose worker process hangs (pool
    # infrastructure, not the contract) is run again in this process
    import concurrent.futures as _cf
    limit = 3600 if chk.tier == "thorough" else 900
    ex = ProcessPoolExecutor(max_workers=procs, mp_context=mp.get_context("spawn"))
    futures = [ex.submit(_parallel_job, j) for j in full]
    results, t_end = [None] * len(full), time.time() + limit
    pending = []
    for k, f in enumerate(futures):
        try:
            results[k] = f.result(timeout=max(1.0, t_end - time.time()))
        except (_cf.TimeoutError, _cf.process.BrokenProcessPool):
            pending.append(k)
    procs_ = list(getattr(ex, "_processes", {}).values())
    ex.shutdown(wait=False, cancel_futures=True)
    if pending:
        for p_ in procs_:
            try:
                p_.kill()
            except Exception:
                pass
        for k in pending:
            results[k] = _parallel_job(full[k])
    for r in results:
        if r["error"]:
            raise RuntimeError(f"contract job {r['label']} crashed:\n{r['error']}")
        for name, kind, status, backend, t, detail in r["items"]:
            chk.items.append(Item(name, kind, status, backend, t, detail))
        chk.functions += r["functions"]
        chk.undecided += r["undecided"]
        chk.vacuity += r["vacuity"]
        chk.solver_time += r["solver_time"]
        for n in r["notes"]:
            if n not in chk.notes:
                chk.notes.append(n)
        for p in r["pending"]:
            rp_fn = (replays or {}).get(p["key"].split(":")[1])
            chk.finalize_failed(p["key"], p["base"], p["rp"], rp_fn, None)
    return results


def safe(s):
    return "".join(ch if ch.isalnum() or ch in "._-" else "_" for ch in s)[:100]


def load_known(pid):
    path = os.path.join(VERIF, "known_findings.json")
    if not os.path.exists(path):
        return []
    with open(path) as fh:
        data = json.load(fh)
    return [k for k in data.get("findings", []) if k.get("property") == pid]


def model_summary(m):
    if m is None:
        return ""
    out = []
    for d in m.decls():
        v = m[d]
        s = str(v)
        if len(s) > 200:
            s = s[:200] + "..."
        out.append(f"{d.name()} = {s}")
    out.sort()
    return "\n".join(out)


def mval(m, t, default=0):
    """integer value of term t in model m (model completion on)"""
    v = m.eval(t, model_completion=True)
    try:
        return v.as_long()
    except Exception:
        return default


def mbool(m, t):
    return z3.is_true(m.eval(t, model_completion=True))


def mstr(m, t):
    v = m.eval(t, model_completion=True)
    try:
        return v.as_string()
    except Exception:
        return ""


def run_native(script, payload, timeout=120, repo=None):
    """run vp/replay/<script>.py under the interpreter the test-suite uses, against the
    tree under verification; payload/response are JSON"""
    env = dict(os.environ)
    root = repo or repo_root()
    env["PYTHONPATH"] = root + os.pathsep + VERIF
    env["VERIF_REPO"] = root
    p = subprocess.run([NATIVE_PY, "-m", f"vp.replay.{script}"], input=json.dumps(payload), text=True,
                       capture_output=True, timeout=timeout, env=env, cwd=root)
    if p.returncode != 0:
        raise RuntimeError(f"native harness {script} failed: {p.stderr[-2000:]}")
    res = json.loads(p.stdout)
    if isinstance(res, dict) and "aborted_after_hangs" in res:
        raise NativeHang(res["aborted_after_hangs"])
    return res


class NativeHang(Exception):
    """the real code gave no answer within the time limit on these inputs (the harness stops
    after a few of them instead of waiting one time limit per remaining input)"""
    def __init__(self, hangs):
        super().__init__(f"{len(hangs)} input(s) without answer")
        self.hangs = hangs


def hang_text(h):
    if h.get("kind") == "cli":
        return f"`python -m norminette {' '.join(h.get('args', []))}` does not end within {h.get('seconds')} s"
    if h.get("kind") == "rule":
        sp = h.get("spec", {})
        return f"{sp.get('cls')}.{sp.get('method', 'run')} gives no answer within {h.get('seconds')} s on a hand-built token list"
    what = "the tokenizer" if h.get("kind") == "lex" else "the pipeline (tokenizer + rules)"
    return f"{what} gives no answer within {h.get('seconds')} s on {h.get('text')!r} as {h.get('name')}"


def replay_hang(task):
    """re-run an input that hung: exit 1 while it still gives no answer"""
    h = task["input"]
    if h.get("kind") == "cli":
        import tempfile, shutil
        d = tempfile.mkdtemp(prefix="hang_")
        try:
            for rel, text in h.get("files", {}).items():
                os.makedirs(os.path.dirname(os.path.join(d, rel)) or d, exist_ok=True)
                with open(os.path.join(d, rel), "w", encoding="utf-8") as fh:
                    fh.write(text)
            env = dict(os.environ, PYTHONPATH=repo_root())
            try:
                p = subprocess.run([NATIVE_PY, "-m", "norminette"] + h.get("args", []), cwd=d, capture_output=True,
                                   text=True, timeout=h.get("seconds", 60), env=env)
                print("the run ends with status", p.returncode)
                return 0
            except subprocess.TimeoutExpired:
                print(hang_text(h))
                return 1
        finally:
            shutil.rmtree(d, ignore_errors=True)
    op = {"lex": "lex", "pipeline": "pipeline", "rule": "rule"}.get(h.get("kind"), "pipeline")
    req = dict(h.get("spec", {}), op="rule") if op == "rule" else {"op": op, "text": h.get("text", ""), "name": h.get("name", "a.c")}
    try:
        r = run_native("native", {"tasks": [req]}, timeout=120)["results"][0]
    except NativeHang:
        print(hang_text(h))
        return 1
    print("answer:", json.dumps(r)[:600])
    return 1 if r.get("exc") == "TIMEOUT" else 0


def native_batch(tasks, chunk=300, procs=14, timeout=900):
    """run many native tasks in parallel subprocesses, results in task order"""
    from concurrent.futures import ThreadPoolExecutor
    if not tasks:
        return []
    chunk = max(1, min(chunk, (len(tasks) + procs - 1) // procs))
    chunks = [tasks[i:i + chunk] for i in range(0, len(tasks), chunk)]

    def go(ch):
        return run_native("native", {"tasks": ch}, timeout=timeout)["results"]
    with ThreadPoolExecutor(max_workers=procs) as ex:
        parts = list(ex.map(go, chunks))
    out = []
    for p in parts:
        out.extend(p)
    for r in out:
        if "harness_error" in r:
            raise RuntimeError("native harness error: " + r["harness_error"] + "\n" + r.get("tb", ""))
    return out


def main_wrapper(fn):
    """exit codes: 0 held, 1 violation, 3 checker crash (never a VIOLATION line)"""
    import argparse
    ap = argparse.ArgumentParser()
    ap.add_argument("--tier", default=os.environ.get("VERIF_TIER", "quick"))
    ap.add_argument("--replay", default=None)
    a = ap.parse_args(sys.argv[2:])
    seed = int(os.environ.get("VERIF_SEED", "0") or 0)
    tier = a.tier if a.tier in ("quick", "thorough") else "quick"
    try:
        if a.replay:
            with open(a.replay) as fh:
                task = (json.load(fh) or {}).get("replay") or {}
            if task.get("op") == "hang":
                sys.exit(replay_hang(task))
        rc = fn(tier, seed, a.replay)
    except NativeHang as e:
        # no answer is a verdict about the code, not a failure of the checker: nothing the
        # property describes (tokens, diagnostics, verdict lines) is produced for these inputs
        pid = sys.argv[1]
        chk = CURRENT if CURRENT is not None and CURRENT.pid == pid else Check(pid, tier, seed)
        chk.add_bounded("real code under a watchdog", "every input of the bounded families gets an answer within the time limit",
                        f"stopped after {len(e.hangs)} input(s) without answer", len(e.hangs), e.hangs,
                        nontrivial=len(e.hangs), samples=[hang_text(h)[:200] for h in e.hangs])
        chk.items.append(Item(f"{pid}.native.answers_within_the_time_limit", "bounded", "failed", "native", 0.0,
                              {"inputs": [hang_text(h)[:300] for h in e.hangs]}))
        h = e.hangs[0]
        chk.report_violation(f"{pid}.native.answers_within_the_time_limit", {
            "property": pid, "obligation": f"{pid}.native.answers_within_the_time_limit",
            "replay": {"op": "hang", "input": h}, "confirmed_on_real_code": True,
            "note": "the check was cut short: the other obligations of this run are not reported"},
            what=hang_text(h) + " -- nothing the property describes is produced for it", confirmed=True)
        chk.assumptions.append("run cut short after inputs without answer: contracts and the remaining bounded families "
                               "were not evaluated in this run")
        rc = chk.finish(level_if_complete="other")
    except Exception:
        traceback.print_exc()
        print("CHECKER-ERROR (exit 3): this is a failure of the checking machinery, not a verdict")
        sys.exit(3)
    sys.exit(rc)
