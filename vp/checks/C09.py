"""C09 -- token and diagnostic positions are true source positions."""
import json
import time

import z3

from .common import Check, main_wrapper, run_native, run_parallel
from ..specs import lexer as SL
from ..models import lexer as LX


def rawpos_lemmas(chk):
    """positions are >= 1: induction over the raw offset (base + step), used as a lemma
    when the defining equations are instantiated"""
    src = LX.Src("lem")
    p = z3.Int("p")
    s = z3.Solver()
    s.add(src.RL(0) == 1, src.RC(0) == 1, z3.Not(z3.And(src.RL(0) >= 1, src.RC(0) >= 1)))
    t0 = time.time()
    r = str(s.check())
    chk.smt("rawpos.positive.base", r, time.time() - t0, {"claim": "rawpos(0) = (1, 1) >= 1"})
    s = z3.Solver()
    s.add(p >= 0, p < src.length, src.RL(p) >= 1, src.RC(p) >= 1, LX.step_axiom(src, p),
          z3.Not(z3.And(src.RL(p + 1) >= 1, src.RC(p + 1) >= 1)))
    t0 = time.time()
    r = str(s.check())
    chk.smt("rawpos.positive.step", r, time.time() - t0,
            {"claim": "rawpos(p) >= 1 and the defining equation at p imply rawpos(p+1) >= 1"})


def run(tier, seed, replay):
    if replay:
        rp = json.load(open(replay))
        task = rp.get("replay")
        if not task:
            print("no concrete input in this replay file; verifier output:")
            print(json.dumps(rp.get("verifier_output"), indent=1)[:3000])
            return 1
        if task.get("op") == "diag_line":
            from ..bounded import limits as BL
            from .common import native_batch
            r = native_batch([{"op": "pipeline", "text": task["text"], "name": "a.c"}])[0]
            lines = task["text"].split("\n")
            bad = [e["highlights"][0][0] for e in r.get("errors", []) if e["name"] == "LINE_TOO_LONG" and e["highlights"]
                   and not (1 <= e["highlights"][0][0] <= len(lines) and BL.width(lines[e["highlights"][0][0] - 1]) > 80)]
            print("LINE_TOO_LONG printed with lines that are not wider than 80 columns:", bad)
            return 1 if bad else 0
        r = run_native("lexpos", task)
        print(json.dumps(r, indent=1)[:3000])
        return 1 if r.get("violations") else 0
    chk = Check("C09", tier, seed)
    from .frames_common import file_source_obligations
    file_source_obligations(chk)
    thorough = tier == "thorough"
    search = {}

    def native_search():
        if "r" not in search:
            t0 = time.time()
            search["r"] = run_native("lexpos", {"op": "search", "mode": "positions", "seed": seed, "maxlen": 4 if thorough else 3,
                                                "random": 3000 if thorough else 400}, timeout=3000)
            search["t"] = time.time() - t0
        return search["r"]

    def replay_positions(ob, model):
        nat = native_search()
        for v in nat["violations"]:
            if v["what"]:
                return True, v["what"] + f" [input {v['text']!r}]", {"op": "one", "mode": "positions", "text": v["text"]}
        return None
    def replay_any(ob, model, base):
        if ".raises.unexpected." in base:
            exc = base.split(".raises.unexpected.")[1]
            nat = native_search()
            if exc in nat.get("exceptions", {}):
                text = nat["exceptions"][exc]
                return True, f"the tokenizer raises {exc} on {text!r}", {"op": "one", "mode": "positions", "text": text}
            return None
        return replay_positions(ob, model)
    names = ["raw_peek", "peek", "pop", "get_next_token"] + list(SL.parser_contracts())
    replays = {"Lexer." + n: replay_any for n in names}
    rawpos_lemmas(chk)
    run_parallel(chk, SL.lexer_jobs(tier), SL.INSTALLS, replays=replays, procs=14)

    nat = native_search()
    import re as _re0
    K7_PRE = _re0.compile(r"(\\|\?\?/)(\?\?[<>()=/'!\-]|<%|%>|<:|:>|%:|\t)")
    pos_viol = [v for v in nat["violations"]]
    chk.add_bounded("Lexer.__iter__ (whole tokenizer)",
                    "every token carries the (line, column) of a raw offset, offsets increase, and the logical "
                    "character at that offset is the first character of the token (independent scanner)",
                    nat["bound"], nat["cases"], [v for v in pos_viol if not K7_PRE.search(v["text"])],
                    nontrivial=nat["nontrivial"],
                    samples=[nat["bound"][:80]], time_s=search.get("t", 0.0))
    # second sentence of the statement: the line printed with a diagnostic is the offending line.
    # Decided on the one diagnostic whose offending line is known without a second oracle:
    # LINE_TOO_LONG must be printed with a line that is wider than 80 columns.
    from ..bounded import limits as BL
    from .common import native_batch
    t0 = time.time()
    dcases = [c for c in BL.line_cases(range(79, 84), seed, thorough)
              if c["kind"].startswith("block-") or c["kind"] in ("line-comment", "code-alternative-spelling")]
    dres = native_batch([{"op": "pipeline", "text": c["text"], "name": "a.c"} for c in dcases])
    dviol = []
    for c, r in zip(dcases, dres):
        if r.get("exc") or r.get("fatal"):
            continue
        lines = c["text"].split("\n")
        for e in r["errors"]:
            if e["name"] != "LINE_TOO_LONG" or not e["highlights"]:
                continue
            ln = e["highlights"][0][0]
            if not (1 <= ln <= len(lines)) or BL.width(lines[ln - 1]) <= 80:
                dviol.append({"text": c["text"], "what": f"LINE_TOO_LONG is printed with line {ln}, which is "
                              + (f"{BL.width(lines[ln - 1])} columns wide" if 1 <= ln <= len(lines) else "outside the file")})
                break
    chk.add_bounded("diagnostic positions (LINE_TOO_LONG through the whole pipeline)",
                    "the line printed with LINE_TOO_LONG is a line wider than 80 columns (comments, block comments with "
                    "control characters inside, alternative spellings)",
                    f"{len(dcases)} generated files, widths 79..83", len(dcases), dviol,
                    nontrivial=sum(1 for r in dres if any(e["name"] == "LINE_TOO_LONG" for e in r.get("errors", []))),
                    samples=[dcases[0]["text"][-60:]] if dcases else [], time_s=time.time() - t0)
    for v in dviol[:1]:
        chk.report_violation("C09.bounded.diagnostic_lines", {
            "property": "C09", "obligation": "C09.bounded.diagnostic_lines",
            "replay": {"op": "diag_line", "text": v["text"]}, "confirmed_on_real_code": True},
            what=v["what"] + f" [input {v['text']!r}]", confirmed=True)
    explained = chk.has_unlisted_failure()
    import re as _re
    K7 = _re.compile(r"(\\|\?\?/)(\?\?[<>()=/'!\-]|<%|%>|<:|:>|%:|\t)")      # escape of a respelled character / of a tab
    for v in pos_viol:
        if K7.search(v["text"]) and any(k["id"] == "K7" for k in chk.known):
            chk.known_finding("K7", True)
            continue
        k = chk.is_known({"obligation": "C09.bounded.positions", "text": v["text"], "what": v["what"]}, v["what"])
        if k is None and not explained:
            chk.report_violation("C09.bounded.positions", {
                "property": "C09", "obligation": "C09.bounded.positions", "replay": {"op": "one", "mode": "positions", "text": v["text"]},
                "confirmed_on_real_code": True}, what=v["what"] + f" [input {v['text']!r}]", confirmed=True)
            break
    # known finding K7: excluded from the contracts by precondition, witness replayed natively
    k7 = [k for k in chk.known if k["id"] == "K7"]
    if k7:
        r = run_native("lexpos", k7[0]["witness"])
        chk.known_finding("K7", bool(r.get("violations")))
    chk.assumptions += LX.RE_TRUSTED + [
        "Lexer.__iter__ (two-line generator over get_next_token) is not under contract; the composition lemma "
        "'Pos at entry of every call + the get_next_token contract => every yielded token carries a true position' "
        "is immediate from position_kept and is not machine-checked",
        ("pop's call-site clauses functional1..functional3 (text of 1, 2 or 3 popped logical characters) are all "
         "proved in this tier on the real body with the outer loop unrolled (the iteration number is visible to the "
         "splice loop's invariant)" if tier == "thorough" else
         "pop's call-site clause functional3 (text of 3 popped logical characters) is ASSUMED in the quick tier "
         "(discharged in the thorough tier, about two minutes of z3); functional1 and functional2 are proved here on "
         "the real body with the outer loop unrolled, the iteration number being visible to the splice loop's "
         "invariant; functional3 is used by parse_operator only"),
        "known-finding class K7 is excluded by precondition: a backslash followed by a tab, or by a character "
        "spelled as digraph/trigraph, inside char/string literals",
    ]
    return chk.finish()


if __name__ == "__main__":
    main_wrapper(run)
