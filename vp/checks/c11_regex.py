"""C11, deductive part: which match the lexer's numeric-literal patterns return on every
member of a family of C constants (unbounded digit strings).  Queries are generated from the
real patterns (read from the imported lexer module on every run) by relang/priority.py and
discharged by z3; a refutation is replayed on the real compiled pattern."""
import time

import z3

from .common import Item, run_native
from ..pyvc.engine import Obligation
from ..pyvc.solver import discharge_parallel, discharge
from ..relang import priority as PR, UnsupportedRegex
from ..specs import literals as LIT


def mstr(m, t):
    v = m.eval(t, model_completion=True)
    try:
        return v.as_string()
    except Exception:
        return None


def py_unescape(s):
    """z3 prints non-printable characters as \\u{..}"""
    import re
    return re.sub(r"\\u\{([0-9a-fA-F]+)\}", lambda m: chr(int(m.group(1), 16)), s)


def samples_of(fam, k=4):
    """concrete members of the family (for the translation validation)"""
    out = []
    for n in fam.sample_len:
        s = z3.Solver()
        s.set("timeout", 5000)
        s.add(*fam.constraints)
        s.add(z3.Length(fam.w) >= n + 1)
        for prev in out:
            s.add(fam.w != z3.StringVal(prev[0]))
        if s.check() == z3.sat:
            m = s.model()
            w = py_unescape(mstr(m, fam.w) or "")
            groups = {g: py_unescape(mstr(m, t) or "") for g, t in fam.groups.items()}
            end = None
            if fam.pieces is not None:
                end = sum(len(py_unescape(mstr(m, p) or "")) for p in fam.pieces)
            out.append((w, groups, end))
        if len(out) >= k:
            break
    return out


def run_family(chk, fam, pat, timeout_ms):
    """-> (number of queries, status)"""
    name = f"regex.{fam.pattern.split('_LITERAL')[0].lower()}.{fam.name}"
    t0 = time.time()
    try:
        sh = PR.shapes(pat["pattern"], pat["flags"])
    except UnsupportedRegex as e:
        chk.items.append(Item(f"{chk.pid}.{name}", "lemma", "undecided", "z3", 0.0, {"unsupported-regex": str(e)}))
        chk.undecided.append(f"{chk.pid}.{name}: pattern outside the supported subset ({e})")
        return 0
    family = fam.constraints
    queries = []
    k0 = None
    if fam.pieces is None:
        q, _ = PR.lemma_queries(pat["pattern"], pat["flags"], fam.w, family, None, None, name)
        queries = q
    else:
        # the shape of the intended instance: the first shape (in priority order) of which the
        # given pieces are an instance, for every member of the family
        for k, s in enumerate(sh):
            if len(s.pieces) != len(fam.pieces):
                continue
            eq, _op = PR.intended_queries(sh, k, fam.w, family, fam.pieces, fam.groups, name)
            eq = [x for x in eq if ".E." in x[0]]
            ok = True
            for qn, cons, meta in eq:
                so = z3.Solver()
                so.set("timeout", timeout_ms)
                so.add(*cons)
                if so.check() != z3.unsat:
                    ok = False
                    break
            if ok:
                k0 = k
                break
        if k0 is None:
            chk.smt(name + ".E.intended_match_exists", "sat", time.time() - t0,
                    {"claim": "the expected pieces are an instance of some shape of the real pattern",
                     "shapes": [s.describe() for s in sh][:30]},
                    what=f"no way of matching {fam.pattern} yields the expected groups for the family '{fam.name}'")
            return 1
        queries, opaque = PR.intended_queries(sh, k0, fam.w, family, fam.pieces, fam.groups, name)
        if opaque:
            chk.items.append(Item(f"{chk.pid}.{name}", "lemma", "undecided", "z3", 0.0,
                                  {"reason": "the intended match goes through a repeated complex sub-pattern"}))
            chk.undecided.append(f"{chk.pid}.{name}: intended match uses an opaque piece")
            return 0
    obs = [Obligation(qn, cons, z3.BoolVal(False), kind="lemma", meta=dict(meta)) for qn, cons, meta in queries]
    return obs, k0, sh


def run_regex_lemmas(chk, thorough):
    pats = run_native("spell_harness", {"op": "patterns"})["patterns"]
    fams = LIT.integer_families() + LIT.float_reject_families() + LIT.float_families()
    timeout_ms = 30000 if thorough else 10000
    all_obs, per_fam = [], []
    for fam in fams:
        if fam.pattern not in pats:
            chk.frame(f"regex.{fam.pattern}.present", False, {}, what=f"{fam.pattern} is no longer defined by the lexer module")
            continue
        r = run_family(chk, fam, pats[fam.pattern], timeout_ms)
        if isinstance(r, tuple):
            obs, k0, sh = r
            per_fam.append((fam, obs, k0, sh))
            all_obs += obs
    t0 = time.time()
    discharge_parallel(all_obs, timeout_ms, procs=14)
    for fam, obs, k0, sh in per_fam:
        name = f"regex.{fam.pattern.split('_LITERAL')[0].lower()}.{fam.name}"
        failed = [o for o in obs if o.result == "failed"]
        unknown = [o for o in obs if o.result not in ("failed", "discharged")]
        tsum = sum(o.time for o in obs)
        detail = {"queries": len(obs), "pattern": fam.pattern,
                  "claim": ("no prefix of a member of the family is matched" if fam.pieces is None else
                            "Python's backtracking search returns exactly the expected match (groups and end) for "
                            "every member of the family"),
                  "intended_shape": sh[k0].describe() if k0 is not None else None}
        if failed:
            o = failed[0]
            w = py_unescape(mstr(o.model, fam.w) or "") if o.model is not None else None
            detail["refuted_query"] = o.name
            detail["counter_model_input"] = w
            rp = None
            if w is not None:
                real = run_native("spell_harness", {"op": "rematch", "pattern": fam.pattern, "words": [w]})["results"][0]
                want_groups = {g: py_unescape(mstr(o.model, t) or "") for g, t in fam.groups.items()}
                want_end = None if fam.pieces is None else sum(len(py_unescape(mstr(o.model, p) or "")) for p in fam.pieces)
                agrees = (real is None) if fam.pieces is None else (real is not None and real[0] == want_end and
                                                                    all(real[1].get(g) == val for g, val in want_groups.items()))
                detail["real_pattern_answers"] = real
                detail["expected"] = None if fam.pieces is None else [want_end, want_groups]
                if agrees:
                    # the real engine gives the expected match on the counter-model: the encoding
                    # (not the code) is at fault -> undecided, never a verdict
                    chk.items.append(Item(f"{chk.pid}.{name}", "lemma", "undecided", "z3", tsum, detail))
                    chk.undecided.append(f"{chk.pid}.{name}: counter-model {w!r} not confirmed by the real pattern")
                    continue
                rp = {"op": "literal_one", "text": w, "pattern": fam.pattern, "expected": detail["expected"]}
            chk.smt(name, "sat", tsum, detail, replay=rp,
                    what=(f"{fam.pattern} on {w!r}: the real pattern answers {detail.get('real_pattern_answers')}, "
                          f"a C constant of the family '{fam.name}' should give {detail.get('expected')}"))
        elif unknown:
            detail["unknown_queries"] = [o.name for o in unknown][:5]
            chk.items.append(Item(f"{chk.pid}.{name}", "lemma", "undecided", "z3", tsum, detail))
            chk.undecided.append(f"{chk.pid}.{name}: {len(unknown)} string queries undecided by z3 within {timeout_ms} ms")
        else:
            chk.smt(name, "unsat", tsum, detail)
    # translation validation of the search-order encoding: samples of every family through the real `re`
    t0 = time.time()
    nval, bad = 0, []
    for fam in fams:
        if fam.pattern not in pats:
            continue
        smp = samples_of(fam, 3 if thorough else 2)
        if not smp:
            continue
        real = run_native("spell_harness", {"op": "rematch", "pattern": fam.pattern, "words": [s[0] for s in smp]})["results"]
        for (w, groups, end), r in zip(smp, real):
            nval += 1
            if fam.pieces is None:
                if r is not None:
                    bad.append({"family": fam.name, "input": w, "real": r, "expected": None})
            elif r is None or r[0] != end or any(r[1].get(g) != val for g, val in groups.items()):
                bad.append({"family": fam.name, "input": w, "real": r, "expected": [end, groups]})
    return nval, bad, time.time() - t0
