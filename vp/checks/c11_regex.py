"""C11, deductive part: which match the lexer's numeric-literal patterns return on every
member of a family of C constants (unbounded digit strings).  Queries are generated from the
real patterns (read from the imported lexer module on every run) by relang/priority.py and
discharged by z3; a refutation is replayed on the real compiled pattern."""
import time

import z3

from .common import Item, run_native
from ..pyvc.engine import Obligation
from ..pyvc.solver import discharge_parallel, discharge
from ..relang import priority as PR, UnsupportedRegex
from ..specs import literals as LIT


def mstr(m, t):
    v = m.eval(t, model_completion=True)
    try:
        return v.as_string()
    except Exception:
        return None


def py_unescape(s):
    """z3 prints non-printable characters as \\u{..}"""
    import re
    return re.sub(r"\\u\{([0-9a-fA-F]+)\}", lambda m: chr(int(m.group(1), 16)), s)


def whole_lang(fam):
    return PR.cat([sg.lang for sg in fam.segments] + [fam.rest])


def decompose(fam, w):
    """one reading of the concrete word w as the family's segments + rest -> list of texts | None"""
    vs = [z3.String(f"seg{i}") for i in range(len(fam.segments))]
    r = z3.String("rest")
    so = z3.Solver()
    so.set("timeout", 5000)
    so.add(z3.StringVal(w) == z3.Concat(*(vs + [r])) if vs else z3.StringVal(w) == r)
    for v, sg in zip(vs, fam.segments):
        so.add(z3.InRe(v, sg.lang))
    so.add(z3.InRe(r, fam.rest))
    if so.check() != z3.sat:
        return None
    m = so.model()
    return [py_unescape(mstr(m, v) or "") for v in vs]


def expected_of(fam, w):
    """[end, groups] the specification expects for the member w (None: no match expected)"""
    if not fam.matches:
        return None
    parts = decompose(fam, w)
    if parts is None:
        return "not-a-member"
    return [sum(len(x) for x in parts), {g: "".join(parts[a:b]) for g, (a, b) in fam.groups.items()}]


def agrees(real, exp):
    if exp is None:
        return real is None
    return real is not None and real[0] == exp[0] and all(real[1].get(g) == v for g, v in exp[1].items())


def samples_of(fam, k=3, lengths=(1, 3, 6, 9)):
    out = []
    u = z3.String("u")
    L = whole_lang(fam)
    for n in lengths:
        so = z3.Solver()
        so.set("timeout", 5000)
        so.add(z3.InRe(u, L), z3.Length(u) >= n)
        for prev in out:
            so.add(u != z3.StringVal(prev))
        if so.check() == z3.sat:
            out.append(py_unescape(mstr(so.model(), u) or ""))
        if len(out) >= k:
            break
    return out


def member_with_segment(fam, g, text):
    """a member of the family whose segment g is `text` (the others as short as possible)"""
    vs = [z3.String(f"seg{i}") for i in range(len(fam.segments))]
    so = z3.Solver()
    so.set("timeout", 5000)
    for i, (v, sg) in enumerate(zip(vs, fam.segments)):
        so.add(z3.InRe(v, sg.lang))
        if i == g:
            so.add(v == z3.StringVal(text))
        else:
            so.add(z3.Length(v) <= 4)
    if so.check() != z3.sat:
        return None
    m = so.model()
    return "".join(py_unescape(mstr(m, v) or "") for v in vs)


def family_queries(chk, fam, pat):
    """-> (queries, intended shape description) | None when undecided"""
    name = f"regex.{fam.pattern.split('_LITERAL')[0].lower()}.{fam.name}"
    try:
        sh = PR.shapes(pat["pattern"], pat["flags"])
        if not fam.matches:
            return PR.no_match_queries(sh, whole_lang(fam), name), None
        npieces = sum(sg.npieces for sg in fam.segments)
        u = z3.String("u")
        witnesses = []
        for k, s in enumerate(sh):
            if len(s.pieces) != npieces:
                continue
            try:
                qs, opaque, _ = PR.queries_for_family(sh, k, fam.segments, fam.rest, fam.groups, name)
            except UnsupportedRegex:
                continue            # not a shape the expected match can be an instance of
            ok = True
            for qn, lang, meta in qs:
                if ".E." not in qn:
                    continue
                so = z3.Solver()
                so.set("timeout", 10000)
                so.add(z3.InRe(u, lang))
                if so.check() != z3.unsat:
                    ok = False
                    # a text of one segment that the pieces of this shape cannot take: keep a
                    # member of the family built around it as a candidate counterexample
                    if "_fits_its_pieces" in qn and len(witnesses) < 12:
                        try:
                            g = int(qn.split(".E.segment")[1].split("_")[0])
                            t = py_unescape(mstr(so.model(), u) or "")
                            wv = member_with_segment(fam, g, t)
                            if wv is not None and wv not in witnesses:
                                witnesses.append(wv)
                        except Exception:
                            pass
                    break
            if ok:
                if opaque:
                    raise UnsupportedRegex("the expected match goes through a repeated complex sub-pattern")
                return qs, s.describe()
        return [(name + ".E.expected_match_is_a_match_of_the_pattern", z3.Re(""),
                 {"shapes": [s.describe() for s in sh][:40], "witness_words": witnesses})], None
    except UnsupportedRegex as e:
        chk.items.append(Item(f"{chk.pid}.{name}", "lemma", "undecided", "z3", 0.0, {"unsupported-regex": str(e)}))
        chk.undecided.append(f"{chk.pid}.{name}: outside the supported subset ({e})")
        return None


def run_regex_lemmas(chk, thorough):
    pats = run_native("spell_harness", {"op": "patterns"})["patterns"]
    fams = LIT.all_families()
    timeout_ms = 60000 if thorough else 20000
    u = z3.String("u")
    all_obs, per_fam = [], []
    for fam in fams:
        if fam.pattern not in pats:
            chk.frame(f"regex.{fam.pattern}.present", False, {}, what=f"{fam.pattern} is no longer defined by the lexer module")
            continue
        r = family_queries(chk, fam, pats[fam.pattern])
        if r is None:
            continue
        qs, desc = r
        obs = [Obligation(qn, [z3.InRe(u, lang)], z3.BoolVal(False), kind="lemma", meta=dict(meta)) for qn, lang, meta in qs]
        per_fam.append((fam, obs, desc))
        all_obs += obs
    discharge_parallel(all_obs, timeout_ms, procs=14)
    proved = set()
    for fam, obs, desc in per_fam:
        name = f"regex.{fam.pattern.split('_LITERAL')[0].lower()}.{fam.name}"
        failed = [o for o in obs if o.result == "failed"]
        unknown = [o for o in obs if o.result not in ("failed", "discharged")]
        tsum = sum(o.time for o in obs)
        detail = {"queries": len(obs), "pattern": fam.pattern,
                  "claim": ("no prefix of a member of the family is matched" if not fam.matches else
                            "Python's backtracking search returns exactly the expected match (groups and end) for "
                            "every member of the family"),
                  "expected_shape": desc}
        if failed:
            confirmed = None
            for o in failed[:2]:
                for w in (o.meta.get("witness_words") or []) + samples_of(fam, 4, lengths=(1, 5, 12, 24, 48)):
                    exp = expected_of(fam, w)
                    if exp == "not-a-member":
                        continue
                    real = run_native("spell_harness", {"op": "rematch", "pattern": fam.pattern, "words": [w]})["results"][0]
                    if not agrees(real, exp):
                        confirmed = (o, w, real, exp)
                        break
                if confirmed:
                    break
            for o in ([] if confirmed else failed[:6]):
                w = py_unescape(mstr(o.model, u) or "").replace(PR.M1, "").replace(PR.M2, "") if o.model is not None else None
                if w is None:
                    continue
                exp = expected_of(fam, w)
                if exp == "not-a-member":
                    continue
                real = run_native("spell_harness", {"op": "rematch", "pattern": fam.pattern, "words": [w]})["results"][0]
                if not agrees(real, exp):
                    confirmed = (o, w, real, exp)
                    break
                detail.setdefault("unconfirmed_counter_models", []).append({"query": o.name, "input": w})
            if confirmed is None:
                # the real engine gives the expected match on every counter-model: the encoding
                # (not the code) is at fault -> undecided, never a verdict
                detail["refuted_queries"] = [o.name for o in failed][:5]
                chk.items.append(Item(f"{chk.pid}.{name}", "lemma", "undecided", "z3", tsum, detail))
                chk.undecided.append(f"{chk.pid}.{name}: counter-models not confirmed by the real pattern")
                continue
            o, w, real, exp = confirmed
            detail.update({"refuted_query": o.name, "counter_model_input": w, "real_pattern_answers": real, "expected": exp})
            chk.smt(name, "sat", tsum, detail, replay={"op": "rematch_one", "text": w, "pattern": fam.pattern, "expected": exp, "confirmed": True},
                    what=(f"{fam.pattern} on {w!r}: the real pattern answers {real}, a C constant of the family "
                          f"'{fam.name}' should give {exp}"))
        elif unknown:
            detail["unknown_queries"] = [o.name for o in unknown][:5]
            chk.items.append(Item(f"{chk.pid}.{name}", "lemma", "undecided", "z3", tsum, detail))
            chk.undecided.append(f"{chk.pid}.{name}: {len(unknown)} regular-language queries undecided within {timeout_ms} ms")
        else:
            chk.smt(name, "unsat", tsum, detail)
            proved.add(fam.name + "@" + fam.pattern)
    # translation validation of the search-order encoding: members of every family through the real `re`
    t0 = time.time()
    nval, bad = 0, []
    for fam in fams:
        # a proved lemma that the real engine contradicts on a member means the encoding of the
        # search order (or the family) is wrong: only proved families are compared
        if fam.pattern not in pats or fam.name + "@" + fam.pattern not in proved:
            continue
        words = samples_of(fam, 3 if thorough else 2)
        if not words:
            continue
        real = run_native("spell_harness", {"op": "rematch", "pattern": fam.pattern, "words": words})["results"]
        for w, r in zip(words, real):
            exp = expected_of(fam, w)
            nval += 1
            if exp != "not-a-member" and not agrees(r, exp):
                bad.append({"family": fam.name, "input": w, "real": r, "expected": exp})
    return nval, bad, time.time() - t0
