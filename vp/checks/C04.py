"""C04 -- exit status and per-file verdict agree with the diagnostics."""
import json
import os
import time

import z3

from .common import Check, main_wrapper, run_native
from ..specs import cli as CLI
from ..pyvc.values import Builtin, PyModule, Opaque


def run(tier, seed, replay):
    if replay:
        rp = json.load(open(replay))
        task = rp.get("replay")
        if not task:
            print(json.dumps(rp.get("verifier_output"), indent=1)[:3000])
            return 1
        r = run_native("cli_harness", task, timeout=300)
        print(json.dumps(r, indent=1)[:3000])
        return 1 if r.get("violations") else 0
    chk = Check("C04", tier, seed)
    E = chk.engine()
    CLI.install(E)
    c = CLI.main_tail()
    for k, fn in c.spec_funcs.items():
        E.spec_builtins[k] = Builtin(k, fn)
    # sys.exit -> SystemExit(code); colors(...) opaque
    orig_attr = E.pymodule_attr

    def pymodule_attr(mod, attr):
        if mod.name == "sys" and attr == "exit":
            return E.spec_builtins["__sys_exit__"]
        return orig_attr(mod, attr)
    E.pymodule_attr = pymodule_attr
    E.models["norminette/tools/colors.py:colors"] = lambda E_, s, a, k: [(s, Opaque("colored"))]

    def replay_cli(ob=None, model=None):
        nat = run_native("cli_harness", {"op": "search", "maxlen": 2}, timeout=600)
        if nat["violations"]:
            v = nat["violations"][0]
            return True, v["what"], v["task"]
        return None
    chk.run_contract(E, c, replay=replay_cli)
    # the exit status is what the operating system keeps of the argument of sys.exit (its low 8
    # bits): every sys.exit in main() passes a literal 0..255 or a choice between such literals --
    # a count or any other computed integer could wrap to 0 (which non-zero value is used is
    # not part of the statement)
    import ast as _ast0
    mainf0 = chk.repo.find_function(CLI.MAIN)

    def small_status(e, depth=0):
        if isinstance(e, _ast0.Constant) and isinstance(e.value, int) and not isinstance(e.value, bool) and 0 <= e.value <= 255:
            return True
        if isinstance(e, _ast0.IfExp):
            return small_status(e.body, depth) and small_status(e.orelse, depth)
        # a truth value exits with 0 / 1
        if isinstance(e, (_ast0.Compare, _ast0.BoolOp)) or (isinstance(e, _ast0.UnaryOp) and isinstance(e.op, _ast0.Not)) \
                or (isinstance(e, _ast0.Constant) and isinstance(e.value, bool)) \
                or (isinstance(e, _ast0.Call) and isinstance(e.func, _ast0.Name) and e.func.id in ("any", "all", "bool")):
            return True
        if isinstance(e, _ast0.Call) and isinstance(e.func, _ast0.Name) and e.func.id in ("int", "bool") and len(e.args) == 1 \
                and isinstance(e.args[0], (_ast0.Compare, _ast0.BoolOp, _ast0.UnaryOp)):
            return True
        if isinstance(e, _ast0.Name) and depth < 3:
            vals = [x.value for x in _ast0.walk(mainf0.node) if isinstance(x, _ast0.Assign)
                    and any(isinstance(t, _ast0.Name) and t.id == e.id for t in x.targets)]
            aug = [x for x in _ast0.walk(mainf0.node) if isinstance(x, _ast0.AugAssign) and isinstance(x.target, _ast0.Name)
                   and x.target.id == e.id]
            return bool(vals) and not aug and all(small_status(v, depth + 1) for v in vals)
        return False
    exits = [x for x in _ast0.walk(mainf0.node) if isinstance(x, _ast0.Call) and _ast0.unparse(x.func) in ("sys.exit", "exit")]
    bad_exits = [_ast0.unparse(x) for x in exits if len(x.args) != 1 or not small_status(x.args[0])]
    chk.frame("main.exit_statuses_are_small_literals", bool(exits) and not bad_exits,
              {"exits": [_ast0.unparse(x) for x in exits], "computed": bad_exits},
              what=f"main() passes a computed value to sys.exit ({bad_exits}): the operating system keeps the low "
                   "8 bits only, a status such as a count of 256 reads as success")
    # a fatal error is reported by name only if it is the exception main() catches: every
    # explicit raise outside the tokenizer is CParsingError (the tokenizer's own exceptions are C05)
    from .C05 import raise_sites
    raise_sites(chk)
    from .frames_common import catalogue_names_obligation
    catalogue_names_obligation(chk)
    # frame of the tail: the diagnostics of a file are what the pipeline put into ITS Errors
    # object -- main() must not rebind or share them, and must run the pipeline for every file
    import ast as _ast
    mainf = chk.repo.find_function(CLI.MAIN)
    try:
        kept, _dropped = CLI.tail_slice(list(mainf.node.body))
    except Exception as e:          # the per-file loop of main() was not located: the frames below say nothing
        from .common import Item
        chk.items.append(Item("C04.main.tail_frames", "frame-scan", "undecided", "frame-scan", 0.0, {"reason": str(e)}))
        chk.undecided.append(f"C04.main.tail_frames: {e}")
        kept = None
    if kept is not None:
        writes = []
        for st_ in kept:
            for x in _ast.walk(st_):
                if isinstance(x, _ast.Attribute) and isinstance(x.ctx, (_ast.Store, _ast.Del)) and x.attr in ("errors", "_inner"):
                    writes.append(_ast.unparse(x))
        rpw = replay_cli() if writes else None
        chk.frame("main.tail_does_not_rebind_errors", not writes, {"writes": writes}, replay=rpw[2] if rpw else None,
                  what=f"main() assigns {writes}: a file's verdict no longer comes from its own analysis")
        loop = kept[0]
        calls = [_ast.unparse(x.func) for x in _ast.walk(loop) if isinstance(x, _ast.Call)]
        # calls made on every path through the loop body (statements of the body and of its try
        # blocks that are not under an if / loop), seen through helper functions defined in main()
        # or at module level
        helpers = {d.name: d for d in _ast.walk(chk.repo.module(CLI.MAIN.split(":")[0]).tree) if isinstance(d, _ast.FunctionDef)}

        def uncond_calls(stmts, depth=0):
            out = []
            for b in stmts:
                if isinstance(b, _ast.Try):
                    out += uncond_calls(b.body, depth)
                    continue
                if isinstance(b, (_ast.If, _ast.While, _ast.For, _ast.FunctionDef, _ast.With)):
                    if isinstance(b, _ast.With):
                        out += uncond_calls(b.body, depth)
                    continue
                for x in _ast.walk(b):
                    if isinstance(x, _ast.Call):
                        nm = _ast.unparse(x.func)
                        out.append(nm)
                        if nm in helpers and nm != "main" and depth < 3:
                            out += uncond_calls(helpers[nm].body, depth + 1)
            return out
        uncond = uncond_calls(loop.body)
        need = ["Lexer", "Context", "registry.run"]
        miss = [n for n in need if n not in uncond]
        chk.frame("main.every_file_goes_through_the_pipeline", not miss, {"unconditional_calls": uncond, "missing": miss},
                  what=f"main() no longer runs {miss} unconditionally for every file of the list")

    # Errors.status: OK iff no Error-level diagnostic
    from ..specs import errors as SE
    chk.run_contract(E, SE.status_contract())

    # bounded stand-in: the real command line
    t0 = time.time()
    nat = run_native("cli_harness", {"op": "search", "maxlen": 4 if tier == "thorough" else 3, "seed": seed},
                     timeout=3000)
    chk.add_bounded("norminette.__main__.main (real CLI in a subprocess)",
                    "one verdict line per file, OK! iff no Error-level diagnostic; exit 0 iff every file OK; fatal "
                    "file named and exit non-zero; empty selection ends cleanly",
                    nat["bound"], nat["cases"], nat["violations"], nontrivial=nat["nontrivial"],
                    samples=nat["samples"], time_s=time.time() - t0)
    explained = chk.has_unlisted_failure()
    if nat["violations"] and not explained:
        v = nat["violations"][0]
        chk.report_violation("C04.bounded.cli", {"property": "C04", "obligation": "C04.bounded.cli",
                                                 "replay": v["task"], "confirmed_on_real_code": True},
                             what=v["what"], confirmed=True)
    chk.assumptions += [
        "the verified text of main() is the mechanical slice `for file in files:` ... end; argument parsing, "
        "discovery and the --use-gitignore filter are dropped (C15) and replaced by: files is a list of File "
        "objects of any length >= 0",
        "Lexer/Context/registry.run are opaque: may append to file.errors, may raise CParsingError, return; other "
        "exceptions are C05's business",
        "reading used: a run that hits a fatal parse error must name the file and exit non-zero; verdict lines for "
        "the files before it are not demanded",
    ]
    return chk.finish()


if __name__ == "__main__":
    main_wrapper(run)
