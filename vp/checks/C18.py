"""C18 -- diagnostics do not depend on how identifiers are spelled."""
import json
import random
import re
import time

import z3

from .common import Check, main_wrapper, native_batch
from .frames_common import value_frame, sample_files, diag_key, C_KEYWORDS_C23
from ..frames import rules as FR
from ..pyvc.state import State
from ..bounded import programs as P

IDENT = re.compile(r"\b[A-Za-z_][A-Za-z0-9_]*\b")


def rename_map(text, rnd, keywords, special):
    """consistent renaming: same length, same naming class (prefix kept, lower-case stays
    lower-case, upper-case stays upper-case, digits stay digits), never a keyword or special"""
    # leave alone everything inside comments, literals and preprocessor lines (directive position)
    stripped = re.sub(r"/\*.*?\*/|//[^\n]*|\"(\\.|[^\"\\])*\"|'(\\.|[^'\\])*'", lambda m: " " * len(m.group(0)), text, flags=re.S)
    names = set()
    for line in stripped.split("\n"):
        if line.lstrip().startswith("#"):
            continue
        names |= set(IDENT.findall(line))
    # names that also occur in a preprocessor line or a literal stay as they are (consistency)
    frozen = set()
    for line in text.split("\n"):
        if line.lstrip().startswith("#"):
            frozen |= set(IDENT.findall(line))
    mapping = {}
    used = set(names) | frozen
    for nm in sorted(names):
        if nm in keywords or nm in special or nm in frozen or len(nm) < 3:
            continue
        keep = 2 if nm[:2] in FR.PREFIXES else 0
        for _ in range(20):
            new = list(nm)
            for i in range(keep, len(nm)):
                ch = nm[i]
                if ch.islower():
                    new[i] = rnd.choice("abcdefghijklmnopqrstuvwxyz")
                elif ch.isupper():
                    new[i] = rnd.choice("ABCDEFGHIJKLMNOPQRSTUVWXYZ")
                elif ch.isdigit():
                    new[i] = rnd.choice("0123456789")
            new = "".join(new)
            if new[:2] in FR.PREFIXES and not keep:
                continue
            if new not in used and new not in keywords and new not in special:
                mapping[nm] = new
                used.add(new)
                break
    return mapping


DIRECTED = [
    # macros in conditional expressions / guards
    ("\n#ifndef @\n# define @ 3\n#endif\n#if @ > 2 && VERBOSE\n\nint\tg_a;\n\n#endif\n", "ENABLED", "DEFINED", "a.c"),
    ("\n#if @ > 0\n\nint\tg_a;\n\n#endif\n", "ENABLED", "DEFINED", "a.c"),
    ("\n#if !@ && LEVEL\n\nint\tg_a;\n\n#endif\n", "ENABLE", "DEFINE", "a.c"),
    ("\n#ifdef @\n\nint\tg_a;\n\n#endif\n", "ENABLE", "ENDIFS", "a.c"),
    ("\n# define @ 1\n\nint\tg_a = @;\n", "LIMITS", "DEFINE", "a.c"),
    ("\n# define @ 1\n\nint\tg_a = @;\n", "AB", "IF", "a.c"),
    # globals (environ is the one name the tool exempts)
    ("\nchar\t**@;\n", "tab", "env", "a.c"),
    ("\nchar\t**@;\n", "abcdefgh", "environs", "a.c"),
    ("\nchar\t**g_@;\n", "abcdefg", "environ", "a.c"),
    ("\nextern char\t**@;\n", "abcdefgh", "environx", "a.c"),
    # functions / parameters / locals
    ("\nint\t@(void)\n{\n\treturn (0);\n}\n", "ft_abcd", "ft_main", "a.c"),
    ("\nint\t@(void)\n{\n\treturn (0);\n}\n", "xmain", "mainx", "a.c"),
    ("\nint\tft_fa(int @)\n{\n\treturn (@ + 1);\n}\n", "abcdefg", "defined", "a.c"),
    ("\nint\tft_fa(void)\n{\n\tint\t@;\n\n\t@ = 0;\n\treturn (@);\n}\n", "abcde_t", "size__t", "a.c"),
    ("\nint\tft_fa(int *p, int @)\n{\n\treturn ((@)*p);\n}\n", "row_n", "row_t", "a.c"),
    ("\nint\tft_fa(int *p, int @)\n{\n\treturn ((@)&p[0] != 0);\n}\n", "t_abc", "t_int", "a.c"),
    # user types
    ("\ntypedef struct s_@\n{\n\tint\tx;\n}\tt_@;\n", "abc", "int", "a.h"),
    ("\ntypedef struct s_@\n{\n\tint\tx;\n}\tt_@;\n", "abcdef", "struct", "a.h"),
    ("\nenum e_@\n{\n\tA_@\n};\n", "abcd", "enum", "a.h"),
    ("\nint\tft_fa(void)\n{\n\tint\t@;\n\n\t@ = 1;\n\treturn (@);\n}\n", "xattribute__", "__attributex", "a.c"),
]


def apply_map(text, mapping):
    def sub_code(seg):
        return IDENT.sub(lambda m: mapping.get(m.group(0), m.group(0)), seg)
    out = []
    pos = 0
    for m in re.finditer(r"/\*.*?\*/|//[^\n]*|\"(\\.|[^\"\\])*\"|'(\\.|[^'\\])*'", text, flags=re.S):
        out.append(sub_code(text[pos:m.start()]))
        out.append(m.group(0))
        pos = m.end()
    out.append(sub_code(text[pos:]))
    res = "".join(out)
    # preprocessor lines are left untouched
    lines_a, lines_b = text.split("\n"), res.split("\n")
    if len(lines_a) == len(lines_b):
        res = "\n".join(a if a.lstrip().startswith("#") else b for a, b in zip(lines_a, lines_b))
    return res


def run(tier, seed, replay):
    if replay:
        rp = json.load(open(replay))
        task = rp.get("replay")
        if not task:
            print(json.dumps(rp.get("verifier_output"), indent=1)[:3000])
            return 1
        a, b = native_batch([{"op": "pipeline", "text": task["a"], "name": task["name"]},
                             {"op": "pipeline", "text": task["b"], "name": task["name"]}])
        print("original:", diag_key(a)[:6], "\nrenamed: ", diag_key(b)[:6])
        return 1 if diag_key(a) != diag_key(b) else 0
    chk = Check("C18", tier, seed)
    thorough = tier == "thorough"
    rnd = random.Random(seed)
    E = chk.engine()
    sites = value_frame(chk, "C18")

    # keyword table: a table entry that swallows a user identifier would change kinds
    st = State()
    kw = dict(st.cell(E.module_global(st, "norminette/lexer/dictionary.py", "keywords")).d)
    extra = sorted(k for k in kw if k not in C_KEYWORDS_C23 and k != "NULL")
    chk.finite("lexer.keywords_are_c_keywords", not extra, len(kw), {"not_c_keywords": extra},
               what=f"keyword table entries that are not C keywords (they swallow user identifiers): {extra}")
    vals = list(kw.values())
    chk.finite("lexer.keyword_kinds_distinct", len(set(vals)) == len(vals), len(vals), {},
               what="two keywords map to the same token kind")

    # per-observation lemma (z3 strings): for two names related by the renaming relation every
    # permitted observation gives the same answer
    v, w = z3.String("v"), z3.String("w")
    special = sorted(FR.SPECIAL_NAMES | FR.DIRECTIVE_NAMES - {"<ARGUMENTED_PREPROCESSORS>"})
    rel = [z3.Length(v) == z3.Length(w), z3.Length(v) >= 2,
           z3.SubString(v, 0, 2) == z3.SubString(w, 0, 2)]       # naming-class prefix kept
    rel += [v != c for c in special] + [w != c for c in special]
    t0 = time.time()
    s = z3.Solver()
    s.set("timeout", chk.timeout_ms)
    s.add(*rel)
    s.add(z3.Or(*[z3.PrefixOf(z3.StringVal(p), v) != z3.PrefixOf(z3.StringVal(p), w) for p in sorted(FR.PREFIXES)],
                *[(v == c) != (w == c) for c in special],
                z3.Length(v) != z3.Length(w)))
    r = str(s.check())
    chk.smt("lemma.observations_agree_on_related_names", r, time.time() - t0,
            {"claim": "same length, same two-character prefix, neither a special name => every permitted observation "
                      "(== special, startswith(prefix), len) agrees; isupper / per-character class tests agree by the "
                      "position-wise class preservation of the renaming (definition of the relation)"})

    # bounded relational stand-in
    t0 = time.time()
    files = sample_files(chk.repo.root, None if thorough else 60)
    for i in range(6 if thorough else 3):
        files.append((f"gen{i}.c", P.conforming_c(rnd, nfunc=rnd.randint(1, 3), name=f"gen{i}.c")))
    tasks, pairs = [], []
    for name, text in files:
        mp = rename_map(text, rnd, set(kw), FR.SPECIAL_NAMES | {"main", "NULL"})
        if not mp:
            continue
        t2 = apply_map(text, mp)
        if t2 == text:
            continue
        pairs.append((name, text, t2, mp))
        tasks.append({"op": "pipeline", "text": text, "name": name})
        tasks.append({"op": "pipeline", "text": t2, "name": name})
    # directed pairs: an identifier of every position class against a same-length, same-class name
    # that resembles a specially treated one (case variant, sub-string, super-string) without being it
    for k, (tpl, ref, alt, fname) in enumerate(DIRECTED):
        if len(ref) != len(alt):
            continue
        a = P.header(fname) + tpl.replace("@", ref)
        b = P.header(fname) + tpl.replace("@", alt)
        pairs.append((fname, a, b, {ref: alt}))
        tasks.append({"op": "pipeline", "text": a, "name": fname})
        tasks.append({"op": "pipeline", "text": b, "name": fname})
    res = native_batch(tasks)
    fails = []
    for k, (name, a, b, mp) in enumerate(pairs):
        ka, kb = diag_key(res[2 * k]), diag_key(res[2 * k + 1])
        nva, nvb = bool(ka) and ka[0] == "no-verdict", bool(kb) and kb[0] == "no-verdict"
        # a fatal error on one side only is a change of the diagnostics too
        if ka != kb and not (nva and nvb):
            diff = sorted(set(ka) ^ set(kb), key=str)[:4]
            fails.append(((name, a, b), f"{name}: diagnostics change under a consistent renaming "
                                        f"({len(mp)} identifiers): {diff}"))
    chk.add_bounded("Lexer + Registry.run (whole pipeline), two runs",
                    "consistent renaming of user identifiers (same length, same naming class, outside comments, "
                    "literals and preprocessor lines) leaves (code, line, column) of every diagnostic unchanged",
                    f"{len(pairs)} files (repository samples + generated conforming files), one seeded renaming each",
                    len(pairs), fails, nontrivial=len(pairs),
                    samples=[{"file": p[0], "renamed": list(p[3].items())[:3]} for p in pairs[:2]], time_s=time.time() - t0)
    explained = chk.has_unlisted_failure()
    if fails and not explained:
        (name, a, b), m = fails[0]
        chk.report_violation("C18.bounded.renaming", {"property": "C18", "obligation": "C18.bounded.renaming",
                                                      "replay": {"a": a, "b": b, "name": name},
                                                      "confirmed_on_real_code": True}, what=m, confirmed=True)
    chk.assumptions += [
        "the reads-clause is decided by an AST scan: a consumer is identified by (file, function, expression text); "
        "aliasing through containers is covered by the reviewed entries of vp/frames/rules.py only",
        "the lexer treats identifiers by character class only (parse_identifier contract, C09) and looks the value "
        "up in the keyword table",
        "composition (equal kinds, positions and observations => equal diagnostics) is not machine-checked; bounded "
        "stand-in on real files",
    ]
    return chk.finish(level_if_complete="other", explanation="reads-clause on token values decided by a complete AST scan against the committed clause, SMT lemmas per observation, finite table checks; the relational claim itself (two runs) follows by a hand composition and is exercised by a bounded stand-in only")


if __name__ == "__main__":
    main_wrapper(run)
