"""Shared parts of the reads-frame checks C17 / C18."""
import ast
import glob
import os
import random
import re
import time

import z3

from ..frames import classify, rules as FR
from ..bounded import programs as P


def value_frame(chk, tag):
    """every read of a token value is judged against the committed reads-clause"""
    t0 = time.time()
    sites = classify.value_sites(chk.repo)
    bad = []
    accepted = {}
    for s in sites:
        ok, why = FR.judge(s)
        accepted[s["key"]] = why
        if not ok:
            bad.append({"site": s["key"], "class": s["class"], "why": why})
    dt = time.time() - t0
    for b in bad:
        chk.frame(f"frame.value_read[{b['site'][:140]}]", False, b,
                  what=f"a token value is consumed in a way the reads-clause does not permit: {b['site']} -- {b['why']}")
    for s in sites:
        if s["key"] in accepted and not any(b["site"] == s["key"] for b in bad):
            chk.frame(f"frame.value_read[{s['key'][:140]}]", True, {"class": s["class"], "justification": accepted[s["key"]]})
    chk.frame(f"frame.{tag}.token_value_reads_permitted", not bad, {"sites": len(sites), "violations": bad,
                                                                   "classes": sorted({s["class"] for s in sites})},
              what=f"{len(bad)} uncommitted consumers of token values", time_s=dt)
    return sites


def sample_files(repo_root, limit=None):
    out = []
    for pat in ("tests/rules/samples/*.c", "tests/rules/samples/*.h"):
        for f in sorted(glob.glob(os.path.join(repo_root, pat))):
            try:
                out.append((os.path.basename(f), open(f, encoding="utf-8").read()))
            except Exception:
                pass
    if limit:
        out = out[:limit]
    return out


def diag_key(res):
    if res.get("exc") or res.get("fatal"):
        return ("no-verdict", res.get("exc") or "fatal")
    return tuple(sorted((e["name"], e["highlights"][0][0], e["highlights"][0][1]) for e in res["errors"]))


C_KEYWORDS_C23 = {
    "alignas", "alignof", "auto", "bool", "break", "case", "char", "const", "constexpr", "continue", "default", "do",
    "double", "else", "enum", "extern", "false", "float", "for", "goto", "if", "inline", "int", "long", "nullptr",
    "register", "restrict", "return", "short", "signed", "sizeof", "static", "static_assert", "struct", "switch",
    "thread_local", "true", "typedef", "typeof", "typeof_unqual", "union", "unsigned", "void", "volatile", "while",
    "_Alignas", "_Alignof", "_Atomic", "_BitInt", "_Bool", "_Complex", "_Decimal128", "_Decimal32", "_Decimal64",
    "_Generic", "_Imaginary", "_Noreturn", "_Static_assert", "_Thread_local",
}


def file_source_obligations(chk):
    """how the source text reaches the tokenizer (shared by the properties that speak about the
    characters of a file: widths, positions, splices, inline content): the contract of
    File.source for every path and content, and what the real File gives for stored bytes"""
    import time
    from .common import run_native
    from ..specs import cli as CL
    E = chk.engine()
    CL.install_disk(E)
    chk.run_contract(E, CL.file_source_contract())
    t0 = time.time()
    nat = run_native("options_harness", {"op": "file_source"})
    chk.finite("file.stored_text_is_read_unchanged", not nat["violations"], nat["cases"], {"violations": nat["violations"][:3]},
               what=f"File.source does not give the stored text (UTF-8, CRLF read as LF): {nat['violations'][:2]}",
               time_s=time.time() - t0)


def catalogue_names_obligation(chk):
    """every constant diagnostic name handed to Error.from_name / new_error / new_warning is a
    key of the catalogue (Error.from_name raises KeyError otherwise: an internal error for the
    run, C05, and no named report for the file, C04); names only used in branches that other
    obligations prove dead are excused there (C08)"""
    import ast
    import time
    from ..pyvc.state import State
    from ..specs import errors as SE
    t0 = time.time()
    E = chk.engine()
    st = State()
    catalogue = dict(st.cell(E.module_global(st, "norminette/norm_error.py", "errors")).d)
    bad, n = [], 0
    for rel, line, callee, arg in SE.catalogue_scan(chk.repo):
        if callee == "Error()":
            continue            # built directly with its own text: no table lookup (known finding K5 is C08's)
        if isinstance(arg, ast.Constant) and isinstance(arg.value, str):
            n += 1
            if arg.value not in catalogue and arg.value not in ("EXPECTED_BRACE", "FORBIDDEN_IN_HEADER", ""):
                bad.append(f"{rel}:{line} {callee}({arg.value!r})")
    chk.finite("catalogue.every_constant_diagnostic_name_is_a_key", not bad, n, {"not_in_catalogue": bad},
               what=f"diagnostic names that are not keys of the catalogue (Error.from_name raises KeyError): {bad}",
               time_s=time.time() - t0)
