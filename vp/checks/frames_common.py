"""Shared parts of the reads-frame checks C17 / C18."""
import ast
import glob
import os
import random
import re
import time

import z3

from ..frames import classify, rules as FR
from ..bounded import programs as P


def value_frame(chk, tag):
    """every read of a token value is judged against the committed reads-clause"""
    t0 = time.time()
    sites = classify.value_sites(chk.repo)
    bad = []
    accepted = {}
    for s in sites:
        ok, why = FR.judge(s)
        accepted[s["key"]] = why
        if not ok:
            bad.append({"site": s["key"], "class": s["class"], "why": why})
    dt = time.time() - t0
    for b in bad:
        chk.frame(f"frame.value_read[{b['site'][:140]}]", False, b,
                  what=f"a token value is consumed in a way the reads-clause does not permit: {b['site']} -- {b['why']}")
    for s in sites:
        if s["key"] in accepted and not any(b["site"] == s["key"] for b in bad):
            chk.frame(f"frame.value_read[{s['key'][:140]}]", True, {"class": s["class"], "justification": accepted[s["key"]]})
    chk.frame(f"frame.{tag}.token_value_reads_permitted", not bad, {"sites": len(sites), "violations": bad,
                                                                   "classes": sorted({s["class"] for s in sites})},
              what=f"{len(bad)} uncommitted consumers of token values", time_s=dt)
    return sites


def sample_files(repo_root, limit=None):
    out = []
    for pat in ("tests/rules/samples/*.c", "tests/rules/samples/*.h"):
        for f in sorted(glob.glob(os.path.join(repo_root, pat))):
            try:
                out.append((os.path.basename(f), open(f, encoding="utf-8").read()))
            except Exception:
                pass
    if limit:
        out = out[:limit]
    return out


def diag_key(res):
    if res.get("exc") or res.get("fatal"):
        return ("no-verdict", res.get("exc") or "fatal")
    return tuple(sorted((e["name"], e["highlights"][0][0], e["highlights"][0][1]) for e in res["errors"]))


C_KEYWORDS_C23 = {
    "alignas", "alignof", "auto", "bool", "break", "case", "char", "const", "constexpr", "continue", "default", "do",
    "double", "else", "enum", "extern", "false", "float", "for", "goto", "if", "inline", "int", "long", "nullptr",
    "register", "restrict", "return", "short", "signed", "sizeof", "static", "static_assert", "struct", "switch",
    "thread_local", "true", "typedef", "typeof", "typeof_unqual", "union", "unsigned", "void", "volatile", "while",
    "_Alignas", "_Alignof", "_Atomic", "_BitInt", "_Bool", "_Complex", "_Decimal128", "_Decimal32", "_Decimal64",
    "_Generic", "_Imaginary", "_Noreturn", "_Static_assert", "_Thread_local",
}
