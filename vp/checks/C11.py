"""C11 -- C literals are classified as C defines them (match lemmas for the numeric patterns, DESIGN.md 10.7;
bounded stand-in for the rest, 4.11)."""
import json
import time

from .common import Check, main_wrapper, run_native
from ..pyvc.state import State


def expected_integer_suffixes():
    """from the statement: u / l / ll / z / wb / i64, each alone or combined with u in either
    order, written in one case per part (no 'lL')"""
    out = {""}
    parts = ["l", "ll", "z", "wb", "i64"]
    for p in ["u"] + parts:
        out |= {p, p.upper()}
    for p in parts:
        for u in ("u", "U"):
            for q in (p, p.upper()):
                out |= {u + q, q + u}
    return out


def run(tier, seed, replay):
    if replay:
        rp = json.load(open(replay))
        task = rp.get("replay")
        if not task:
            print(json.dumps(rp.get("verifier_output"), indent=1)[:3000])
            return 1
        if task.get("op") == "rematch_one":
            real = run_native("spell_harness", {"op": "rematch", "pattern": task["pattern"], "words": [task["text"]]})["results"][0]
            print(f"{task['pattern']}.match({task['text']!r}) -> {real}; expected for a C constant of the family: {task['expected']}")
            from .c11_regex import agrees
            return 0 if agrees(real, task["expected"]) else 1
        r = run_native("spell_harness", task)
        print(json.dumps(r, indent=1)[:1500])
        bad = bool(r.get("errors")) or r.get("exc") or len(r.get("tokens") or []) != 1
        return 1 if bad else 0
    chk = Check("C11", tier, seed)
    thorough = tier == "thorough"
    E = chk.engine()
    st = State()
    got_int = set(E.module_global(st, "norminette/lexer/lexer.py", "integer_suffixes"))
    want_int = expected_integer_suffixes()
    chk.finite("tables.integer_suffixes", got_int == want_int, len(want_int),
               {"missing": sorted(want_int - got_int), "extra": sorted(got_int - want_int)},
               what=f"integer suffix table differs from u/l/ll/z/wb/i64 and their combinations with u: missing "
                    f"{sorted(want_int - got_int)}, extra {sorted(got_int - want_int)}")
    got_f = set(E.module_global(st, "norminette/lexer/lexer.py", "float_suffixes"))
    need_f = {"", "f", "F", "l", "L", "d", "D"}
    chk.finite("tables.float_suffixes", need_f <= got_f, len(need_f), {"missing": sorted(need_f - got_f)},
               what=f"float suffixes f/l/d missing: {sorted(need_f - got_f)}")
    got_p = set(E.module_global(st, "norminette/lexer/lexer.py", "quote_prefixes"))
    need_p = {"L", "u", "U", "u8"}
    chk.finite("tables.quote_prefixes", need_p <= got_p, len(need_p),
               {"missing": sorted(need_p - got_p), "note": "the table also accepts 'l', which C does not define"},
               what=f"literal prefixes missing: {sorted(need_p - got_p)}")
    # the lemmas below are about pattern.match(w) for the whole rest of the source: the two
    # parsers must hand exactly that to the patterns, and consume exactly match.end() characters
    import ast
    def whole_rest(e):
        """self.file.source[self.<cursor>:] -- the source from the lexer's cursor (whatever the private
        attribute is called) to its end"""
        return isinstance(e, ast.Subscript) and ast.unparse(e.value) == "self.file.source" and isinstance(e.slice, ast.Slice) \
            and e.slice.upper is None and e.slice.step is None and isinstance(e.slice.lower, ast.Attribute) \
            and isinstance(e.slice.lower.value, ast.Name) and e.slice.lower.value.id == "self"
    for fn in ("parse_integer_literal", "parse_float_literal"):
        f = chk.repo.find_function(f"norminette/lexer/lexer.py:Lexer.{fn}")
        aliases = {ast.unparse(t) for x in ast.walk(f.node) if isinstance(x, ast.Assign) and whole_rest(x.value)
                   for t in x.targets}
        WHOLE = next((ast.unparse(x) for x in ast.walk(f.node) if whole_rest(x)), "self.file.source[self.__pos:]")
        args, pops = [], []
        for x in ast.walk(f.node):
            if isinstance(x, ast.Call) and isinstance(x.func, ast.Attribute) and x.func.attr == "match" \
                    and ast.unparse(x.func.value).endswith("_PATTERN"):
                args.append(ast.unparse(x.args[0]) if x.args else "")
            if isinstance(x, ast.Call) and isinstance(x.func, ast.Attribute) and x.func.attr == "pop":
                pops.append(ast.unparse(x))
        # the variable(s) the match result is bound to, whatever they are called
        mvars = set()
        for x in ast.walk(f.node):
            v = x.value if isinstance(x, (ast.Assign, ast.NamedExpr)) else None
            if isinstance(v, ast.Call) and isinstance(v.func, ast.Attribute) and v.func.attr == "match" \
                    and ast.unparse(v.func.value).endswith("_PATTERN"):
                mvars |= {t.id for t in ([x.target] if isinstance(x, ast.NamedExpr) else x.targets) if isinstance(t, ast.Name)}
        ok = bool(args) and all(a == WHOLE or a in aliases for a in args) and len(pops) == 1 \
            and any(pops[0] == f"self.pop(times={m}.end())" for m in mvars)
        chk.frame(f"frame.{fn}.pattern_sees_the_whole_rest_and_match_end_is_consumed", ok,
                  {"match_arguments": args, "aliases_of_the_rest": sorted(aliases), "pops": pops},
                  what=f"{fn}: the numeric pattern is not applied to the whole rest of the source ({args}) or the token "
                       f"does not consume match.end() characters ({pops})")
    # numeric constants, for digit strings of any length: which match the real patterns return
    from . import c11_regex
    nval, bad, dt = c11_regex.run_regex_lemmas(chk, thorough)
    if bad:
        raise RuntimeError(f"the encoding of re's search order disagrees with re itself or the family specification "
                           f"is wrong: {bad[:2]}")
    chk.finite("regex.search_order_encoding_validated", True, nval,
               {"note": "members of every family through the real compiled patterns: end() and named groups equal the "
                        "expected match"}, time_s=dt)
    t0 = time.time()
    nat = run_native("spell_harness", {"op": "literals", "maxlen": 3, "thorough": thorough}, timeout=3000)
    groups = {}
    for v in nat["violations"]:
        groups.setdefault(v["what"].split(" lexes to")[0].split(":")[0][:60], v)
    chk.add_bounded("Lexer (parse_integer_literal, parse_float_literal, parse_char_literal, parse_string_literal)",
                    "every valid constant of the C11 6.4.4 grammar up to the bound is ONE CONSTANT / CHAR_CONST / STRING "
                    "token spanning it, with no lexical diagnostic; every member of the malformed families gets the "
                    "diagnostic the statement names",
                    "decimal/octal/binary digit strings up to length 3, hexadecimal with every first digit x 9 tails, "
                    "%s suffix spellings, fractional/exponent/hex-float forms with empty integer or fraction part and "
                    "both exponent signs, followed by {EOF, blank, ';'%s}; every simple/octal/hex escape and prefix in "
                    "char and string literals; 19 malformed literals" % ("all" if thorough else "every third of the",
                                                                        ", ')', '+'" if thorough else ""),
                    nat["cases"], nat["violations"], nontrivial=nat["cases"],
                    samples=[v["what"][:100] for v in nat["violations"][:2]] or ["0x1fUL", "1.5e-3f"], time_s=time.time() - t0)
    for v in nat["violations"]:
        pass
    seen = set()
    import re as _re
    K9 = _re.compile(r"^0[xX][0-9a-fA-F]*[eE][A-Za-z0-9]+[+-]")     # hex constant ending in e/E + suffix + sign
    for v in nat["violations"]:
        if K9.match(v["text"]) and any(k["id"] == "K9" for k in chk.known):
            chk.known_finding("K9", True)
            continue
        key = v["what"].split("'")[1] if "'" in v["what"] else v["what"]
        low = key.lower()
        if low.startswith("0x") and "p" in low and ("." in low):
            fam = "hexfloat_empty_part"
        elif low.startswith("0xb"):
            fam = "hex_first_digit_b"
        else:
            fam = "other:" + key
        if fam in seen:
            continue
        seen.add(fam)
        chk.report_violation(f"C11.bounded.literals[{fam}]", {"property": "C11", "obligation": f"C11.bounded.literals[{fam}]",
                                                              "replay": {"op": "one", "text": v["text"]},
                                                              "confirmed_on_real_code": True}, what=v["what"], confirmed=True)
    chk.assumptions += [
        "numeric constants: the lemmas say which match (end and named groups) the four real patterns return on every "
        "member of 37 families of C constants, for digit strings of any length; they rest on an encoding of the search "
        "order of Python's `re` (leftmost alternative first, greedy runs longest first, backtracking) that is validated "
        "against `re` on members of every family on each run, not proved; \\d and \\w are read as ASCII classes, which is "
        "exact on the families (ASCII constants followed by nothing or by an ASCII character that cannot continue a "
        "preprocessing number)",
        "what parse_integer_literal / parse_float_literal do with the groups (suffix tables, digit buckets, error "
        "branches), hexadecimal floating constants, and character / string literals are covered by the bounded stand-in "
        "only",
    ]
    return chk.finish(level_if_complete="other",
                      explanation="match lemmas for the numeric-literal patterns discharged by z3 (regular-language "
                      "emptiness, unbounded digit strings); suffix / prefix tables by complete finite evaluation; the "
                      "parsers' use of the groups and char / string literals by a bounded stand-in")


if __name__ == "__main__":
    main_wrapper(run)
