"""C13 -- the 42 header is recognised exactly."""
import json
import random
import re
import time

import z3

from .common import run_native, Check, main_wrapper, native_batch
from ..specs import header as H
from .. import relang as RL

BODIES = [
    "/* a block comment right after the header */\n\nint\tmain(void)\n{\n\treturn (0);\n}\n",
    "\nint\tmain(void)\n{\n\treturn (0);\n}\n",
    "\n#include <unistd.h>\n\nint\tft_a(int a)\n{\n\treturn (a);\n}\n",
    "\nint\tg_x = 1;\n",
    "\n// trailing comment\nint\tft_b(void);\n",
    "\n#ifndef A_H\n# define A_H\n\nint\tft_c(void);\n\n#endif\n",
    "int\tft_glued(void);\n",
]


def solve_re(h, conj, timeout_ms):
    s = z3.Solver()
    s.set("timeout", timeout_ms)
    s.add(*conj)
    t0 = time.time()
    r = s.check()
    return str(r), time.time() - t0, (s.model() if r == z3.sat else None)


def run(tier, seed, replay):
    if replay:
        rp = json.load(open(replay))
        task = rp.get("replay")
        if not task:
            print(json.dumps(rp.get("verifier_output"), indent=1)[:3000])
            return 1
        r = native_batch([task])[0]
        n = sum(1 for e in r["errors"] if e["name"] == "INVALID_HEADER")
        print(f"INVALID_HEADER reported {n} time(s); expected {task.get('expect')}")
        return 1 if n != task.get("expect") else 0
    chk = Check("C13", tier, seed)
    thorough = tier == "thorough"
    rnd = random.Random(seed)
    E = chk.engine()
    H.install(E)

    def replay_header(ob, model):
        # a failing state-machine clause: try the bounded family
        cases, fails, _ = bounded(chk, rnd, thorough)
        for c, m in fails:
            return True, m, {"op": "pipeline", "text": c["text"], "name": "a.c", "expect": c["expect"]}
        return None
    chk.run_contract(E, H.run_contract(), replay=replay_header)

    # ---------------------------------------------------------------- regular-language lemmas
    pattern, flags, method = H.extract_regex(chk.repo)
    if pattern is None:
        # not a literal handed to re.compile inside check_header (hoisted, built from parts): ask the
        # imported module for its compiled patterns
        try:
            found = run_native("spell_harness", {"op": "module_patterns", "module": "norminette.rules.check_header",
                                                 "cls": "CheckHeader"})["patterns"]
        except Exception:
            found = []
        if len(found) == 1:
            pattern, flags = found[0]["pattern"], found[0]["flags"] & ~int(re.UNICODE)
            method = method or H.method_used(chk.repo)
    if pattern is None or method != "search":
        # where the pattern is, or how it is applied, is not recognised: the language lemmas say
        # nothing about this tree (undecided); the bounded stand-in through the real pipeline decides
        from .common import Item
        chk.items.append(Item("C13.regex.extracted", "frame-scan", "undecided", "frame-scan", 0.0,
                              {"pattern": pattern, "method": method}))
        chk.undecided.append("C13.regex.extracted: the header pattern or the way it is applied was not located in "
                             "CheckHeader; language lemmas not evaluated")
        return finish_bounded(chk, rnd, thorough)
    chk.frame("regex.extracted", True, {"pattern": pattern, "flags": flags, "method": method})
    compiled = re.compile(pattern, flags)
    try:
        P = RL.search_language(pattern, flags)
    except RL.UnsupportedRegex as e:
        # the pattern left the translatable subset: the language lemmas are undecided, the
        # bounded stand-in (real re through the real pipeline) decides
        from .common import Item
        chk.items.append(Item("C13.language.lemmas", "lemma", "undecided", "z3", 0.0, {"unsupported-regex": str(e)}))
        chk.undecided.append(f"C13.language.lemmas: regex outside the translatable subset ({e})")
        P = None
    h = z3.String("h")
    T_ = H.lang(H.template_lines())
    if P is None:
        return finish_bounded(chk, rnd, thorough)
    r, dt, m = solve_re(h, [z3.InRe(h, T_), z3.Not(z3.InRe(h, P))], chk.timeout_ms)
    rp = None
    if m is not None:
        text = m.eval(h, model_completion=True).as_string()
        rp = {"op": "pipeline", "text": text + BODIES[0], "name": "a.c", "expect": 0,
              "confirmed": compiled.search(text) is None}
    chk.smt("language.template_is_accepted", r, dt,
            {"claim": "every header of the stdheader template (file name [A-Za-z0-9_.-]{1,41}, login [a-z0-9-]{1,9}, "
                      "mail [a-z0-9.@-]{1,30}, any dates, any padding) is matched by the real pattern (search)"},
            replay=rp, what="a well-formed 42 header is not matched by the header pattern")
    for name, M in H.mutation_families().items():
        r, dt, m = solve_re(h, [z3.InRe(h, M), z3.InRe(h, P)], chk.timeout_ms)
        rp = None
        if m is not None:
            text = m.eval(h, model_completion=True).as_string()
            rp = {"op": "pipeline", "text": text + BODIES[0], "name": "a.c", "expect": 1,
                  "confirmed": compiled.search(text) is not None}
        chk.smt(f"language.rejects.{name}", r, dt, {"claim": f"no header of the mutation family '{name}' is matched"},
                replay=rp, what=f"a header damaged by '{name}' is still matched by the header pattern")

    # ---------------------------------------------------------------- translation validation
    t0 = time.time()
    disagreements = []
    nval = 0
    fams = {None: T_}
    fams.update(H.mutation_families())
    names = list(fams)
    for i in range(120 if thorough else 40):
        mut = names[i % len(names)]
        text = H.sample_member(rnd, mut)
        real = compiled.search(text) is not None
        s = z3.Solver()
        s.set("timeout", 10000)
        s.add(z3.InRe(z3.StringVal(text), P))
        zr = s.check()
        nval += 1
        if (zr == z3.sat) != real and zr != z3.unknown:
            disagreements.append({"text": text, "python_re": real, "z3": str(zr)})
        s2 = z3.Solver()
        s2.set("timeout", 10000)
        s2.add(z3.InRe(z3.StringVal(text), fams[mut]))
        if s2.check() == z3.unsat:
            disagreements.append({"text": text, "note": f"sample of family {mut} is not in its z3 language"})
    if disagreements:
        raise RuntimeError(f"regex translation disagrees with Python's re: {disagreements[:2]}")
    chk.finite("regex.translation_validated", True, nval,
               {"note": "z3 membership of concrete headers equals re.search of the real compiled pattern; every "
                        "sample lies in the z3 language of its family"}, time_s=time.time() - t0)

    return finish_bounded(chk, rnd, thorough)


def finish_bounded(chk, rnd, thorough):
    # every file named on the command line is judged on its own content (two files, one without header)
    from .common import run_native
    t0 = time.time()
    dd = run_native("discovery_harness", {"op": "dotdot"}, timeout=120)
    if dd.get("unreadable"):
        chk.undecided.append(f"C13: the JSON report of {len(dd['unreadable'])} command-line run(s) could not be read by the harness "
                             f"({dd['unreadable'][0][:120]}): nothing is concluded from them")
    chk.finite("cli.each_named_file_gets_its_own_header_verdict", not dd["violations"], dd["cases"],
               {"violations": dd["violations"][:2]}, what=f"header diagnostics of files named in one run: {dd['violations'][:1]}",
               time_s=time.time() - t0)
    # ---------------------------------------------------------------- bounded composition
    cases, fails, dt = bounded(chk, rnd, thorough)
    chk.add_bounded("Lexer + Registry.run (whole pipeline)",
                    "template headers followed by a body: no INVALID_HEADER; each structural mutation, an absent "
                    "header, a header preceded by code or an empty line, a header written with //: exactly one",
                    "%d seeded template members x %d bodies; every mutation family x 2 seeds x 2 bodies; 4 "
                    "state-machine mutations x 3 bodies" % (12 if thorough else 4, len(BODIES)),
                    len(cases), fails, nontrivial=len({(c["kind"], c["body"]) for c in cases}),
                    samples=[{"kind": c["kind"], "head": c["text"][:100]} for c in cases[:2]], time_s=dt)
    explained = chk.has_unlisted_failure()
    if fails and not explained:
        c, m = fails[0]
        chk.report_violation("C13.bounded.pipeline", {"property": "C13", "obligation": "C13.bounded.pipeline",
                                                      "replay": {"op": "pipeline", "text": c["text"], "name": "a.c",
                                                                 "expect": c["expect"]},
                                                      "confirmed_on_real_code": True}, what=m, confirmed=True)
    chk.assumptions += [
        "re.compile(pattern, flags).search is abstracted to an uninterpreted predicate in the state-machine contract; "
        "its language is the subject of the z3 regular-expression lemmas (translation validated against Python's re "
        "on every run)",
        "composition: the lexer and IsComment deliver the 11 header lines as 11 statements whose token 0 is the "
        "MULT_COMMENT, and a non-comment statement follows when the file has other content: bounded stand-in",
        "'at most one INVALID_HEADER per file' follows from the per-call clauses (a report sets header_parsed, a "
        "parsed header is frozen) by induction over the calls; the induction itself is a hand argument",
    ]
    return chk.finish()


_cache = {}


def bounded(chk, rnd, thorough):
    if "r" in _cache:
        return _cache["r"]
    cases = []
    for i in range(12 if thorough else 4):
        head = H.sample_member(rnd)
        for bi, b in enumerate(BODIES):
            cases.append({"kind": "template", "body": bi, "text": head + b, "expect": 0})
    for name in H.mutation_families():
        for i in range(2):
            head = H.sample_member(rnd, name)
            for bi in (0, 1):
                cases.append({"kind": name, "body": bi, "text": head + BODIES[bi], "expect": 1})
    good = H.sample_member(rnd)
    for bi in (0, 1, 2):
        body = BODIES[bi]
        cases.append({"kind": "absent", "body": bi, "text": body.lstrip("\n"), "expect": 1})
        cases.append({"kind": "preceded_by_code", "body": bi, "text": "int\tg_y;\n" + good + body, "expect": 1})
        # ... whatever kind of statement it is (each of these is recognised by another primary rule)
        for k, stmt in enumerate(["ft_call(1);", "_Static_assert(sizeof(int) == 4, \"int\");", "(void)g_a;", "g_a = g_b ? 1 : 2;",
                                  "g_a = 1;", "typedef int\tt_i;", "#include <unistd.h>", "# define A 1", ";", "struct s_a;",
                                  "enum e_a\n{\n\tA\n};", "// not a header", "__attribute__((unused));"]):
            if bi == 0:
                cases.append({"kind": f"preceded_by_statement[{k}]", "body": bi, "text": stmt + "\n" + good + body, "expect": 1})
        cases.append({"kind": "preceded_by_empty_line", "body": bi, "text": "\n" + good + body, "expect": 1})
        slashes = "".join("//" + ln[2:-2] + "\n" for ln in good.rstrip("\n").split("\n"))
        cases.append({"kind": "written_with_slashes", "body": bi, "text": slashes + body, "expect": 1})
    t0 = time.time()
    res = native_batch([{"op": "pipeline", "text": c["text"], "name": "a.c"} for c in cases])
    fails = []
    for c, r in zip(cases, res):
        if r["exc"] or r["fatal"]:
            continue
        n = sum(1 for e in r["errors"] if e["name"] == "INVALID_HEADER")
        if n != c["expect"]:
            fails.append((c, f"INVALID_HEADER reported {n} time(s) for a '{c['kind']}' header, expected {c['expect']}"))
    _cache["r"] = (cases, fails, time.time() - t0)
    return _cache["r"]


if __name__ == "__main__":
    main_wrapper(run)
