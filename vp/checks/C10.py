"""C10 -- tokenization is lossless."""
import json
import time

from .common import Check, main_wrapper, run_native, run_parallel
from ..pyvc.state import State
from ..specs import lexer as SL
from ..models import lexer as LX


TOKEN_FORMS = {
    # in canonical local names (v0, v1, ... in order of first assignment), so that renaming a
    # local does not change the forms
    "parse_identifier": {
        "tokens": {"Token(keywords[v2], v1)", "Token('IDENTIFIER', v1, v2)"},
        "text": {"v2 = self.pop()", "v2 += self.pop()"},
        "guards": {"v2 in keywords"},
    },
}


def canonical_locals(fnode):
    """copy of the function with its local variables renamed v0, v1, ... by first assignment"""
    import ast
    import copy
    order = []
    for x in ast.walk(fnode):
        if isinstance(x, ast.Name) and isinstance(x.ctx, ast.Store) and x.id not in order:
            order.append((x.lineno, x.col_offset, x.id))
    names = []
    for _l, _c, n in sorted(order):
        if n not in names:
            names.append(n)
    ren = {n: f"v{k}" for k, n in enumerate(names)}
    node = copy.deepcopy(fnode)
    for x in ast.walk(node):
        if isinstance(x, ast.Name) and x.id in ren:
            x.id = ren[x.id]
    return node


def valueless_token_frames(chk):
    import ast
    f = chk.repo.find_function("norminette/lexer/lexer.py:Lexer.parse_identifier")
    node = canonical_locals(f.node)
    spec = TOKEN_FORMS["parse_identifier"]
    toks, text, guards, calls = set(), set(), set(), set()
    textvars = {t.id for x in ast.walk(node) if isinstance(x, (ast.Assign, ast.AugAssign)) and "self.pop()" in ast.unparse(x.value)
                for t in ast.walk(x) if isinstance(t, ast.Name) and isinstance(t.ctx, ast.Store)}
    for x in ast.walk(node):
        if isinstance(x, ast.Call) and isinstance(x.func, ast.Name) and x.func.id == "Token":
            toks.add(ast.unparse(x))
        if isinstance(x, (ast.Assign, ast.AugAssign)) and textvars & {t.id for t in ast.walk(x) if isinstance(t, ast.Name) and isinstance(t.ctx, ast.Store)}:
            text.add(ast.unparse(x))
        if isinstance(x, ast.If):
            for r in ast.walk(x):
                if isinstance(r, ast.Return) and r.value is not None and "keywords" in ast.unparse(r.value):
                    guards.add(ast.unparse(x.test))
        if isinstance(x, ast.Call) and isinstance(x.func, ast.Name) and x.func.id not in ("Token",):
            calls.add(x.func.id)
    ok = toks == spec["tokens"] and text == spec["text"] and guards == spec["guards"] and not calls
    chk.frame("frame.parse_identifier.keyword_token_only_for_the_exact_table_entry", ok,
              {"tokens": sorted(toks), "consumed_text": sorted(text), "guards": sorted(guards), "other_calls": sorted(calls),
               "note": "local variables are compared under canonical names (v0, v1, ... by first assignment)"},
              what="parse_identifier no longer builds its tokens as Token(keywords[text], pos) under `text in keywords` / "
                   f"Token('IDENTIFIER', pos, text) with text the popped characters: {sorted(toks)} {sorted(text)} "
                   f"{sorted(guards)} {sorted(calls)} -- the text of a keyword token may differ from what was consumed")


def run(tier, seed, replay):
    if replay:
        rp = json.load(open(replay))
        task = rp.get("replay")
        if not task:
            print(json.dumps(rp.get("verifier_output"), indent=1)[:3000])
            return 1
        r = run_native("lexpos", task)
        print(json.dumps(r, indent=1)[:2000])
        return 1 if r.get("violations") else 0
    chk = Check("C10", tier, seed)
    thorough = tier == "thorough"
    E = chk.engine()
    # ---- the text of a token without value is determined by its kind: the tables are injective
    st = State()
    tables = {}
    for name in ("keywords", "operators", "brackets", "digraphs", "trigraphs"):
        tables[name] = dict(st.cell(E.module_global(st, "norminette/lexer/dictionary.py", name)).d)
    for name in ("keywords", "operators", "brackets"):
        vals = list(tables[name].values())
        dup = sorted({v for v in vals if vals.count(v) > 1})
        chk.finite(f"dictionary.{name}.injective", not dup, len(vals), {"duplicates": dup},
                   what=f"two lexemes share the token kind {dup}: the text of such a token cannot be recovered")
    # ... and a token without value is only built from the table entry of the exact text that was
    # consumed: frames on the three parsers that build such tokens (every Token(...) construction
    # and every assignment to the consumed text in them is one of the committed forms)
    valueless_token_frames(chk)
    allk = [v for n in ("keywords", "operators", "brackets") for v in tables[n].values()]
    dup = sorted({v for v in allk if allk.count(v) > 1})
    chk.finite("dictionary.kinds_disjoint_across_tables", not dup, len(allk), {"duplicates": dup},
               what=f"a token kind is produced by two tables: {dup}")
    chk.finite("dictionary.alternative_spellings_are_the_standard_ones",
               tables["trigraphs"] == LX.TRIGRAPHS and tables["digraphs"] == LX.DIGRAPHS, 14,
               {"trigraphs": tables["trigraphs"], "digraphs": tables["digraphs"]},
               what="the digraph / trigraph tables differ from the C standard's")

    # ---- contracts: what one pop returns is the logical character it consumed; parsers consume
    # at least one character and stay inside the source; get_next_token returns None only at the end
    found = {}

    def search():
        if "r" not in found:
            t0 = time.time()
            found["r"] = run_native("lexpos", {"op": "search", "mode": "lossless", "seed": seed,
                                               "maxlen": 4 if thorough else 3, "random": 3000 if thorough else 400},
                                    timeout=3000)
            found["t"] = time.time() - t0
        return found["r"]

    def replay_any(ob, model, base):
        nat = search()
        for v in nat["violations"]:
            return True, v["what"] + f" [input {v['text']!r}]", {"op": "one", "mode": "lossless", "text": v["text"]}
        return None
    names = ("pop[functional1]", "pop[plain]", "peek[1]", "parse_whitespace", "parse_brackets", "parse_operator",
             "parse_identifier", "get_next_token")
    jobs = [j for j in SL.lexer_jobs() if j[0] in names]
    run_parallel(chk, jobs, SL.INSTALLS, replays={"Lexer." + n.split("[")[0]: replay_any for n in names}, procs=8)

    nat = search()
    import re as _re
    K7 = _re.compile(r"(\\|\?\?/)(\?\?[<>()=/'!\-]|<%|%>|<:|:>|%:|\t)")      # escape of a respelled character / of a tab
    K8 = _re.compile(r"'(?:[^'\n]|(?:\\|\?\?/)\n)*(?:\\|\?\?/)\n\n")        # splice + empty line inside an unterminated char literal (earlier splices allowed)
    kf = {k["id"]: k for k in chk.known}
    unexplained = []
    for v in nat["violations"]:
        hit = None
        if "K7" in kf and K7.search(v["text"]):
            hit = "K7"
        elif "K8" in kf and K8.search(v["text"]):
            hit = "K8"
        if hit:
            chk.known_finding(hit, True)
        else:
            unexplained.append(v)
    chk.add_bounded("Lexer.__iter__ (whole tokenizer)",
                    "the raw text between consecutive token starts normalises (splices removed, alternative spellings "
                    "replaced, tabs expanded inside block comments) exactly to the token text; characters before the "
                    "first token are reported bad lexemes (independent scanner)",
                    nat["bound"], nat["cases"], unexplained, nontrivial=nat["nontrivial"], samples=[nat["bound"][:80]],
                    time_s=found.get("t", 0.0))
    explained = chk.has_unlisted_failure()
    if unexplained and not explained:
        v = unexplained[0]
        chk.report_violation("C10.bounded.roundtrip", {"property": "C10", "obligation": "C10.bounded.roundtrip",
                                                       "replay": {"op": "one", "mode": "lossless", "text": v["text"]},
                                                       "confirmed_on_real_code": True},
                             what=v["what"] + f" [input {v['text']!r}]", confirmed=True)
    chk.assumptions += [
        "only the one-character clause of pop (result = the logical character consumed) is proved; the general "
        "statement 'value = norm(consumed slice)' for every parser, and the concatenation lemma over a run, are NOT "
        "machine-checked: bounded stand-in with an independent scanner",
        "numeric literal parsers pop match.end() characters chosen by `re` (trusted: a match is non-empty)",
    ] + LX.RE_TRUSTED
    return chk.finish(level_if_complete="other",
                      explanation="table injectivity by complete finite evaluation, character-level contracts of "
                      "peek/pop and progress of the parsers discharged by z3; the round-trip law over whole inputs is "
                      "a bounded stand-in (independent scanner)")


if __name__ == "__main__":
    main_wrapper(run)
