"""C10 -- tokenization is lossless."""
import json
import time

from .common import Check, main_wrapper, run_native, run_parallel
from ..pyvc.state import State
from ..specs import lexer as SL
from ..models import lexer as LX


TOKEN_FORMS = {
    # in canonical local names (v0, v1, ... in order of first assignment), so that renaming a
    # local does not change the forms
    "parse_identifier": {
        "tokens": {"Token(keywords[v2], v1)", "Token('IDENTIFIER', v1, v2)"},
        "text": {"v2 = self.pop()", "v2 += self.pop()"},
        "guards": {"v2 in keywords"},
    },
}


def canonical_locals(fnode):
    """copy of the function with its local variables renamed v0, v1, ... by first assignment"""
    import ast
    import copy
    order = []
    for x in ast.walk(fnode):
        if isinstance(x, ast.Name) and isinstance(x.ctx, ast.Store) and x.id not in order:
            order.append((x.lineno, x.col_offset, x.id))
    names = []
    for _l, _c, n in sorted(order):
        if n not in names:
            names.append(n)
    ren = {n: f"v{k}" for k, n in enumerate(names)}
    node = copy.deepcopy(fnode)
    for x in ast.walk(node):
        if isinstance(x, ast.Name) and x.id in ren:
            x.id = ren[x.id]
    return node


def valueless_token_frames(chk):
    """a keyword token carries no text: its source text is known through its type only.  So in
    parse_identifier the type of a valueless token has to be the entry of the `keywords` table
    for exactly the text that was consumed.  Judged on what the function does with that text,
    not on how it is written:
      (i)   the text variable T is the value of the IDENTIFIER token;
      (ii)  T is only ever assigned consumed source text (pop(), T + pop(), the group of a pattern
            matched on the source) -- a lookup, a method call or a slice applied to T is a change;
      (iii) every other Token(...) takes its type from keywords[T] / keywords.get(T), directly or
            through one local variable.
    A positive breach of (ii) or (iii) is a violation; a function in which T cannot be found is
    undecided (the bounded round trip, which includes look-alike spellings of keywords, decides)."""
    import ast
    from .common import Item
    name = "frame.parse_identifier.keyword_token_only_for_the_exact_table_entry"
    f = chk.repo.find_function("norminette/lexer/lexer.py:Lexer.parse_identifier")
    node = f.node
    tokens = [x for x in ast.walk(node) if isinstance(x, ast.Call) and isinstance(x.func, ast.Name) and x.func.id == "Token"]
    ident = [x for x in tokens if x.args and isinstance(x.args[0], ast.Constant) and x.args[0].value == "IDENTIFIER"]
    tvars = set()
    for x in ident:
        v = x.args[2] if len(x.args) >= 3 else next((k.value for k in x.keywords if k.arg == "value"), None)
        if isinstance(v, ast.Name):
            tvars.add(v.id)
    if len(tvars) != 1 or not ident:
        chk.items.append(Item(f"C10.{name}", "frame-scan", "undecided", "frame-scan", 0.0,
                              {"reason": "the variable holding the identifier text was not found", "tokens": [ast.unparse(x) for x in tokens]}))
        chk.undecided.append(f"C10.{name}: the form of parse_identifier is not recognised; the bounded round trip decides")
        return
    T = tvars.pop()

    def consumed_text(e):
        src = ast.unparse(e).replace(" ", "")
        if src in ("self.pop()", f"{T}+self.pop()"):
            return True
        # the text a pattern matched on the source: m.group() / m.group(0) / m[0]
        if isinstance(e, ast.Call) and isinstance(e.func, ast.Attribute) and e.func.attr == "group" and \
                (not e.args or (isinstance(e.args[0], ast.Constant) and e.args[0].value == 0)):
            return True
        if isinstance(e, ast.Subscript) and isinstance(e.slice, ast.Constant) and e.slice.value == 0 and isinstance(e.value, ast.Name):
            return True
        if isinstance(e, ast.Constant) and e.value == "":
            return True
        return False
    breaches, unknown = [], []
    for x in ast.walk(node):
        tg = x.targets if isinstance(x, ast.Assign) else [x.target] if isinstance(x, (ast.AugAssign, ast.NamedExpr, ast.AnnAssign)) else []
        for t in tg:
            if isinstance(t, ast.Name) and t.id == T:
                val = x.value
                ok = consumed_text(val) if not isinstance(x, ast.AugAssign) else ast.unparse(val).replace(" ", "") == "self.pop()"
                if not ok:
                    breaches.append(f"the identifier text is changed: {ast.unparse(x)}")
    # variables that hold keywords[T] / keywords.get(T)
    def table_entry(e):
        """TABLE[T] / TABLE.get(T) for a module-level table (whatever it is called)"""
        if isinstance(e, ast.Subscript) and isinstance(e.value, ast.Name):
            return isinstance(e.slice, ast.Name) and e.slice.id == T
        if isinstance(e, ast.Call) and isinstance(e.func, ast.Attribute) and e.func.attr == "get" and isinstance(e.func.value, ast.Name):
            return bool(e.args) and isinstance(e.args[0], ast.Name) and e.args[0].id == T and len(e.args) == 1
        return False

    def helper_of_text(e):
        """f(T): the kind comes out of a helper function -- what it does is not known to this scan"""
        return isinstance(e, ast.Call) and isinstance(e.func, ast.Name) and len(e.args) == 1 and \
            isinstance(e.args[0], ast.Name) and e.args[0].id == T
    kvars, hvars = set(), set()
    for x in ast.walk(node):
        if isinstance(x, (ast.Assign, ast.NamedExpr)) and helper_of_text(x.value):
            for t in (x.targets if isinstance(x, ast.Assign) else [x.target]):
                if isinstance(t, ast.Name):
                    hvars.add(t.id)
        if isinstance(x, (ast.Assign, ast.NamedExpr)) and table_entry(x.value):
            for t in (x.targets if isinstance(x, ast.Assign) else [x.target]):
                if isinstance(t, ast.Name):
                    kvars.add(t.id)
    for x in tokens:
        if x in ident:
            continue
        a0 = x.args[0] if x.args else None
        if a0 is not None and (helper_of_text(a0) or (isinstance(a0, ast.Name) and a0.id in hvars)):
            unknown.append(ast.unparse(x))
            continue
        if not (a0 is not None and (table_entry(a0) or (isinstance(a0, ast.Name) and a0.id in kvars))):
            breaches.append(f"a token whose type is not the keywords entry of the consumed text: {ast.unparse(x)}")
    for x in ast.walk(node):
        if isinstance(x, ast.Name) and x.id in kvars and isinstance(x.ctx, ast.Store):
            pass
    # the variables holding the table entry are assigned nothing else
    for x in ast.walk(node):
        if isinstance(x, (ast.Assign, ast.AugAssign)):
            for t in (x.targets if isinstance(x, ast.Assign) else [x.target]):
                if isinstance(t, ast.Name) and t.id in kvars and not (isinstance(x, ast.Assign) and table_entry(x.value)):
                    breaches.append(f"the looked-up kind is changed: {ast.unparse(x)}")
    if unknown and not breaches:
        chk.items.append(Item(f"C10.{name}", "frame-scan", "undecided", "frame-scan", 0.0,
                              {"reason": "the kind of a valueless token comes out of a helper function", "tokens": unknown}))
        chk.undecided.append(f"C10.{name}: the kind of a valueless token comes out of a helper function ({unknown}); the "
                             "bounded round trip (with look-alike spellings of keywords) decides")
        return
    chk.frame(name, not breaches, {"text_variable": T, "tokens": [ast.unparse(x) for x in tokens], "breaches": breaches},
              what="parse_identifier: " + "; ".join(breaches) + " -- the text of a keyword token may differ from what was consumed")


def run(tier, seed, replay):
    if replay:
        rp = json.load(open(replay))
        task = rp.get("replay")
        if not task:
            print(json.dumps(rp.get("verifier_output"), indent=1)[:3000])
            return 1
        r = run_native("lexpos", task)
        print(json.dumps(r, indent=1)[:2000])
        return 1 if r.get("violations") else 0
    chk = Check("C10", tier, seed)
    thorough = tier == "thorough"
    E = chk.engine()
    # ---- the text of a token without value is determined by its kind: the tables are injective
    st = State()
    tables = {}
    for name in ("keywords", "operators", "brackets", "digraphs", "trigraphs"):
        tables[name] = dict(st.cell(E.module_global(st, "norminette/lexer/dictionary.py", name)).d)
    for name in ("keywords", "operators", "brackets"):
        vals = list(tables[name].values())
        dup = sorted({v for v in vals if vals.count(v) > 1})
        chk.finite(f"dictionary.{name}.injective", not dup, len(vals), {"duplicates": dup},
                   what=f"two lexemes share the token kind {dup}: the text of such a token cannot be recovered")
    # ... and a token without value is only built from the table entry of the exact text that was
    # consumed: frames on the three parsers that build such tokens (every Token(...) construction
    # and every assignment to the consumed text in them is one of the committed forms)
    valueless_token_frames(chk)
    allk = [v for n in ("keywords", "operators", "brackets") for v in tables[n].values()]
    dup = sorted({v for v in allk if allk.count(v) > 1})
    chk.finite("dictionary.kinds_disjoint_across_tables", not dup, len(allk), {"duplicates": dup},
               what=f"a token kind is produced by two tables: {dup}")
    chk.finite("dictionary.alternative_spellings_are_the_standard_ones",
               tables["trigraphs"] == LX.TRIGRAPHS and tables["digraphs"] == LX.DIGRAPHS, 14,
               {"trigraphs": tables["trigraphs"], "digraphs": tables["digraphs"]},
               what="the digraph / trigraph tables differ from the C standard's")

    # ---- contracts: what one pop returns is the logical character it consumed; parsers consume
    # at least one character and stay inside the source; get_next_token returns None only at the end
    found = {}

    def search():
        if "r" not in found:
            t0 = time.time()
            found["r"] = run_native("lexpos", {"op": "search", "mode": "lossless", "seed": seed,
                                               "maxlen": 4 if thorough else 3, "random": 3000 if thorough else 400},
                                    timeout=3000)
            found["t"] = time.time() - t0
        return found["r"]

    def replay_any(ob, model, base):
        nat = search()
        for v in nat["violations"]:
            return True, v["what"] + f" [input {v['text']!r}]", {"op": "one", "mode": "lossless", "text": v["text"]}
        return None
    names = ("pop[functional1]", "pop[functional2]", "pop[plain]", "peek[1]", "parse_whitespace", "parse_brackets", "parse_operator",
             "parse_identifier", "get_next_token")
    jobs = [j for j in SL.lexer_jobs() if j[0] in names]
    run_parallel(chk, jobs, SL.INSTALLS, replays={"Lexer." + n.split("[")[0]: replay_any for n in names}, procs=8)

    nat = search()
    import re as _re
    K7 = _re.compile(r"(\\|\?\?/)(\?\?[<>()=/'!\-]|<%|%>|<:|:>|%:|\t)")      # escape of a respelled character / of a tab
    K8 = _re.compile(r"'(?:[^'\n]|(?:\\|\?\?/)\n)*(?:\\|\?\?/)\n\n")        # splice + empty line inside an unterminated char literal (earlier splices allowed)
    kf = {k["id"]: k for k in chk.known}
    unexplained = []
    for v in nat["violations"]:
        hit = None
        if "K7" in kf and K7.search(v["text"]):
            hit = "K7"
        elif "K8" in kf and K8.search(v["text"]):
            hit = "K8"
        if hit:
            chk.known_finding(hit, True)
        else:
            unexplained.append(v)
    chk.add_bounded("Lexer.__iter__ (whole tokenizer)",
                    "the raw text between consecutive token starts normalises (splices removed, alternative spellings "
                    "replaced, tabs expanded inside block comments) exactly to the token text; characters before the "
                    "first token are reported bad lexemes (independent scanner)",
                    nat["bound"], nat["cases"], unexplained, nontrivial=nat["nontrivial"], samples=[nat["bound"][:80]],
                    time_s=found.get("t", 0.0))
    explained = chk.has_unlisted_failure()
    if unexplained and not explained:
        v = unexplained[0]
        chk.report_violation("C10.bounded.roundtrip", {"property": "C10", "obligation": "C10.bounded.roundtrip",
                                                       "replay": {"op": "one", "mode": "lossless", "text": v["text"]},
                                                       "confirmed_on_real_code": True},
                             what=v["what"] + f" [input {v['text']!r}]", confirmed=True)
    chk.assumptions += [
        "only the one-character clause of pop (result = the logical character consumed) is proved; the general "
        "statement 'value = norm(consumed slice)' for every parser, and the concatenation lemma over a run, are NOT "
        "machine-checked: bounded stand-in with an independent scanner",
        "numeric literal parsers pop match.end() characters chosen by `re` (trusted: a match is non-empty)",
    ] + LX.RE_TRUSTED
    return chk.finish(level_if_complete="other",
                      explanation="table injectivity by complete finite evaluation, character-level contracts of "
                      "peek/pop and progress of the parsers discharged by z3; the round-trip law over whole inputs is "
                      "a bounded stand-in (independent scanner)")


if __name__ == "__main__":
    main_wrapper(run)
