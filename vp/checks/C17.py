"""C17 -- comment text and string contents are opaque."""
import ast
import json
import random
import re
import time

import z3

from .common import Check, main_wrapper, native_batch
from .frames_common import value_frame, sample_files, diag_key
from ..frames import rules as FR
from ..bounded import programs as P

LEXER = "norminette/lexer/lexer.py"
# characters the comment / literal parsers (and pop / peek under them) may test for:
# delimiters, backslash and line breaks (excluded by the statement), the characters of the
# alternative spellings (known finding K4), and what may follow a backslash
STRUCTURAL = set("\\\n\t\"'*/") | set("?<>%:()=!-") | set("abefnrtvx") | set("0123456789abcdefABCDEF") | set("lLuU8")
PARSERS = ("parse_line_comment", "parse_multi_line_comment", "parse_string_literal", "parse_char_literal", "pop", "peek",
           "raw_peek")


def lexer_char_frame(chk):
    """which characters can influence how a comment or literal is consumed: every string
    constant compared with source characters inside the parsers, and the keys of the
    respelling tables"""
    tree = chk.repo.module(LEXER).tree
    consts = {}
    module_consts = {}
    for node in tree.body:
        if isinstance(node, ast.Assign) and isinstance(node.value, ast.Constant) and isinstance(node.value.value, str):
            for t in node.targets:
                if isinstance(t, ast.Name):
                    module_consts[t.id] = node.value.value
    seen = set()
    sites = []
    for cls in tree.body:
        if not (isinstance(cls, ast.ClassDef) and cls.name == "Lexer"):
            continue
        for fn in cls.body:
            if not (isinstance(fn, ast.FunctionDef) and fn.name in PARSERS):
                continue
            for x in ast.walk(fn):
                strs = []
                if isinstance(x, ast.Compare):
                    for side in [x.left] + list(x.comparators):
                        if isinstance(side, ast.Constant) and isinstance(side.value, str):
                            strs.append(side.value)
                        elif isinstance(side, ast.Name) and side.id in module_consts:
                            strs.append(module_consts[side.id])
                        elif isinstance(side, (ast.Tuple, ast.List)):
                            strs += [e.value for e in side.elts if isinstance(e, ast.Constant) and isinstance(e.value, str)]
                if isinstance(x, ast.Call) and isinstance(x.func, ast.Attribute) and x.func.attr in ("endswith", "startswith"):
                    for a in x.args:
                        if isinstance(a, ast.Constant) and isinstance(a.value, str):
                            strs.append(a.value)
                        elif isinstance(a, ast.Name) and a.id == "prefix":
                            strs += list("lLuU8")
                for s_ in strs:
                    for ch in s_:
                        if ch not in seen:
                            seen.add(ch)
                            sites.append((fn.name, ch))
    extra = sorted(ch for ch in seen if ch not in STRUCTURAL)
    chk.frame("frame.lexer.characters_tested_inside_comments_and_literals", not extra,
              {"tested": "".join(sorted(seen)), "not_structural": extra},
              what=f"the comment/literal parsers test for characters outside the committed structural set: {extra}")
    return seen


def literal_value_lemmas(chk):
    """the value of a comment / literal token starts with '/', a quote, or a prefix followed
    by a quote (lexer: parse_* build the value from the delimiters they matched): such a
    value can never satisfy an identifier observation"""
    v = z3.String("v")
    heads = ["/", "\"", "'"] + [p + q for p in ("L", "l", "u", "U", "u8") for q in ("\"", "'")]
    shape = z3.Or(*[z3.PrefixOf(z3.StringVal(h), v) for h in heads])
    consts = sorted((FR.SPECIAL_NAMES | FR.DIRECTIVE_NAMES | FR.DIRECTIVE_UPPER) - {"<ARGUMENTED_PREPROCESSORS>"})
    t0 = time.time()
    s = z3.Solver()
    s.set("timeout", chk.timeout_ms)
    s.add(shape, z3.Or(*[v == c for c in consts], *[z3.PrefixOf(z3.StringVal(p), v) for p in sorted(FR.PREFIXES)]))
    r = str(s.check())
    chk.smt("lemma.literal_values_fail_every_identifier_test", r, time.time() - t0,
            {"claim": "a value starting with '/', a quote or a literal prefix + quote equals none of the special / "
                      "directive names and starts with none of the naming prefixes"})


CODE_LIKE = list("+-*&|;{}[]()=<>!,.#") + ["if", "int", "while", "return", "a"]


def opaque_edit(text, rnd):
    """replace the text inside one comment / string / char literal by other text of the same
    width, free of delimiters, backslashes, line breaks -- and (class K4) of '?', '<', '%',
    ':' , '>' which the lexer respells even inside comments"""
    spans = []
    for m in re.finditer(r"/\*(.*?)\*/|//([^\n]*)|\"((?:\\.|[^\"\\\n])*)\"", text, flags=re.S):
        g = 1 if m.group(1) is not None else (2 if m.group(2) is not None else 3)
        a, b = m.span(g)
        if b - a >= 3:
            spans.append((a, b, g))
    # the 42 header (first 11 lines) and #include lines are excluded by the statement
    lines = text.split("\n")
    header_end = sum(len(ln) + 1 for ln in lines[:11]) if text.startswith("/* ****") else 0
    spans = [(a, b, g) for a, b, g in spans if a >= header_end
             and not text[text.rfind("\n", 0, a) + 1:a].lstrip().startswith("#")]
    if not spans:
        return None
    a, b, g = rnd.choice(spans)
    old = text[a:b]
    # the digraph characters are only left out where the known finding K4 applies: on lines
    # whose width is near the 80-column limit (len(value) is what the length check sees)
    ls, le = text.rfind("\n", 0, a) + 1, text.find("\n", b)
    near_limit = any(len(ln.expandtabs(4)) > 70 for ln in text[ls:le if le >= 0 else len(text)].split("\n"))
    alphabet = "+-&|;{}[]()=!,.#abz09 " + ("" if near_limit else "<:%><:%>")
    new = []
    for ch in old:
        if ch in "\n\t\\":
            new.append(ch)           # line structure and escapes are kept
        elif ch in "*/\"'" or ch in "?<>%:":
            new.append(ch if ch in "*/\"'" else "x")
        else:
            new.append(rnd.choice(alphabet))
    new = "".join(new)
    new = new.replace("*/", "*+").replace("/*", "+*")
    if g == 2:
        new = new.rstrip(" ") + "x" * (len(new) - len(new.rstrip(" ")))     # no trailing blank created
    if new == old or "\\" in old:
        return None
    return text[:a] + new + text[b:]


def structured_edits(text, limit=4):
    """systematic companions of the random edits: the first characters inside string
    literals and comments become an alternative spelling (each digraph once; '??=' inside
    strings), and a string gets its code-like worst case (quote of the other kind, braces,
    semicolons).  Same width, no delimiter, no backslash, no line break; lines near the
    80-column limit are left alone (known finding K4)."""
    out = []
    lines = text.split("\n")
    header_end = sum(len(ln) + 1 for ln in lines[:11]) if text.startswith("/* ****") else 0
    spans = []
    for m in re.finditer(r"/\*(.*?)\*/|//([^\n]*)|\"((?:\\.|[^\"\\\n])*)\"", text, flags=re.S):
        g = 1 if m.group(1) is not None else (2 if m.group(2) is not None else 3)
        a, b = m.span(g)
        if b - a < 4 or a < header_end or "\\" in text[a:b]:
            continue
        if text[text.rfind("\n", 0, a) + 1:a].lstrip().startswith("#"):
            continue            # preprocessor lines are left to the random edits (#include is excluded by the statement)
        ls, le = text.rfind("\n", 0, a) + 1, text.find("\n", b)
        if any(len(ln.expandtabs(4)) > 70 for ln in text[ls:le if le >= 0 else len(text)].split("\n")):
            continue
        spans.append((a, b, g))
    fills = ["<%", "%>", "<:", ":>", "%:", "??="]
    k = 0
    for a, b, g in spans[:limit]:
        old = text[a:b]
        body = old[:3].replace("\n", " ").replace("\t", " ")
        if "\n" in old[:3] or "\t" in old[:3]:
            continue
        f = fills[k % len(fills)]
        k += 1
        new = f + old[len(f):]
        if new != old and "*/" not in new and "/*" not in new:
            out.append(text[:a] + new + text[b:])
        if g == 1 and "\n" not in old[-3:] and "\n" not in old[:3]:
            # stars next to the delimiters: /** ... **/ and /*** ... ***/
            for kk in (1, 2, 3):
                starred = "*" * kk + old[kk:len(old) - kk] + "*" * kk
                if starred != old and len(starred) == len(old) and "*/" not in starred[:-kk] and "/*" not in starred:
                    out.append(text[:a] + starred + text[b:])
        if g == 3:
            worst = ("';{}[]()=+" * 8)[:len(old)]
            if worst != old:
                out.append(text[:a] + worst + text[b:])
    return out


def run(tier, seed, replay):
    if replay:
        rp = json.load(open(replay))
        task = rp.get("replay")
        if not task:
            print(json.dumps(rp.get("verifier_output"), indent=1)[:3000])
            return 1
        a, b = native_batch([{"op": "pipeline", "text": task["a"], "name": task["name"]},
                             {"op": "pipeline", "text": task["b"], "name": task["name"]}])
        print("original:", diag_key(a)[:6], "\nedited:  ", diag_key(b)[:6])
        return 1 if diag_key(a) != diag_key(b) else 0
    chk = Check("C17", tier, seed)
    thorough = tier == "thorough"
    rnd = random.Random(seed)
    value_frame(chk, "C17")
    lexer_char_frame(chk)
    literal_value_lemmas(chk)
    # lexer lemma: the comment / literal parsers keep the position invariant and consume by
    # logical characters (their C09 contracts, re-verified here on the current tree)
    from .common import run_parallel
    from ..specs import lexer as SL
    jobs = [j for j in SL.lexer_jobs() if j[0] in ("parse_line_comment", "parse_multi_line_comment",
                                                   "parse_string_literal", "parse_char_literal")]
    run_parallel(chk, jobs, SL.INSTALLS, procs=4)

    # known finding K4: digraph / trigraph characters are respelled inside comments, so
    # len(value) is shorter than the displayed width
    k4 = [k for k in chk.known if k["id"] == "K4"]
    if k4:
        w = k4[0]["witness"]
        a, b = native_batch([{"op": "pipeline", "text": w["a"], "name": "a.c"},
                             {"op": "pipeline", "text": w["b"], "name": "a.c"}])
        chk.known_finding("K4", diag_key(a) != diag_key(b))

    t0 = time.time()
    files = sample_files(chk.repo.root, None if thorough else 80)
    for i in range(6 if thorough else 3):
        t = P.conforming_c(rnd, nfunc=2, name=f"gen{i}.c")
        t = t.replace("\tb = 0;\n", "\tb = 0;\n\tft_puts(\"hello world; if (x) { y }\");\n", 1)
        t = t.replace("\nint\tg_x = 0;\n", "\n/*\n** a block comment ; with { code } like = text\n*/\nint\tg_x = 0;\t// tail comment here\n", 1)
        files.append((f"gen{i}.c", t))
    tasks, pairs = [], []
    for name, text in files:
        for _ in range(6 if thorough else 3):
            t2 = opaque_edit(text, rnd)
            if t2 is None or t2 == text:
                continue
            pairs.append((name, text, t2))
            tasks.append({"op": "pipeline", "text": text, "name": name})
            tasks.append({"op": "pipeline", "text": t2, "name": name})
        for t2 in structured_edits(text, 6 if thorough else 3):
            pairs.append((name, text, t2))
            tasks.append({"op": "pipeline", "text": text, "name": name})
            tasks.append({"op": "pipeline", "text": t2, "name": name})
    res = native_batch(tasks)
    fails = []
    for k, (name, a, b) in enumerate(pairs):
        ka, kb = diag_key(res[2 * k]), diag_key(res[2 * k + 1])
        nva, nvb = bool(ka) and ka[0] == "no-verdict", bool(kb) and kb[0] == "no-verdict"
        if ka != kb and not (nva and nvb):
            fails.append(((name, a, b), f"{name}: diagnostics change when the text inside a comment / string is "
                                        f"replaced by code-like text of the same width: {sorted(set(ka) ^ set(kb), key=str)[:4]}"))
    chk.add_bounded("Lexer + Registry.run (whole pipeline), two runs",
                    "replacing the inside of one comment / string literal (outside the 42 header and #include) by "
                    "code-like text of the same width, without delimiters, backslashes, line breaks and without the "
                    "digraph/trigraph characters of K4, leaves every diagnostic unchanged",
                    f"{len(pairs)} (file, edit) pairs over the repository samples and generated files", len(pairs), fails,
                    nontrivial=len(pairs), samples=[{"file": p[0]} for p in pairs[:3]], time_s=time.time() - t0)
    explained = chk.has_unlisted_failure()
    if fails and not explained:
        (name, a, b), m = fails[0]
        chk.report_violation("C17.bounded.opaque", {"property": "C17", "obligation": "C17.bounded.opaque",
                                                    "replay": {"a": a, "b": b, "name": name},
                                                    "confirmed_on_real_code": True}, what=m, confirmed=True)
    chk.assumptions += [
        "the lexer-side lemma (replacing an interior character that is not structural changes neither the number "
        "of characters consumed nor later positions) rests on the C09 contracts of pop and of the comment / literal "
        "parsers plus the character frame above; it is not a separate machine-checked relational proof",
        "known finding K4 (digraph / trigraph characters inside comments shorten len(value)) is excluded",
        "reads-clause decided by an AST scan (consumer identified by file, function, expression text)",
    ]
    return chk.finish(level_if_complete="other", explanation="reads-clause on token values decided by a complete AST scan against the committed clause, SMT lemmas per observation, finite table checks; the relational claim itself (two runs) follows by a hand composition and is exercised by a bounded stand-in only")


if __name__ == "__main__":
    main_wrapper(run)
