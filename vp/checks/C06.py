"""C06 -- the verdict is a pure function of the file."""
import ast
import json
import os
import random
import time

import z3

from .common import Check, main_wrapper, native_batch, run_native
from .frames_common import sample_files, diag_key
from ..frames import scan
from ..pyvc.spec import Contract
from ..pyvc.values import SInt, Builtin, mk_int, int_term, fresh_name
from ..specs import context as C
from ..bounded import programs as P

# every statement that may write state outliving a Context, with its justification
JUSTIFIED_WRITES = {
    ("norminette/rules/rule.py:Rule.__new__", "class attribute cls.context assigned"):
        "rewritten at every instantiation; read only through self.context inside a rule instance created by "
        "Registry.run_rules for the current context before run() is called (obligation run_rules.instance_before_run)",
    ("norminette/rules/rule.py:Rule.__new__", "class attribute cls.name assigned"):
        "always the class name: the same value at every instantiation",
    ("norminette/rules/__init__.py:Rules.__new__", "class attribute cls.__instance assigned"):
        "singleton created once at import of registry.py; read-only afterwards (obligation rules.read_only)",
    ("norminette/rules/is_preprocessor_statement.py:recursion_limit", "sys.setrecursionlimit(...)"):
        "temporary: restored on every exit of the context manager (obligation recursion_limit.restored)",
    ("norminette/errors.py:_formatter.__init_subclass__", "class attribute cls.name assigned"): "class creation (import time)",
    ("norminette/rules/rule.py:Check.__init_subclass__", "class attribute cls.runs_on_start assigned"): "class creation (import time)",
    ("norminette/rules/rule.py:Check.__init_subclass__", "class attribute cls.runs_on_rule assigned"): "class creation (import time)",
    ("norminette/rules/rule.py:Check.__init_subclass__", "class attribute cls.runs_on_end assigned"): "class creation (import time)",
    ("norminette/rules/rule.py:Check.__init_subclass__", "class attribute cls.depends_on assigned"): "class creation (import time)",
    ("norminette/rules/rule.py:Primary.__init_subclass__", "class attribute cls.priority assigned"): "class creation (import time)",
    ("norminette/rules/rule.py:Primary.__init_subclass__", "class attribute cls.scope assigned"): "class creation (import time)",
}


def recursion_limit_contract():
    """@contextmanager recursion_limit(limit): the process recursion limit after the with
    statement equals the one before it, whether the body completes or raises"""
    holder = {}

    def setup(E, st):
        cur = z3.Int(fresh_name("reclimit"))
        st.ghost["reclimit"] = cur
        holder["old"] = cur
        E.contextmanager_mode = True
        orig = E.pymodule_attr

        def pymodule_attr(mod, attr):
            if mod.name == "sys" and attr == "getrecursionlimit":
                return Builtin("sys.getrecursionlimit", lambda E_, s, a, k: [(s, mk_int(s.ghost["reclimit"]))])
            if mod.name == "sys" and attr == "setrecursionlimit":
                def setl(E_, s, a, k):
                    s.ghost["reclimit"] = int_term(a[0])
                    return [(s, None)]
                return Builtin("sys.setrecursionlimit", setl)
            return orig(mod, attr)
        E.pymodule_attr = pymodule_attr
        E.spec_builtins["reclimit"] = Builtin("reclimit", lambda E_, s, a, k: [(s, mk_int(s.ghost["reclimit"]))])
        return {"limit": E.fresh_value(st, "int", "limit")}
    c = Contract("norminette/rules/is_preprocessor_statement.py:recursion_limit", setup=setup)
    c.rais("BodyException")
    c.ens("reclimit() == old(reclimit())", "restored_after_normal_exit")
    c.ens_exc("BodyException", "reclimit() == old(reclimit())", "restored_after_exception")
    return c


def ast_obligations(chk):
    repo = chk.repo
    # run_rules: the instance is created from the current context before run() is called
    f = repo.find_function("norminette/registry.py:Registry.run_rules")
    first = f.node.body[0]
    params = [a.arg for a in f.node.args.args]          # (self, <context>, <rule class>) whatever they are called
    ok = len(params) == 3 and isinstance(first, ast.Assign) and isinstance(first.value, ast.Call) \
        and isinstance(first.value.func, ast.Name) and first.value.func.id == params[2] \
        and [ast.unparse(a) for a in first.value.args] == [params[1]]
    runs = [x for x in ast.walk(f.node) if isinstance(x, ast.Call) and isinstance(x.func, ast.Attribute) and x.func.attr == "run"]
    ok = ok and all(x.lineno > first.lineno for x in runs) and len(runs) >= 1
    chk.frame("run_rules.instance_before_run", ok, {"first_statement": ast.unparse(first)},
              what="Registry.run_rules no longer instantiates the rule with the current context before calling run()")
    # rules singleton is never written after creation
    writes = []
    for rel, tree in scan.iter_modules(repo):
        for x in ast.walk(tree):
            if isinstance(x, ast.Attribute) and isinstance(x.ctx, (ast.Store, ast.Del)) and x.attr in ("primaries", "checks", "all") \
                    and not (rel == "norminette/rules/__init__.py"):
                writes.append(f"{rel}:{x.lineno}")
            if isinstance(x, ast.Call) and isinstance(x.func, ast.Attribute) and x.func.attr in ("append", "remove", "sort", "pop", "insert", "extend", "reverse") \
                    and isinstance(x.func.value, ast.Attribute) and x.func.value.attr in ("primaries", "checks"):
                writes.append(f"{rel}:{x.lineno} {ast.unparse(x.func)}")
    chk.frame("rules.read_only", not writes, {"writes": writes}, what=f"rules.primaries/checks are modified: {writes}")
    # ordering independent of the directory listing: primaries sorted by priority, every
    # dependency list sorted by name
    init = repo.find_function("norminette/rules/__init__.py:Rules.__init__")
    src = ast.unparse(init.node)
    def sorted_with_key(node, word):
        """a sorted(...) call (or .sort) whose key mentions `word`"""
        for c in ast.walk(node):
            if isinstance(c, ast.Call) and (isinstance(c.func, ast.Name) and c.func.id == "sorted"
                                            or isinstance(c.func, ast.Attribute) and c.func.attr == "sort"):
                if any(k.arg == "key" and word in ast.unparse(k.value) for k in c.keywords):
                    return True
        return False
    ok_p = any(isinstance(a, ast.Assign) and "primaries" in ast.unparse(a.targets[0]) and sorted_with_key(a.value, "priority")
               for a in ast.walk(init.node))
    chk.frame("rules.primaries_sorted_by_priority", ok_p, {"source": [l for l in src.split("\n") if "primaries" in l]},
              what="Rules.__init__ no longer sorts the primaries by priority")
    rinit = repo.find_function("norminette/registry.py:Registry.__init__")
    loops = [x for x in ast.walk(rinit.node) if isinstance(x, ast.For)]
    ok_d, seen_table_loop = False, False
    for lp in loops:
        it = lp.iter
        # `for name, deps in self.<table>.items():` -- the table of dependency lists, whatever it is called
        if isinstance(it, ast.Call) and isinstance(it.func, ast.Attribute) and it.func.attr == "items" \
                and isinstance(it.func.value, ast.Attribute) and ast.unparse(it.func.value.value) == "self":
            seen_table_loop = True
            table = ast.unparse(it.func.value)
            # any key that ends in the class name is a total order on the classes (names are unique),
            # whatever comes before it
            ok_d = ok_d or any(isinstance(a, ast.Assign) and isinstance(a.targets[0], ast.Subscript)
                               and ast.unparse(a.targets[0].value) == table and sorted_with_key(a.value, "__name__")
                               for a in ast.walk(lp))
    if not seen_table_loop:
        # no loop over a table of self in Registry.__init__: how the lists are ordered is not recognised
        from .common import Item
        chk.items.append(Item("C06.registry.every_dependency_list_sorted_by_name", "frame-scan", "undecided", "frame-scan", 0.0, {}))
        chk.undecided.append("C06.registry.every_dependency_list_sorted_by_name: the loop that orders the dependency lists was "
                             "not recognised; the shuffled-directory histories of the bounded stand-in decide")
    else:
        chk.frame("registry.every_dependency_list_sorted_by_name", ok_d, {},
                  what="Registry.__init__ no longer sorts every dependency list by class name")
    # mutable default arguments are only read
    ctx_init = repo.find_function("norminette/context.py:Context.__init__")
    muts = []
    for x in ast.walk(ctx_init.node):
        if isinstance(x, ast.Call) and isinstance(x.func, ast.Attribute) and isinstance(x.func.value, ast.Name) \
                and x.func.value.id == "added_value":
            muts.append(ast.unparse(x))
        if isinstance(x, (ast.Subscript, ast.Attribute)) and isinstance(getattr(x, "ctx", None), ast.Store) \
                and isinstance(x.value, ast.Name) and x.value.id == "added_value":
            muts.append(ast.unparse(x))
    chk.frame("context.mutable_default_only_read", not muts, {"mutations": muts},
              what=f"the mutable default added_value=[] is mutated: {muts}")
    # fresh per-file objects
    src = ast.unparse(ctx_init.node)
    fresh = all(s in src for s in ("self.history = []", "self.scope = GlobalScope()", "self.preproc = PreProcessors()"))
    finit = ast.unparse(repo.find_function("norminette/file.py:File.__init__").node)
    fresh = fresh and "self.errors = Errors()" in finit
    chk.frame("fresh_state_per_file", fresh, {}, what="Context / File no longer create fresh history, scope, preproc, errors")
    main = repo.find_function("norminette/__main__.py:main")
    # the loop(s) of main() that walk the list of files (whatever the list is called): top-level for loops
    # over a plain name
    loop = [x for x in main.node.body if isinstance(x, ast.For) and isinstance(x.iter, ast.Name)]
    # ... seen through helper functions defined in main() or at module level (one object per call)
    helpers = {d.name: d for d in ast.walk(repo.module("norminette/__main__.py").tree) if isinstance(d, ast.FunctionDef)}
    built = set()

    def constructions(node, depth=0):
        for x in ast.walk(node):
            if isinstance(x, ast.Call):
                nm = ast.unparse(x.func)
                if nm in ("Lexer", "Context") and x.args and isinstance(x.args[0], ast.Name):
                    built.add(nm)
                if nm in helpers and nm != "main" and depth < 3:
                    constructions(helpers[nm], depth + 1)
    for lp in loop:
        constructions(lp)
    chk.frame("main.new_lexer_and_context_per_file", built == {"Lexer", "Context"}, {"built_in_the_loop": sorted(built)},
              what="main() no longer builds a new Lexer and Context for every file")


def bounded(chk, seed, thorough):
    rnd = random.Random(seed)
    files = sample_files(chk.repo.root, 40 if thorough else 12)
    files += [("gen.c", P.conforming_c(rnd, 2)), ("gen.h", P.conforming_h()),
              ("fatal_if.c", "#if (1\nint\tmain(void)\n{\n\treturn (0);\n}\n"),
              ("fatal.c", "int\tmain(void)\n{\n\treturn (0);\n}\n]\n"),
              ("fatal_nest.c", "int\tmain(void)\n{\n\tft_f((1);\n}\n"),
              ("fatal_pending.c", "int\tmain(void)\n{\n\t) (\n}\n"),
              ("nested_if.c", "#if " + "(" * 40 + "1" + ")" * 40 + "\n#endif\n"),
              ("deep_expr.c", "int\tmain(void)\n{\n\treturn (" + "(" * 150 + "1" + ")" * 150 + ");\n}\n")]
    t0 = time.time()
    res = run_native("history_harness", {"files": files, "seed": seed, "orders": 6 if thorough else 3}, timeout=1200)
    return res, time.time() - t0


def run(tier, seed, replay):
    if replay:
        rp = json.load(open(replay))
        task = rp.get("replay")
        if not task:
            print(json.dumps(rp.get("verifier_output"), indent=1)[:3000])
            return 1
        r = run_native("history_harness", task, timeout=600)
        print(json.dumps(r["violations"][:2], indent=1)[:2000])
        return 1 if r["violations"] else 0
    chk = Check("C06", tier, seed)
    thorough = tier == "thorough"
    found = {}

    def search():
        if "r" not in found:
            found["r"] = bounded(chk, seed, thorough)
        return found["r"]

    def replay_hist(ob, model):
        res, _ = search()
        for v in res["violations"]:
            return True, v["what"], v["task"]
        return None

    # 1. writes-frame
    t0 = time.time()
    writes = scan.global_writes(chk.repo) + scan.long_lived_writes(chk.repo)
    keys = {(w["where"], w["what"]) for w in writes}
    # an assignment to a class attribute inside __init_subclass__ runs once per class, when the
    # class statement is executed (import time, before any file is looked at): whatever its name
    just = dict(JUSTIFIED_WRITES)
    for k in keys:
        if k not in just and k[0].endswith(".__init_subclass__") and k[1].startswith("class attribute cls.") \
                and k[1].endswith(" assigned"):
            just[k] = "class creation (import time)"
    unjust = sorted(k for k in keys if k not in just)
    for k in sorted(keys):
        if k in just:
            chk.frame(f"frame.write[{k[0]} {k[1]}]", True, {"justification": just[k]})
    for k in unjust:
        rp = replay_hist(None, None)
        chk.frame(f"frame.write[{k[0]} {k[1]}]", False, {"where": k[0], "what": k[1]},
                  what=f"state that outlives a Context is written at {k[0]}: {k[1]}",
                  replay=rp[2] if rp else None)
    chk.frame("frame.process_lifetime_writes_are_justified", not unjust, {"writes": len(keys), "unjustified": unjust},
              what=f"unjustified writes to process-lifetime state: {unjust}", time_s=time.time() - t0)
    ast_obligations(chk)

    # 2. helpers copy module-level lists before mutating them (frame.global obligations of the contracts)
    E = chk.engine()
    for c in C.contracts():
        if c.key.endswith("skip_ws") or c.key.endswith("eol"):
            chk.run_contract(E, c, replay=replay_hist)
    # 3. the recursion limit is restored on every exit
    E2 = chk.engine()
    chk.run_contract(E2, recursion_limit_contract(), replay=replay_hist)

    # 4. bounded: histories
    res, dt = search()
    chk.add_bounded("Lexer + Context + Registry.run in one process (module-level Registry shared)",
                    "diagnostics of a file are the same alone, twice, and after any other file (clean, erroneous, "
                    "fatal, other type); the rule order does not depend on the directory listing order",
                    res["bound"], res["cases"], res["violations"], nontrivial=res["nontrivial"],
                    samples=res["samples"], time_s=dt)
    explained = chk.has_unlisted_failure()
    if res["violations"] and not explained:
        v = res["violations"][0]
        chk.report_violation("C06.bounded.histories", {"property": "C06", "obligation": "C06.bounded.histories",
                                                       "replay": v["task"], "confirmed_on_real_code": True},
                             what=v["what"], confirmed=True)
    chk.assumptions += [
        "the writes-frame is an AST scan for: assignments to globals / class attributes / attributes of module-level "
        "objects, mutation of module-level containers through their own name, sys.set*; aliasing of module-level "
        "lists is covered for the helpers under contract (skip_ws, eol) by their frame.global obligations only",
        "sorted() is deterministic for distinct keys (priorities and class names are distinct: finite checks in C07)",
        "the '#if' parser's verdict 'too complex' depends on the caller's stack depth at entry (CPython): noted, not claimed",
    ]
    return chk.finish()


if __name__ == "__main__":
    main_wrapper(run)
