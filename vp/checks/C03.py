"""C03 -- numeric limits are exact at their boundary."""
import json
import time

from .common import Check, main_wrapper, native_batch
from ..specs import context as C, limits as L
from ..bounded import limits as BL


def search_lines(chk, thorough, seed):
    cases = BL.line_cases(range(77, 87), seed, thorough)
    t0 = time.time()
    res = native_batch([{"op": "pipeline", "text": c["text"], "name": "a.c"} for c in cases])
    fails = []
    for c, r in zip(cases, res):
        m = BL.check_line_case(c, r)
        if m:
            fails.append((c, m))
    return cases, fails, time.time() - t0


def search_counters(chk, thorough):
    cases = BL.counter_cases(thorough)
    t0 = time.time()
    res = native_batch([{"op": "pipeline", "text": c["text"], "name": "a.c"} for c in cases])
    fails = []
    for c, r in zip(cases, res):
        m = BL.check_counter_case(c, r)
        if m:
            fails.append((c, m))
    return cases, fails, time.time() - t0


def run(tier, seed, replay):
    if replay:
        rp = json.load(open(replay))
        task = rp.get("replay")
        if not task:
            print("replay file carries no concrete input (no-failing-input-found); verifier output:")
            print(json.dumps(rp.get("verifier_output"), indent=1)[:3000])
            return 1
        r = native_batch([task])[0]
        msg = BL.check_line_case({"text": task["text"]}, r)
        print("observed:", [(e["name"], e["highlights"][0][:2]) for e in r["errors"]])
        print("verdict:", msg or "statement holds on this input")
        return 1 if msg else 0
    chk = Check("C03", tier, seed)
    from .frames_common import file_source_obligations
    file_source_obligations(chk)
    thorough = tier == "thorough"
    E = chk.engine()
    for c in C.contracts():
        E.contracts.setdefault(c.key, c)

    line_search = {}

    def replay_lines(kinds):
        def rp(ob, model):
            if "r" not in line_search:
                line_search["r"] = search_lines(chk, thorough, seed)
            cases, fails, _ = line_search["r"]
            for c, m in fails:
                if c["kind"] in kinds:
                    return True, f"{m} [{c['kind']}, width {c['w']}, {c['pos']} of file]", \
                        {"op": "pipeline", "text": c["text"], "name": "a.c", "expect": m}
            return None
        return rp

    replays = {
        "CheckLineLen.run": replay_lines(("code", "line-comment", "block-first", "block-interior", "block-last")),
        "CheckCommentLineLen.run": replay_lines(("line-comment", "block-first", "block-interior", "block-last")),
    }
    for c in L.contracts():
        chk.run_contract(E, c, replay=replays.get(c.key.split(":")[1]))
    # the functions counter: IsFuncDeclaration.run counts exactly one function per match
    from ..specs import registry as SR
    E3 = chk.engine()
    SR.install(E3)
    fd, cff = SR.func_declaration()
    E3.contracts[cff.key] = cff
    chk.run_contract(E3, fd)
    # who may write the counters (complete AST facts)
    import ast as _ast
    from ..frames import scan as _scan
    writers = {"functions": set(), "vars": set(), "lines": set()}
    for rel, tree in _scan.iter_modules(chk.repo):
        par = _scan.parents(tree)
        for x in _ast.walk(tree):
            if isinstance(x, _ast.Attribute) and isinstance(x.ctx, (_ast.Store, _ast.Del)) and x.attr in writers:
                # by class: a helper method of the counting rule is still the counting rule
                fn = _scan.enclosing_function(x, par)
                writers[x.attr].add(f"{rel}:{fn.split('.')[0] if '.' in fn else fn}")
    allowed = {
        # CheckBlockStart.run decrements it only under `context.scope.tmp_scope is not None`; tmp_scope
        # is never assigned anything but None (obligation frame.scope.tmp_scope_is_always_None)
        "functions": {"norminette/scope.py:GlobalScope", "norminette/rules/is_func_declaration.py:IsFuncDeclaration",
                      "norminette/rules/check_block_start.py:CheckBlockStart"},
        "vars": {"norminette/scope.py:Scope", "norminette/rules/check_variable_declaration.py:CheckVariableDeclaration"},
        "lines": {"norminette/scope.py:Scope", "norminette/rules/check_line_count.py:CheckLineCount"},
    }
    non_none = []
    guarded = True
    for rel, tree in _scan.iter_modules(chk.repo):
        for x in _ast.walk(tree):
            if isinstance(x, _ast.Assign) and any(isinstance(t, _ast.Attribute) and t.attr == "tmp_scope" for t in x.targets) \
                    and not (isinstance(x.value, _ast.Constant) and x.value.value is None):
                non_none.append(f"{rel}:{x.lineno}")
    cbs = chk.repo.find_function("norminette/rules/check_block_start.py:CheckBlockStart.run")
    for x in _ast.walk(cbs.node):
        if isinstance(x, _ast.AugAssign) and isinstance(x.target, _ast.Attribute) and x.target.attr == "functions":
            par = _scan.parents(cbs.node)
            n, ok_guard = x, False
            while n in par:
                n = par[n]
                if isinstance(n, _ast.If) and "tmp_scope is not None" in _ast.unparse(n.test):
                    ok_guard = True
            guarded = guarded and ok_guard
    chk.frame("frame.scope.tmp_scope_is_always_None", not non_none and guarded, {"non_none_assignments": non_none,
                                                                              "decrement_guarded_by_tmp_scope": guarded},
              what="CheckBlockStart's `functions -= 1` is reachable: tmp_scope can be set, or the decrement is no longer "
                   "guarded by `tmp_scope is not None`")
    for k in writers:
        extra = sorted(writers[k] - allowed[k])
        chk.frame(f"frame.scope.{k}.written_only_by_its_counter", not extra, {"writers": sorted(writers[k])},
                  what=f"scope.{k} is written outside its counting rule: {extra}")

    # ---- bounded stand-ins for the composition assumptions (labelled bounded) ----
    if "r" not in line_search:
        line_search["r"] = search_lines(chk, thorough, seed)
    cases, fails, dt = line_search["r"]
    chk.add_bounded("Lexer + Registry.run (whole pipeline)",
                    "a line is reported LINE_TOO_LONG iff its width (tab stops of 4) exceeds 80",
                    "widths 77..86 x {code, // comment, first/interior/last line of a block comment} x "
                    "{start, middle, end of file} x %d tab/text prefixes" % (5 if thorough else 3),
                    len(cases), fails, nontrivial=len({(c["kind"], c["w"], c["pos"]) for c in cases}),
                    samples=[{"kind": c["kind"], "w": c["w"], "text": c["text"][:120]} for c in cases[:3]], time_s=dt)
    explained = chk.has_unlisted_failure()
    for c, m in fails:
        if not explained:
            chk.report_violation("C03.bounded.line_width", {
                "property": "C03", "obligation": "C03.bounded.line_width (bounded stand-in)",
                "replay": {"op": "pipeline", "text": c["text"], "name": "a.c", "expect": m},
                "confirmed_on_real_code": True}, what=m, confirmed=True)
            break
    cases2, fails2, dt2 = search_counters(chk, thorough)
    chk.add_bounded("Lexer + Registry.run (whole pipeline)",
                    "A3.1-A3.3: TOO_MANY_LINES iff body > 25 lines; TOO_MANY_FUNCS iff > 5 functions; "
                    "TOO_MANY_ARGS iff > 4 parameters; TOO_MANY_VARS_FUNC iff > 5 variables",
                    "body 22..31 lines x 4 nesting shapes x {0,2} declarations x {first, second function}; "
                    "1..8 functions; 0..8 parameters x {definition, prototype+definition}; 0..9 variables",
                    len(cases2), fails2, nontrivial=len({(c["kind"], c["n"]) for c in cases2}),
                    samples=[{"kind": c["kind"], "n": c["n"]} for c in cases2[:3]], time_s=dt2)
    for c, m in fails2[:1]:
        chk.report_violation("C03.bounded.counters", {
            "property": "C03", "obligation": "C03.bounded.counters (bounded stand-in)",
            "replay": {"op": "pipeline", "text": c["text"], "name": "a.c", "expect": m},
            "confirmed_on_real_code": True}, what=m, confirmed=True)
    chk.assumptions += [
        "IsFuncDeclaration.check_func_format is used through an assumed call-site contract (a match reports a "
        "position >= 1; it does not write scope.functions: complete AST fact)",
        "composition assumptions A3.1-A3.3 (scope.lines == body lines + 1 at the closing brace; functions / vars "
        "count definitions / declarations) are only checked by the bounded stand-in",
        "width lemma: a newline-terminated line of width w ends with a NEWLINE token at column w+1 (from the C09 "
        "position contract); last line without newline and lines ending inside a spliced string are not covered",
        "comment value has one character per column (false for digraphs/trigraphs inside comments: known finding "
        "under C17)",
    ]
    from ..models.strings import TRUSTED
    chk.trusted += TRUSTED
    return chk.finish(explanation="contracts on the limit checks discharged by z3; composition with the rule "
                      "engine covered by a bounded stand-in only")


if __name__ == "__main__":
    main_wrapper(run)
