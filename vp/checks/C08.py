"""C08 -- reports are well-formed, ordered and identical in both output formats."""
import ast
import itertools
import json
import time

import z3

from .common import Check, main_wrapper, native_batch, run_native, mval, mbool, mstr
from ..specs import context as C, errors as SE
from ..pyvc.values import ListCell, DictCell


def solve(conj, timeout_ms):
    s = z3.Solver()
    s.set("timeout", timeout_ms)
    s.add(*conj)
    t0 = time.time()
    r = s.check()
    return str(r), time.time() - t0, (s.model() if r == z3.sat else None)


def hl_copy(tag):
    return SE.HL(tag)


def concretise_error(m, name, hl, maxn=4):
    n = max(0, min(maxn, mval(m, hl.n)))
    hs = []
    for i in range(n):
        none = mbool(m, z3.Select(hl.hnone, i))
        hs.append([mval(m, z3.Select(hl.line, i)), mval(m, z3.Select(hl.col, i)), None,
                   None if none else mstr(m, z3.Select(hl.hint, i))])
    return {"name": mstr(m, name), "highlights": hs}



def highlight_order_uses(repo):
    """places in norminette/ where Highlight objects (or lists of them) are ordered"""
    import ast
    from ..frames import scan
    out = []
    order_calls = {"min", "max", "sorted", "nsmallest", "nlargest", "heapify", "heappush", "merge"}
    for rel, tree in scan.iter_modules(repo):
        bound = set()           # names bound to a Highlight / a list of them, judged by the right-hand side
        for node in ast.walk(tree):
            if not isinstance(node, ast.Assign):
                continue
            vals = node.value.elts if isinstance(node.value, ast.Tuple) else None
            for t in node.targets:
                tgts = t.elts if isinstance(t, ast.Tuple) else [t]
                for k, tg in enumerate(tgts):
                    v = vals[k] if vals is not None and len(vals) == len(tgts) else node.value
                    if isinstance(tg, ast.Name) and holds_highlights(v, bound):
                        bound.add(tg.id)
        for node in ast.walk(tree):
            if isinstance(node, ast.Call):
                f = node.func
                name = f.id if isinstance(f, ast.Name) else f.attr if isinstance(f, ast.Attribute) else None
                if name in order_calls and any(holds_highlights(x, bound) for x in node.args):
                    out.append(f"{rel}:{node.lineno} {ast.unparse(node)[:60]}")
                if name == "sort" and isinstance(f, ast.Attribute) and holds_highlights(f.value, bound):
                    out.append(f"{rel}:{node.lineno} {ast.unparse(node)[:60]}")
            if isinstance(node, ast.Compare) and any(isinstance(o, (ast.Lt, ast.Gt, ast.LtE, ast.GtE)) for o in node.ops):
                if any(holds_highlights(x, bound) for x in [node.left] + node.comparators):
                    out.append(f"{rel}:{node.lineno} {ast.unparse(node)[:60]}")
    return out


def holds_highlights(e, bound):
    """syntactic: the expression denotes a Highlight or a collection of Highlights (`x.highlights`,
    an element or slice of it, a constructor call, a name bound to one of these, a comprehension
    over them) -- not an attribute of one (`h.column` is an int)"""
    import ast
    if isinstance(e, ast.Name):
        return e.id in bound
    if isinstance(e, ast.Attribute):
        return e.attr == "highlights"
    if isinstance(e, (ast.Subscript, ast.Starred)):
        return holds_highlights(e.value, bound)
    if isinstance(e, ast.Call):
        f = e.func
        if isinstance(f, ast.Name) and f.id in ("Highlight", "H", "list", "tuple", "iter", "reversed"):
            return f.id in ("Highlight", "H") or any(holds_highlights(a, bound) for a in e.args)
        return isinstance(f, ast.Attribute) and f.attr in ("from_token", "copy") and \
            (holds_highlights(f.value, bound) or ast.unparse(f.value) in ("Highlight", "H"))
    if isinstance(e, (ast.GeneratorExp, ast.ListComp)):
        return holds_highlights(e.elt, bound | {g.target.id for g in e.generators
                                                if isinstance(g.target, ast.Name) and holds_highlights(g.iter, bound)})
    if isinstance(e, (ast.List, ast.Tuple)):
        return bool(e.elts) and all(holds_highlights(x, bound) for x in e.elts)
    if isinstance(e, ast.IfExp):
        return holds_highlights(e.body, bound) or holds_highlights(e.orelse, bound)
    return False

def run(tier, seed, replay):
    if replay:
        rp = json.load(open(replay))
        task = rp.get("replay")
        if not task:
            print("no concrete input in this replay file; verifier output:")
            print(json.dumps(rp.get("verifier_output"), indent=1)[:3000])
            return 1
        if task.get("op") == "position_one":
            r = native_batch([{"op": "pipeline", "text": task["text"], "name": task["name"]}])[0]
            t = task["text"]
            nlines = max(1, t.count("\n") + (0 if t.endswith("\n") else 1))
            bad = [(e["name"], h[0], h[1]) for e in r["errors"] for h in e["highlights"][:1]
                   if not (1 <= h[0] <= nlines and h[1] >= 1)]
            print(f"file of {nlines} lines; diagnostics outside it: {bad}")
            return 1 if bad else 0
        r = run_native("errors_harness", task)
        print(json.dumps(r, indent=1)[:3000])
        return 1 if r.get("violations") else 0

    chk = Check("C08", tier, seed)
    E = chk.engine()
    T = chk.timeout_ms

    # ---------------------------------------------------------------- 1. comparator laws
    comp = SE.Comparator(E)
    # Highlight.__lt__ carries a part of the property only where the product orders Highlight
    # objects (min / max / sorted / sort / heapq over highlights, or `<` between two of them):
    # Error.__lt__ at HEAD reads line and column of highlights[0] itself.  Without such a use a
    # change to Highlight.__lt__ changes nothing a user can see, and its laws are not obligations.
    uses = highlight_order_uses(chk.repo)
    chk.notes.append("Highlight.__lt__ is " + (f"used to order highlights at {uses[:3]}: its laws are obligations" if uses else
                                                "called by no product code (no min / max / sorted / sort / ordering comparison "
                                                "over Highlight objects): its laws are not obligations of this run"))
    if uses:
        chk.functions.append({"function": SE.ERR + ":Highlight.__lt__", "paths": comp.paths["Highlight.__lt__"],
                              "source_hash": chk.repo.func_hash(chk.repo.find_function(SE.ERR + ":Highlight.__lt__"))})
        r, dt, _ = solve([comp.ltH_exc], T)
        chk.smt("Highlight.__lt__.raises_nothing", r, dt, {"claim": "no path of Highlight.__lt__ raises"})

        def H(tag):
            return [z3.Int(tag + "l"), z3.Int(tag + "c"), z3.Bool(tag + "n"), z3.String(tag + "s")]
        a, b, c = H("a"), H("b"), H("c")
        lt = comp.ltH
        laws = {
            "irreflexive": [lt(*a, *a)],
            "asymmetric": [lt(*a, *b), lt(*b, *a)],
            "transitive": [lt(*a, *b), lt(*b, *c), z3.Not(lt(*a, *c))],
            "incomparability_transitive": [z3.Not(lt(*a, *b)), z3.Not(lt(*b, *a)), z3.Not(lt(*b, *c)),
                                           z3.Not(lt(*c, *b)), z3.Or(lt(*a, *c), lt(*c, *a))],
        }
        for name, conj in laws.items():
            r, dt, _ = solve(conj, T)
            chk.smt(f"Highlight.__lt__.strict_weak_order.{name}", r, dt,
                    {"claim": f"real Highlight.__lt__ (summary by symbolic execution) is {name}"})

    f, exc, assumptions = comp.summarize_error_lt()
    chk.functions.append({"function": SE.ERR + ":Error.__lt__", "paths": comp.paths["Error.__lt__"],
                          "source_hash": chk.repo.func_hash(chk.repo.find_function(SE.ERR + ":Error.__lt__"))})
    A, Bq = comp.A, comp.Bq
    r, dt, _ = solve(assumptions + [exc], T)
    chk.smt("Error.__lt__.raises_nothing", r, dt, {"claim": "no path of Error.__lt__ raises"})

    # instances of ltE for other pairs are obtained by substitution of the summary; the
    # argmin witnesses inside it are existential, so laws are checked on the printed key
    # characterisation below instead of on raw substitution.

    # ---------------------------------------------------------------- 2. sort key = printed key
    # for well-formed errors (>= 1 highlight): not (b < a)  ==>  printed(a) <= printed(b)
    wf = [A.n >= 1, Bq.n >= 1]
    pa = (z3.Select(A.line, 0), z3.Select(A.col, 0))
    pb = (z3.Select(Bq.line, 0), z3.Select(Bq.col, 0))
    le = z3.Or(pa[0] < pb[0], z3.And(pa[0] == pb[0], pa[1] <= pb[1]))
    lt_printed = z3.Or(pa[0] < pb[0], z3.And(pa[0] == pb[0], pa[1] < pb[1]))
    # (i) a < b implies printed(a) <= printed(b); (ii) printed(a) < printed(b) implies a < b.
    # With list.sort's trusted contract (adjacent elements: not (e[i+1] < e[i])) (ii) gives
    # ascending printed order: if printed(e[i+1]) < printed(e[i]) then e[i+1] < e[i].
    small = [A.n <= 3, Bq.n <= 3] + [z3.And(z3.Select(h.line, i) >= 1, z3.Select(h.line, i) <= 4,
                                            z3.Select(h.col, i) >= 1, z3.Select(h.col, i) <= 4)
                                     for h in (A, Bq) for i in range(3)]
    for nm, conj in (("lt_implies_printed_le", [f, z3.Not(le)]),
                     ("printed_lt_implies_lt", [lt_printed, z3.Not(f)])):
        r, dt, m = solve(assumptions + wf + conj, T)
        rp = None
        what = None
        if r == "sat":
            r2, _, m2 = solve(assumptions + wf + small + conj, T)
            m = m2 or m
            ea, eb = concretise_error(m, comp.na, A), concretise_error(m, comp.nb, Bq)
            task = {"op": "order", "errors": [ea, eb]}
            nat = run_native("errors_harness", task)
            rp = dict(task)
            rp["confirmed"] = bool(nat.get("violations"))
            rp["observed"] = nat
            what = f"errors are sorted by a key that is not the printed position: {nat.get('violations')}"
        chk.smt(f"Error.__lt__.sort_key_is_printed_key.{nm}", r, dt,
                {"claim": "for errors with >= 1 highlight the order used by Errors.__iter__ agrees with the "
                          "(line, column) of highlights[0], which is what both formatters print"},
                replay=rp, what=what)

    # tie-break on equal printed keys: a < b iff a.name < b.name
    # (two diagnostics with the same position and the same name print the same line whichever
    # comes first: nothing is claimed for them)
    r, dt, _ = solve(assumptions + wf + [pa[0] == pb[0], pa[1] == pb[1], comp.na != comp.nb, f != (comp.na < comp.nb)], T)
    chk.smt("Error.__lt__.ties_broken_by_name", r, dt,
            {"claim": "equal printed positions, different names: a < b iff a.name < b.name"})

    # ---------------------------------------------------------------- 3. catalogue
    t0 = time.time()
    st = __import__("vp.pyvc.state", fromlist=["State"]).State()
    cat_ref = E.module_global(st, "norminette/norm_error.py", "errors")
    catalogue = dict(st.cell(cat_ref).d)
    sites = SE.catalogue_scan(chk.repo)
    bad, fstr, nconst = [], [], 0
    for rel, line, callee, arg in sites:
        if isinstance(arg, ast.Constant) and isinstance(arg.value, str):
            nconst += 1
            if arg.value not in catalogue:
                bad.append(f"{rel}:{line} {callee}({arg.value!r})")
        elif isinstance(arg, ast.JoinedStr):
            fstr.append((rel, line, ast.unparse(arg)))
        elif isinstance(arg, (ast.Name, ast.Subscript, ast.Attribute, ast.Starred)):
            pass        # forwarded value (errno, error, name, args[0]): covered at the forwarding call sites
        elif isinstance(arg, ast.Call):
            pass        # an Error built in place (`errors.add(Error.from_name(...))`): that inner call is a site itself
        elif isinstance(arg, ast.IfExp) and all(isinstance(x, ast.Constant) and isinstance(x.value, str) for x in (arg.body, arg.orelse)):
            for x in (arg.body, arg.orelse):
                nconst += 1
                if x.value not in catalogue:
                    bad.append(f"{rel}:{line} {callee}({x.value!r})")
        else:
            bad.append(f"{rel}:{line} {callee}(<{type(arg).__name__}>)")     # a name computed from pieces
    # names outside the catalogue are acceptable only in branches proved dead (obligations below)
    dead = {"EXPECTED_BRACE": "C03.CheckBrace.run.post.only",
            "FORBIDDEN_IN_HEADER": "C08.CheckInHeader.run.post.silent",
            "": "C08.CheckOperatorsSpacing.check_prefix.post.no_empty_name"}
    adhoc_sites = [b for b in bad if "Error()" in b]
    real_bad = []
    for b in bad:
        if b in adhoc_sites:
            continue
        nm = b[b.index("(") + 1:-1].strip("'\"")
        if nm not in dead:
            real_bad.append(b)
    chk.finite("catalogue.constant_names", not real_bad, nconst,
               {"not_in_catalogue": bad, "dead_branch_obligations": dead},
               what=f"diagnostic names not in the catalogue: {real_bad}", time_s=time.time() - t0)
    for c in SE.dead_branch_contracts():
        chk.run_contract(E, c)
    # f-strings: enumerate what their guards allow
    fs_ok, fs_detail = True, []
    for rel, line, txt in fstr:
        if "INVALID_" in txt and "_INT" in txt:
            names = [f"INVALID_{n}_INT" for n in ("BIN", "OCT", "HEX")]
        elif "FORBIDDEN_" in txt:
            names = ["FORBIDDEN_STRUCT", "FORBIDDEN_UNION", "FORBIDDEN_ENUM", "FORBIDDEN_TYPEDEF"]
        elif "No matchable token" in txt:
            continue
        else:
            names = None
        miss = [n for n in (names or []) if n not in catalogue]
        fs_detail.append({"site": f"{rel}:{line}", "expr": txt, "expands_to": names, "missing": miss})
        if names is None or miss:
            fs_ok = False
    chk.finite("catalogue.computed_names", fs_ok, len(fstr), {"sites": fs_detail},
               what=f"computed diagnostic name outside the catalogue: {fs_detail}")
    # Error(name, text) built outside the catalogue (ad-hoc text)
    adhoc = [f"{rel}:{line} {arg.value}" for rel, line, callee, arg in sites if callee == "Error()"
             and isinstance(arg, ast.Constant) and arg.value not in catalogue]
    nat = run_native("errors_harness", {"op": "lexname", "text": "int a @ b;\n"}) if adhoc else {"violations": []}
    if not adhoc:
        chk.finite("catalogue.adhoc_errors", True, len(sites), {"sites": []})
    for site in adhoc:
        nm = site.split(" ")[-1]
        chk.finite(f"catalogue.adhoc_errors[{nm}]", False, len(sites), {"site": site, "native": nat},
                   replay={"op": "lexname", "text": "int a @ b;\n"} if nm in nat["violations"] else None,
                   what=f"diagnostic {nm} is built with an ad-hoc text outside the catalogue ({site})")

    # from_name: complete evaluation over the catalogue on the real function
    t0 = time.time()
    nat = run_native("errors_harness", {"op": "from_name"})
    chk.finite("Error.from_name.catalogue_text", not nat["violations"], nat["cases"], {"violations": nat["violations"][:5]},
               replay={"op": "from_name"}, what=f"Error.from_name disagrees with the catalogue: {nat['violations'][:3]}",
               time_s=time.time() - t0)

    # ---------------------------------------------------------------- 3b. new_error / new_warning bodies
    E2 = chk.engine()
    SE.install(E2)
    for c in SE.new_error_contracts():
        E2.contracts.pop(c.key, None)      # verify the real body, do not use its call-site contract
        chk.run_contract(E2, c)

    # ---------------------------------------------------------------- 4. two formats, same content (bounded)
    t0 = time.time()
    nat = run_native("errors_harness", {"op": "formats", "seed": seed, "thorough": tier == "thorough"}, timeout=600)
    chk.add_bounded("HumanizedErrorsFormatter.__str__ / JSONErrorsFormatter.__str__ / Errors.__iter__",
                    "valid JSON; same files, verdicts, diagnostics in the same order in both formats; ascending "
                    "(line, column) order of the printed position",
                    nat["bound"], nat["cases"], nat["violations"], nontrivial=nat["nontrivial"],
                    samples=nat["samples"], time_s=time.time() - t0)
    explained = chk.has_unlisted_failure()
    if nat["violations"] and not explained:
        v = nat["violations"][0]
        chk.report_violation("C08.bounded.formats", {"property": "C08", "obligation": "C08.bounded.formats",
                                                     "replay": v["task"], "confirmed_on_real_code": True},
                             what=v["what"], confirmed=True)
    # the comparator laws above speak about Error.__lt__: Errors.__iter__ has to sort with it (a
    # key= function would be another order, to be proved separately)
    import ast as _ast
    itf = chk.repo.find_function(SE.ERR + ":Errors.__iter__")
    sorts = [x for x in _ast.walk(itf.node) if isinstance(x, _ast.Call) and
             ((isinstance(x.func, _ast.Attribute) and x.func.attr == "sort") or (isinstance(x.func, _ast.Name) and x.func.id == "sorted"))]
    # calls that could impose another order (anything else -- len, iter, list, slicing -- does not)
    other_calls = [_ast.unparse(x.func) for x in _ast.walk(itf.node) if isinstance(x, _ast.Call) and x not in sorts
                   and _ast.unparse(x.func).split(".")[-1] in ("reverse", "reversed", "heapify", "heappop", "heappush", "nsmallest",
                                                               "nlargest", "merge", "insort", "shuffle", "attrgetter", "itemgetter",
                                                               "cmp_to_key")]
    ok = len(sorts) >= 1 and not any(x.keywords for x in sorts) and not other_calls
    chk.frame("frame.Errors.__iter__.sorts_with_the_element_comparison", ok,
              {"sort_calls": [_ast.unparse(x) for x in sorts], "other_calls": other_calls},
              what=f"Errors.__iter__ does not simply sort with Error.__lt__ ({[_ast.unparse(x) for x in sorts]}, other calls "
                   f"{other_calls}): the proved comparator laws no longer describe the listed order")
    # ---------------------------------------------------------------- 5. positions lie inside the file (bounded)
    from .frames_common import sample_files
    t0 = time.time()
    files = sample_files(chk.repo.root, None if tier == "thorough" else 60)
    long_ = "x" * 90
    for k, sep in enumerate(["\x0c", "\x0b", "\x1c", "\x1d", "\x1e", "\x85", "\u2028", "\u2029", "\r"]):
        files.append((f"ctl{k}.c", f"/* section 1 {sep} section 2 {sep} {long_} */\nint\tg_a = 1;{sep}\n// c {sep} {long_}\n"))
        files.append((f"one{k}.c", f"/* section 1 {sep} section 2 {sep} {long_} */\n"))        # a one-line file
        files.append((f"last{k}.c", f"int\tg_a = 1;\n/*\n** {sep}{sep}\n** {long_} {sep}\n*/"))   # over-long line is the last one
        files.append((f"ctl{k}.h", f"/*\n** a{sep}b\n** {long_}{sep}{long_}\n*/\n\"s{sep}t\"\n"))
    files.append(("nonl.c", "int\tmain(void)\n{\n\treturn (0);\n}"))
    files.append(("empty.c", ""))
    res = native_batch([{"op": "pipeline", "text": t, "name": n} for n, t in files])
    bad = []
    for (n, t), r in zip(files, res):
        if r["exc"] or r["fatal"]:
            continue
        nlines = max(1, t.count("\n") + (0 if t.endswith("\n") else 1))
        for e in r["errors"]:
            for h in e["highlights"][:1]:
                if not (1 <= h[0] <= nlines and h[1] >= 1):
                    bad.append(((n, t), f"{n}: {e['name']} is reported at ({h[0]}, {h[1]}) in a file of {nlines} lines"))
    chk.add_bounded("Lexer + Registry.run (whole pipeline)", "every diagnostic carries a position inside the file: "
                    "1 <= line <= number of lines, column >= 1", f"{len(files)} files: repository samples, comments / strings "
                    "containing form feed, vertical tab, FS/GS/RS, NEL, LS, PS, CR next to over-long lines, a file without "
                    "final newline, an empty file", len(files), bad, nontrivial=len(files), time_s=time.time() - t0)
    if bad and not chk.has_unlisted_failure():
        (n, t), m = bad[0]
        chk.report_violation("C08.bounded.positions_inside_the_file",
                             {"property": "C08", "obligation": "C08.bounded.positions_inside_the_file",
                              "replay": {"op": "position_one", "text": t, "name": n}, "confirmed_on_real_code": True},
                             what=m, confirmed=True)
    chk.assumptions += [
        "list.sort obeys its documented contract for a comparator that is a strict weak order",
        "builtin min returns an element no other element is smaller than (for a strict weak order)",
        "json.dumps produces valid JSON; dataclasses.asdict copies the fields",
        "z3 string order (str.<) coincides with Python's code-point order on str",
        "positions of token-derived highlights are >= 1 by the C09 lexer contract (not re-proved here)",
    ]
    return chk.finish(explanation="comparator summaries obtained by symbolic execution of the real bodies; laws "
                      "discharged by z3; catalogue by complete finite evaluation; format agreement bounded")


if __name__ == "__main__":
    main_wrapper(run)
