"""C16 -- options change the presentation, never the findings."""
import ast
import json
import time

from .common import Check, main_wrapper, run_native
from ..frames import scan

DEBUG_READERS = {
    "norminette/__main__.py|main": "passes args.debug to Context(...)",
    "norminette/context.py|Context.__init__": "stores int(debug)",
    "norminette/context.py|Context.dprint": "printing only",
    "norminette/registry.py|Registry.run": "printing, and raise-vs-continue on unrecognised tokens",
    "norminette/rules/check_utype_declaration.py|CheckUtypeDeclaration.run": "raise-vs-continue",
    "norminette/rules/is_expression_statement.py|IsExpressionStatement.check_reserved_keywords": "raise-vs-continue",
}


def only_presentation(stmts):
    """statements that only print, raise, or do nothing"""
    for s in stmts:
        if isinstance(s, (ast.Raise, ast.Pass)):
            continue
        if isinstance(s, ast.Expr) and isinstance(s.value, ast.Call) and isinstance(s.value.func, ast.Name) \
                and s.value.func.id == "print":
            continue
        if isinstance(s, ast.Expr) and isinstance(s.value, ast.Constant):
            continue
        if isinstance(s, ast.If):
            if only_presentation(s.body) and only_presentation(s.orelse):
                continue
            return False
        if isinstance(s, ast.Assign) and len(s.targets) == 1 and isinstance(s.targets[0], ast.Name) \
                and s.targets[0].id == "unrecognized_tkns" and isinstance(s.value, ast.List) and not s.value.elts:
            continue          # Registry.run forgets what it has just printed
        return False
    return True


def debug_frame(chk):
    reads = scan.attr_reads(chk.repo, {"debug"})
    unknown = []
    for r in reads:
        key = f"{r['file']}|{r['function']}"
        cn = r["consumer_node"]
        if isinstance(cn, ast.Call) and cn.func is r["node"]:
            continue            # `logger.debug(...)`: a method that is called, not the debug level
        if key not in DEBUG_READERS:
            # a reader in a new place is fine where it only decides what is printed or raised (second
            # obligation below judges every `if`), or hands the level on unchanged
            stmt = r.get("stmt", "")
            par = None
            guarded_if = False
            for rel2, tree2 in scan.iter_modules(chk.repo):
                if rel2 != r["file"]:
                    continue
                for x in ast.walk(tree2):
                    if isinstance(x, ast.If) and any(a is r["node"] for a in ast.walk(x.test)):
                        guarded_if = True
            forwards = isinstance(cn, (ast.Call, ast.keyword)) and not isinstance(cn, ast.Compare) and \
                any(w in ast.unparse(cn) for w in ("Context(", "int(", "print(", "dprint("))
            plain_store = stmt.replace(" ", "").startswith(("self.debug=", "debug="))
            if not (guarded_if or forwards or plain_store):
                unknown.append(f"{key}: {r['consumer']}")
    chk.frame("frame.debug.readers", not unknown, {"readers": sorted({f"{r['file']}|{r['function']}" for r in reads}),
                                                   "unknown": unknown},
              what=f"the debug level is read in new places: {unknown}")
    # every `if` whose test reads debug guards presentation only
    bad = []
    n = 0
    for rel, tree in scan.iter_modules(chk.repo):
        for fn in ast.walk(tree):
            if not isinstance(fn, ast.FunctionDef):
                continue
            if fn.name == "dprint":
                body_ok = all(not (isinstance(x, ast.Call) and isinstance(x.func, ast.Attribute)
                                   and x.func.attr in ("new_error", "new_warning", "add", "append", "pop_tokens"))
                              and not (isinstance(x, ast.Attribute) and isinstance(x.ctx, ast.Store))
                              for x in ast.walk(fn))
                n += 1
                if not body_ok:
                    bad.append(f"{rel}:dprint does more than printing")
                continue
            for x in ast.walk(fn):
                if isinstance(x, ast.If) and any(isinstance(a, ast.Attribute) and a.attr == "debug" for a in ast.walk(x.test)):
                    n += 1
                    if not (only_presentation(x.body) and only_presentation(x.orelse)):
                        bad.append(f"{rel}:{fn.name}:{ast.unparse(x.test)}")
    chk.frame("frame.debug.guards_only_printing_or_raising", not bad, {"guards": n, "violations": bad},
              what=f"a branch on the debug level does more than print / raise: {bad}")


def other_option_frames(chk):
    reads = scan.attr_reads(chk.repo, {"only_filename"})
    chk.frame("frame.only_filename.read_nowhere", not reads, {"reads": [r["consumer"] for r in reads]},
              what="-o/--only-filename is read by the code")
    reads = scan.attr_reads(chk.repo, {"use_colors", "no_colors"})
    where = sorted({f"{r['file']}|{r['function']}" for r in reads})
    ok = set(where) <= {"norminette/__main__.py|main", "norminette/errors.py|HumanizedErrorsFormatter._colorize_error_text",
                        "norminette/errors.py|HumanizedErrorsFormatter.use_colors"}
    chk.frame("frame.colors.read_only_by_the_formatter", ok, {"readers": where},
              what=f"the colour option is read outside the humanized formatter: {where}")
    reads = scan.attr_reads(chk.repo, {"skip_define"})
    where = sorted({f"{r['file']}|{r['function']}" for r in reads})
    ok = set(where) <= {"norminette/rules/check_preprocessor_define.py|CheckPreprocessorDefine.run"}
    chk.frame("frame.skip_define.read_only_by_the_define_check", ok, {"readers": where},
              what=f"skip_define is read outside CheckPreprocessorDefine.run: {where}")
    # -R flows only into skip_define
    f = chk.repo.find_function("norminette/context.py:Context.__init__")
    uses = [ast.unparse(x) for x in ast.walk(f.node) if isinstance(x, ast.Name) and x.id == "added_value"
            and isinstance(x.ctx, ast.Load)]
    src = ast.unparse(f.node)
    ok = "self.preproc.skip_define = 'CheckDefine' in (added_value or [])" in src and len(uses) == 1
    chk.frame("frame.R.flows_only_into_skip_define", ok, {"uses": len(uses)},
              what="-R (added_value) is used for something else than skip_define = 'CheckDefine' in it")
    # args.R is a one-element list (nargs=1), so `"CheckDefine" in args.R` is list membership, not a
    # substring test on the word
    mainf = chk.repo.find_function("norminette/__main__.py:main")
    decl = [x for x in ast.walk(mainf.node) if isinstance(x, ast.Call) and isinstance(x.func, ast.Attribute)
            and x.func.attr == "add_argument" and x.args and isinstance(x.args[0], ast.Constant) and x.args[0].value == "-R"]
    kws = {k.arg: (k.value.value if isinstance(k.value, ast.Constant) else ast.unparse(k.value)) for k in decl[0].keywords} if decl else {}
    chk.frame("frame.R.is_parsed_as_a_list_of_one_word", bool(decl) and kws.get("nargs") == 1 and "type" not in kws
              and "action" not in kws, {"add_argument": kws},
              what=f"-R is no longer declared with nargs=1 ({kws}): membership of 'CheckDefine' in its value changes meaning")
    ctx_calls = [x for x in ast.walk(mainf.node) if isinstance(x, ast.Call) and isinstance(x.func, ast.Name) and x.func.id == "Context"]
    ok_pass = bool(ctx_calls) and all(len(c.args) >= 4 and ast.unparse(c.args[3]) == "args.R" for c in ctx_calls)
    chk.frame("frame.R.passed_unchanged_to_Context", ok_pass, {"calls": [ast.unparse(c) for c in ctx_calls]},
              what="main() no longer passes args.R unchanged as Context's added_value")
    # in CheckPreprocessorDefine.run the early return precedes every emission
    f = chk.repo.find_function("norminette/rules/check_preprocessor_define.py:CheckPreprocessorDefine.run")
    first_emit = min([x.lineno for x in ast.walk(f.node) if isinstance(x, ast.Call) and isinstance(x.func, ast.Attribute)
                      and x.func.attr in ("new_error", "new_warning")] or [10 ** 9])
    guard = [x for x in f.node.body if isinstance(x, ast.If) and "skip_define" in ast.unparse(x.test)]
    ok = bool(guard) and guard[0].lineno < first_emit and isinstance(guard[0].body[0], ast.Return) and not guard[0].orelse
    chk.frame("frame.skip_define.returns_before_any_emission", ok, {},
              what="CheckPreprocessorDefine.run can emit a diagnostic before it honours skip_define")


def run(tier, seed, replay):
    if replay:
        rp = json.load(open(replay))
        task = rp.get("replay")
        if not task:
            print(json.dumps(rp.get("verifier_output"), indent=1)[:3000])
            return 1
        r = run_native("options_harness", task, timeout=900)
        print(json.dumps(r["violations"][:2], indent=1)[:2500])
        return 1 if r["violations"] else 0
    chk = Check("C16", tier, seed)
    thorough = tier == "thorough"
    debug_frame(chk)
    other_option_frames(chk)
    # inline content and stored content reach the analysis unchanged: File.source for every
    # path and every content (open(path).read() is an uninterpreted function of the path)
    from .frames_common import file_source_obligations
    file_source_obligations(chk)
    # colour lemma: complete evaluation over the catalogue on the real formatter
    t0 = time.time()
    nat = run_native("options_harness", {"op": "colors"})
    chk.finite("formatter.colour_is_decoration_only", not nat["violations"], nat["cases"], {"violations": nat["violations"][:3]},
               replay={"op": "colors"}, what=f"stripping the colour codes does not give the catalogue text: {nat['violations'][:2]}",
               time_s=time.time() - t0)
    t0 = time.time()
    nat = run_native("options_harness", {"op": "inline_file"})
    chk.finite("file.inline_content_builds_the_same_file", not nat["violations"], nat["cases"], {"violations": nat["violations"][:3]},
               replay={"op": "inline_file"}, what=f"File(name, data) differs from File(path): {nat['violations'][:2]}",
               time_s=time.time() - t0)
    t0 = time.time()
    nat = run_native("options_harness", {"op": "same_content"}, timeout=600)
    if nat.get("unreadable"):
        chk.undecided.append(f"C16: the JSON report of {len(nat['unreadable'])} command-line run(s) could not be read by the harness "
                             f"({nat['unreadable'][0][:120]}): nothing is concluded from them")
    chk.finite("file.two_stored_copies_report_what_the_inline_content_reports", not nat["violations"], nat["cases"],
               {"violations": nat["violations"][:3]}, what=f"stored content versus inline content: {nat['violations'][:2]}",
               time_s=time.time() - t0)
    # bounded: the real command line under option combinations
    t0 = time.time()
    nat = run_native("options_harness", {"op": "cli", "seed": seed, "thorough": thorough}, timeout=3000)
    chk.add_bounded("norminette.__main__.main (real CLI in a subprocess)",
                    "for a file analysed to a verdict the set of diagnostics and the verdict are the same under every "
                    "combination of --no-colors, -f json|humanized, -o, -d, -dd, -R <word>; --cfile/--hfile with "
                    "--filename give the same diagnostics as the file; -R CheckDefine removes only the diagnostics "
                    "of the #define check",
                    nat["bound"], nat["cases"], nat["violations"], nontrivial=nat["nontrivial"], samples=nat["samples"],
                    time_s=time.time() - t0)
    explained = chk.has_unlisted_failure()
    if nat["violations"] and not explained:
        v = nat["violations"][0]
        chk.report_violation("C16.bounded.cli", {"property": "C16", "obligation": "C16.bounded.cli", "replay": v["task"],
                                                 "confirmed_on_real_code": True}, what=v["what"], confirmed=True)
    chk.assumptions += [
        "reading used: a file that is fatal under one option set is not 'analysed to a verdict' under that set; "
        "only verdict-reaching runs are compared (debug turns some fatal errors into continue)",
        "reading used for -R CheckDefine: it removes exactly the diagnostics of CheckPreprocessorDefine "
        "(MACRO_NAME_CAPITAL, MACRO_FUNC_FORBIDDEN, PREPROC_CONSTANT) and nothing of any other check",
        "argparse puts each option into the attribute its add_argument names (trusted)",
        "File.source: open(path).read() is modelled as an uninterpreted function of the path (it may raise OSError); "
        "text-mode newline translation of the platform is part of that function",
        "-f: the agreement of the two formatters is C08's bounded stand-in",
    ]
    return chk.finish(level_if_complete="other", explanation="reads-frames of the options by AST scan; colour and inline-content lemmas by "
                      "complete finite evaluation; CLI combinations bounded")


if __name__ == "__main__":
    main_wrapper(run)
