"""C14 -- include-guard validation follows the file name."""
import ast
import json
import os
import random
import time

import z3

from .common import Check, main_wrapper, native_batch
from ..specs import protection as SP
from ..pyvc.spec import Contract
from ..pyvc.values import ObjCell, SStr, SInt, Builtin, mk_bool, str_term, int_term, fresh_name
from ..bounded import programs as P


def macro_contract():
    """PreProcessors.has_macro_defined(name) == some listed macro has that name"""
    holder = {}

    def setup(E, st):
        n = z3.Int(fresh_name("nmacros"))
        nm = z3.Function(fresh_name("macro_name"), z3.IntSort(), z3.StringSort())
        st.assume(n >= 0)
        holder["n"], holder["nm"] = n, nm
        E.seq_models["MacroSeq"] = lambda E_, s, ref: (n, lambda i, s2=None: (s2 if s2 is not None else s).alloc(
            ObjCell("MacroElem", {"name": SStr(nm(i))})))
        E.spec_builtins["nmacros"] = Builtin("nmacros", lambda E_, s, a, k: [(s, SInt(n))])
        E.spec_builtins["macro_name"] = Builtin("macro_name", lambda E_, s, a, k: [(s, SStr(nm(int_term(a[0]))))])
        cls = E.repo.find_class("norminette/context.py", "PreProcessors")
        pp = st.alloc(ObjCell(cls, {"macros": st.alloc(ObjCell("MacroSeq", {"__len__": SInt(n)})), "_indent": 0}))
        return {"self": pp, "name": E.fresh_value(st, "str", "name")}
    c = Contract("norminette/context.py:PreProcessors.has_macro_defined", setup=setup)
    c.ens("result == exists(0, nmacros(), lambda k: macro_name(k) == name)", "defined_iff_listed")
    c.loop(0, invariant=["forall(0, idx, lambda k: macro_name(k) != name)"], pure=True)
    return c


def emitter_frame(chk):
    root = chk.repo.root
    sites = []
    for dp, dn, fn in os.walk(os.path.join(root, "norminette")):
        for f in fn:
            if f.endswith(".py"):
                rel = os.path.relpath(os.path.join(dp, f), root)
                for x in ast.walk(chk.repo.module(rel).tree):
                    if isinstance(x, ast.Constant) and isinstance(x.value, str) and x.value.startswith("HEADER_PROT"):
                        sites.append(rel)
                    if isinstance(x, ast.JoinedStr) and "HEADER_PROT" in ast.unparse(x):
                        sites.append(rel + " (computed)")
    allowed = {"norminette/rules/check_preprocessor_protection.py", "norminette/norm_error.py"}
    extra = sorted(set(sites) - allowed)
    chk.frame("frame.only_the_protection_check_emits_HEADER_PROT", not extra, {"sites": sorted(set(sites))},
              what=f"HEADER_PROT_* names are mentioned outside the protection check: {extra}")
    # which primaries trigger the check
    tree = chk.repo.module("norminette/rules/check_preprocessor_protection.py").tree
    deps = None
    for node in ast.walk(tree):
        if isinstance(node, ast.Assign) and any(isinstance(t, ast.Name) and t.id == "depends_on" for t in node.targets):
            deps = [e.value for e in node.value.elts]
    return deps


def header_text(name, guard=None, define=True, before="", after="", double=False, endif_tail=""):
    g = guard if guard is not None else name.upper().replace(".", "_")
    lines = P.header(name).rstrip("\n").split("\n") + [""]
    if before:
        lines += [before, ""]
    lines += [f"#ifndef {g}"]
    if define:
        lines += [f"# define {g}"]
    lines += ["", "int\tft_fa(int c, char **d);", "", "#endif" + endif_tail]
    if double:
        lines += ["", f"#ifndef {g}", f"# define {g}", "#endif"]
    if after:
        lines += ["", after]
    return "\n".join(lines) + "\n"


def bounded(seed, thorough):
    rnd = random.Random(seed)
    names = ["a.h", "ft_list.h", "x9_.h", "lib.ft.h", "a.b.c.h", "a..h", "ft_x...v2.h", "_.h", "z__9.h"]
    alpha = "abcdefghijklmnopqrstuvwxyz0123456789_"
    for _ in range(6 if thorough else 2):
        # a guard symbol must be a C identifier: names starting with a digit are left out
        names.append(rnd.choice(alpha[:26] + "_") + "".join(rnd.choice(alpha) for _ in range(rnd.randint(0, 11))) + ".h")
    cases = []
    PROT = ("HEADER_PROT_ALL_AF", "HEADER_PROT_NODEF", "HEADER_PROT_UPPER", "HEADER_PROT_NAME", "HEADER_PROT_MULT",
            "HEADER_PROT_ALL")
    for nm in names:
        g = nm.upper().replace(".", "_")
        cases.append(("correct", nm, header_text(nm), set()))
        cases.append(("other_symbol", nm, header_text(nm, guard="FOO_BAR_H"), {"HEADER_PROT_NAME"}))
        if g.lower() != g:
            cases.append(("lower_case", nm, header_text(nm, guard=g.lower()), {"HEADER_PROT_UPPER"}))
        cases.append(("define_missing", nm, header_text(nm, define=False), {"HEADER_PROT_NODEF"}))
        cases.append(("doubled", nm, header_text(nm, double=True), {"HEADER_PROT_MULT"}))
        cases.append(("declaration_before", nm, header_text(nm, before="int\tft_early(void);"), {"HEADER_PROT_ALL"}))
        cases.append(("declaration_after", nm, header_text(nm, after="int\tft_late(void);"), {"HEADER_PROT_ALL_AF"}))
        cases.append(("same_text_as_c_file", nm[:-2] + ".c", header_text(nm, guard="FOO_BAR_H"), set()))
        # comments after the closing #endif are not declarations
        cases.append(("correct_block_comment_after_endif", nm, header_text(nm, endif_tail=f" /* {g} */"), set()))
        cases.append(("correct_line_comment_after_endif", nm, header_text(nm, endif_tail=f" // {g}"), set()))
        cases.append(("correct_comment_lines_after_endif", nm, header_text(nm, after="/*\n** end of file\n*/"), set()))
    t0 = time.time()
    res = native_batch([{"op": "pipeline", "text": t, "name": n} for _, n, t, _ in cases])
    fails = []
    for (kind, n, t, want), r in zip(cases, res):
        if r["exc"] or r["fatal"]:
            fails.append(((kind, n, t), f"no verdict for a '{kind}' header {n}: {r['exc'] or r['fatal']}"))
            continue
        got = {e["name"] for e in r["errors"] if e["name"] in PROT}
        bad = (got != want) if not want else not (want <= got)
        if bad:
            fails.append(((kind, n, t), f"header {n} with guard variant '{kind}': protection diagnostics "
                                        f"{sorted(got)}, expected {'none' if not want else 'at least ' + str(sorted(want))}"))
    return cases, fails, time.time() - t0


def run(tier, seed, replay):
    if replay:
        rp = json.load(open(replay))
        task = rp.get("replay")
        if not task:
            print(json.dumps(rp.get("verifier_output"), indent=1)[:3000])
            return 1
        r = native_batch([task])[0]
        got = sorted({e["name"] for e in r["errors"] if e["name"].startswith("HEADER_PROT")})
        print("protection diagnostics:", got, "expected:", task.get("expect"))
        return 1 if got != task.get("expect") else 0
    chk = Check("C14", tier, seed)
    thorough = tier == "thorough"
    E = chk.engine()
    SP.install(E)
    found = {}

    def search():
        if "r" not in found:
            found["r"] = bounded(seed, thorough)
        return found["r"]

    def replay_guard(ob, model):
        cases, fails, _ = search()
        for (kind, n, t), m in fails:
            return True, m, {"op": "pipeline", "text": t, "name": n}
        return None
    chk.run_contract(E, SP.contract(), replay=replay_guard)
    E2 = chk.engine()
    chk.run_contract(E2, macro_contract())
    deps = emitter_frame(chk)

    # a header with declarations but no guard: the only emitter runs after preprocessor statements
    r = native_batch([{"op": "pipeline", "text": "int\tg_x;\n", "name": "a.h"}])[0]
    prot = [e["name"] for e in r["errors"] if e["name"].startswith("HEADER_PROT")]
    triggers_ok = deps is not None and any(d != "IsPreprocessorStatement" for d in deps)
    chk.finite("registry.unguarded_header_is_checked", triggers_ok or bool(prot), 1,
               {"depends_on": deps, "witness_a.h": "int\\tg_x;\\n", "protection_diagnostics": prot},
               replay={"op": "pipeline", "text": "int\tg_x;\n", "name": "a.h", "expect": ["HEADER_PROT_*"]},
               what="a header with declarations but no guard gets no protection diagnostic: the only function that "
                    "emits HEADER_PROT_* runs after preprocessor statements only")

    # the cursor helpers the check relies on (skip_ws with nl / comment flags, eol), against their bodies
    from ..specs import context as CX
    E3 = chk.engine()
    for c in CX.contracts():
        if c.key.endswith("skip_ws") or c.key.endswith("eol"):
            chk.run_contract(E3, c)
    # two headers of the same name in one run of the real command line: the second one's guard is
    # judged on its own text (nothing the first one defined counts)
    from .common import run_native
    t0 = time.time()
    nat = run_native("cli_harness", {"op": "two_headers"}, timeout=300)
    if nat.get("unreadable"):
        chk.undecided.append(f"C14: the JSON report of {len(nat['unreadable'])} command-line run(s) could not be read by the harness "
                             f"({nat['unreadable'][0][:120]}): nothing is concluded from them")
    chk.finite("cli.guard_of_each_header_is_judged_on_its_own", not nat["violations"], nat["cases"],
               {"violations": nat["violations"][:2]}, replay=None,
               what=f"include-guard validation depends on the other files of the run: {nat['violations'][:1]}", time_s=time.time() - t0)
    cases, fails, dt = search()
    chk.add_bounded("Lexer + Registry.run (whole pipeline)",
                    "correct guard: no HEADER_PROT_*; other symbol / lower case / #define missing / doubled / "
                    "declaration before / declaration after: the corresponding diagnostic; .c name: none",
                    "%d header names over [a-z0-9_.] x 11 guard variants (incl. comments after #endif)" % (len(cases) // 11), len(cases), fails,
                    nontrivial=len({(k, n) for k, n, _, _ in cases}),
                    samples=[{"kind": k, "name": n} for k, n, _, _ in cases[:3]], time_s=dt)
    explained = any(i.status == "failed" for i in chk.items if "unguarded" not in i.name)
    if fails and not explained:
        (kind, n, t), m = fails[0]
        chk.report_violation("C14.bounded.pipeline", {"property": "C14", "obligation": "C14.bounded.pipeline",
                                                      "replay": {"op": "pipeline", "text": t, "name": n},
                                                      "confirmed_on_real_code": True}, what=m, confirmed=True)
    chk.trusted += SP.TRUSTED
    chk.assumptions += [
        "preconditions established by IsPreprocessorStatement (the statement starts with '#', an identifier follows "
        "#ifndef) and the order 'indent is updated before the check runs' are composition assumptions: bounded only",
        "File.basename == os.path.basename(path) (trusted)",
    ]
    return chk.finish()


if __name__ == "__main__":
    main_wrapper(run)
