"""C15 -- exactly the requested C sources are checked."""
import json
import time

from .common import Check, main_wrapper, run_native
from ..specs import cli as CLI


def run(tier, seed, replay):
    if replay:
        rp = json.load(open(replay))
        task = rp.get("replay")
        if not task:
            print(json.dumps(rp.get("verifier_output"), indent=1)[:3000])
            return 1
        r = run_native("discovery_harness", task, timeout=600)
        print(json.dumps(r, indent=1)[:2000])
        return 1 if r.get("violations") else 0
    chk = Check("C15", tier, seed)
    thorough = tier == "thorough"
    found = {}

    def search():
        if "r" not in found:
            t0 = time.time()
            found["r"] = run_native("discovery_harness", {"op": "search", "seed": seed, "trees": 40 if thorough else 12},
                                    timeout=3000)
            found["t"] = time.time() - t0
        return found["r"]

    def replay_tree(ob, model):
        for v in search()["violations"]:
            return True, v["what"], v["task"]
        return None
    for c in [CLI.discovery_contract()] + CLI.discovery_variants() + [CLI.gitignore_variant()]:
        E = chk.engine()
        CLI.install(E)
        chk.run_contract(E, c, variant=getattr(c, "variant", None), replay=replay_tree)
    # known finding K10: --use-gitignore and a directory behind a symbolic link
    if any(k["id"] == "K10" for k in chk.known):
        w = run_native("discovery_harness", {"op": "k10"}, timeout=120)
        chk.known_finding("K10", bool(w.get("still_fails")))
    t0 = time.time()
    dd = run_native("discovery_harness", {"op": "dotdot"}, timeout=120)
    if dd.get("unreadable"):
        chk.undecided.append(f"C15: the JSON report of {len(dd['unreadable'])} command-line run(s) could not be read by the harness "
                             f"({dd['unreadable'][0][:120]}): nothing is concluded from them")
    chk.finite("cli.paths_that_differ_by_leading_dots_are_different_files", not dd["violations"], dd["cases"],
               {"violations": dd["violations"][:2]}, what=f"files named with ./ and ../ prefixes: {dd['violations'][:1]}",
               time_s=time.time() - t0)
    nat = search()
    chk.add_bounded("norminette.__main__.main (real CLI in a subprocess) on generated directory trees",
                    "exactly the regular .c/.h files named, or found recursively under a named directory, are checked, "
                    "once per mention, under their base name; other suffixes are rejected with a message; a missing "
                    "path aborts non-zero; --use-gitignore leaves out what git ignores",
                    nat["bound"], nat["cases"], nat["violations"], nontrivial=nat["nontrivial"], samples=nat["samples"],
                    time_s=found.get("t", 0.0))
    explained = chk.has_unlisted_failure()
    if nat["violations"] and not explained:
        v = nat["violations"][0]
        chk.report_violation("C15.bounded.trees", {"property": "C15", "obligation": "C15.bounded.trees",
                                                   "replay": v["task"], "confirmed_on_real_code": True},
                             what=v["what"], confirmed=True)
    chk.trusted += [
        "ASSUMED contracts of external functions: pathlib.Path.exists/is_file/is_dir/suffix (POSIX meaning; a regular "
        "file or a directory exists, nothing is both); glob.glob(root + '/**/*.[ch]', recursive=True) returns exactly "
        "the non-hidden paths under root whose last component ends in .c or .h; git check-ignore -q exits 0 / 1 / 128 as "
        "its manual says; argparse",
    ]
    chk.assumptions += [
        "the verified text of main() is the mechanical slice from `if args.cfile or args.hfile:` up to the processing "
        "loop; the work list that grows while it is iterated is modelled as its final contents (an item appended by a "
        "glob call is visited later in the same loop)",
        "hidden files (skipped by glob) and directories whose own name ends in .c/.h (expanded twice) are outside the "
        "listed shapes of the quantifier and are not generated",
    ]
    return chk.finish()


if __name__ == "__main__":
    main_wrapper(run)
