"""C05 -- every input gets an answer: no hang, no internal error."""
import ast
import json
import os
import random
import time
from concurrent.futures import ThreadPoolExecutor

from .common import Check, Item, main_wrapper, run_native, run_parallel
from .frames_common import sample_files
from ..specs import context as C, loops_gen as LG, registry as SR, lexer as SL, primaries as PR
from ..frames import scan
from ..bounded import programs as P


def always_leaves(stmts):
    """every path through stmts ends in return / raise"""
    if not stmts:
        return False
    last = stmts[-1]
    if isinstance(last, (ast.Return, ast.Raise)):
        return True
    if isinstance(last, ast.If):
        return bool(last.orelse) and always_leaves(last.body) and always_leaves(last.orelse)
    if isinstance(last, ast.Try):
        return always_leaves(last.body) and all(always_leaves(h.body) for h in last.handlers)
    if isinstance(last, ast.While) and isinstance(last.test, ast.Constant) and last.test.value is True:
        return not any(isinstance(x, ast.Break) for x in ast.walk(last))
    return False


def return_shapes(chk):
    """a primary returns a pair on every path (Registry.run_rules unpacks it)"""
    rules_dir = os.path.join(chk.repo.root, "norminette", "rules")
    for f in sorted(os.listdir(rules_dir)):
        if not (f.startswith("is_") and f.endswith(".py")):
            continue
        rel = "norminette/rules/" + f
        for cls in chk.repo.module(rel).tree.body:
            if not isinstance(cls, ast.ClassDef) or not any(isinstance(b, ast.Name) and b.id == "Primary" for b in cls.bases):
                continue
            run = [b for b in cls.body if isinstance(b, ast.FunctionDef) and b.name == "run"]
            if not run:
                continue
            fn = run[0]
            falls = not always_leaves(fn.body)
            bad_ret = []
            for x in ast.walk(fn):
                if isinstance(x, ast.Return):
                    v = x.value
                    if v is None or (isinstance(v, ast.Constant)) or (isinstance(v, ast.Tuple) and len(v.elts) != 2):
                        bad_ret.append(x.lineno)
            ok = not falls and not bad_ret
            chk.frame(f"{cls.name}.run.returns_a_pair_on_every_path", ok,
                      {"falls_off_the_end": falls, "returns_that_are_not_pairs_at_lines": bad_ret},
                      replay=({"op": "one", "text": "typedef struct s_a", "name": "a.c"} if cls.name == "IsUserDefinedType" and not ok else None),
                      what=f"{cls.name}.run can end without returning a (matched, jump) pair: Registry.run_rules then "
                           f"fails with TypeError")


def built_exception(tree, func):
    """the one class every `return` of the called helper constructs (helper looked up by its
    name in the same module: a function or a method), or None"""
    hname = func.attr if isinstance(func, ast.Attribute) else func.id if isinstance(func, ast.Name) else None
    defs = [d for d in ast.walk(tree) if isinstance(d, ast.FunctionDef) and d.name == hname]
    if len(defs) != 1:
        return None
    rets = [r for r in ast.walk(defs[0]) if isinstance(r, ast.Return)]
    kinds = {r.value.func.id if r.value is not None and isinstance(r.value, ast.Call) and isinstance(r.value.func, ast.Name)
             else None for r in rets}
    return kinds.pop() if len(kinds) == 1 and None not in kinds else None


def raise_sites(chk):
    sites = []
    for rel, tree in scan.iter_modules(chk.repo):
        par = scan.parents(tree)
        for x in ast.walk(tree):
            if isinstance(x, ast.Raise) and x.exc is not None:
                e = x.exc
                name = e.func.id if isinstance(e, ast.Call) and isinstance(e.func, ast.Name) else \
                    (e.id if isinstance(e, ast.Name) else ast.unparse(e))
                # `raise self.helper(...)` / `raise helper(...)`: the class of what the helper builds
                if isinstance(e, ast.Call) and name != "CParsingError":
                    built = built_exception(tree, e.func)
                    if built is not None:
                        name = built
                sites.append((rel, scan.enclosing_function(x, par), name))
    # (`raise AssertionError(...)` is the long form of an assert statement: not a way the tool reports)
    other = sorted({s for s in sites if s[2] not in ("CParsingError", "AssertionError") and not s[0].endswith("lexer/lexer.py")})
    chk.frame("raises.rules_raise_only_CParsingError", not other, {"sites": len(sites), "other": other},
              what=f"explicit raise of something else than the controlled fatal error: {other}")
    lexer_exc = sorted({s[2] for s in sites if s[0].endswith("lexer/lexer.py")})
    return lexer_exc


def run(tier, seed, replay):
    if replay:
        rp = json.load(open(replay))
        task = rp.get("replay")
        if not task:
            print(json.dumps(rp.get("verifier_output"), indent=1)[:3000])
            return 1
        r = run_native("robust_harness", task, timeout=120)
        print(json.dumps(r, indent=1)[:1500])
        return 1 if r.get("violations") else 0
    chk = Check("C05", tier, seed)
    thorough = tier == "thorough"
    rnd = random.Random(seed)

    # ---- (d) helpers are total at the end of input, (a) main loop progress
    E = chk.engine()
    SR.install(E)
    for c in C.contracts():
        if c.setup is not None and c.key.split(".")[-1] in ("peek_token", "check_token", "eol", "skip_ws"):
            chk.run_contract(E, c, variant=getattr(c, "variant", None))
    sn = C.skip_nest_contract()
    E.contracts[sn.key] = sn
    chk.run_contract(E, sn)
    E.contracts[SR.REG + ":Registry.run_rules"] = SR.run_rules_callsite()
    E.contracts[SR.CTX + "update"] = SR.update_callsite()
    chk.run_contract(E, SR.registry_run())
    return_shapes(chk)
    lexer_exc = raise_sites(chk)
    from .frames_common import catalogue_names_obligation
    catalogue_names_obligation(chk)
    # main-loop variant: every primary that matches consumes at least one token (19 progress
    # contracts, each verified against the contracts of the helpers it calls)
    ud = SR.udef_typedef()
    E.contracts[ud.key] = ud
    chk.run_contract(E, ud)
    for c in [SR.block_start(), SR.block_end()] + SR.simple_primaries():
        chk.run_contract(E, c)
    fd, cff = SR.func_declaration()
    E.contracts[cff.key] = cff
    chk.run_contract(E, fd)
    run_parallel(chk, PR.jobs(chk.repo), PR.INSTALLS, procs=12)

    # ---- (b) generated loop obligations
    E2 = chk.engine()
    SR.install(E2)
    E2.contracts[sn.key] = sn
    # call-site contracts of the cursor helpers: the ones verified against their bodies below
    # (run_parallel over specs/primaries.py)
    helpers = PR.helper_contracts()
    for c in helpers.values():
        E2.contracts.setdefault(c.key, c)
    t0 = time.time()
    sites = LG.loop_sites(chk.repo)
    nskip = 0
    hang_replay = {"op": "one", "text": "f(a)\n", "name": "a.c"}
    covered = PR.covered_loops(chk.repo)
    ncovered = 0
    for s in sites:
        if (f"{s['file']}:{s['cls'].name}.{s['fn'].name}", s["node"].lineno) in covered:
            ncovered += 1           # its variant is an obligation of the function's contract (above)
            continue
        for name, status, detail in LG.analyse(E2, s):
            if status == "skipped":
                nskip += 1
                continue
            it = Item(f"C05.loop.{name}", "loop-termination", status, "z3", 0.0, detail)
            chk.items.append(it)
            if status == "undecided":
                chk.undecided.append(f"C05.loop.{name}: {detail}")
            if status == "failed":
                conf = None
                if "IsFunctionCall" in name:
                    r = run_native("robust_harness", hang_replay, timeout=60)
                    conf = bool(r.get("violations"))
                chk.report_violation(f"C05.loop.{name}", {
                    "property": "C05", "obligation": f"C05.loop.{name}", "verifier_output": detail,
                    "replay": hang_replay if conf else None, "confirmed_on_real_code": bool(conf)},
                    what=f"loop {name}: the guard stays true at the end of the token list and the body does not leave "
                         f"the loop (non-termination at end of input)", confirmed=bool(conf))
    chk.functions.append({"function": "every `while` loop of norminette/rules/*.py, context.py, registry.py",
                          "loops": len(sites), "skipped_no_cursor_in_guard": nskip, "wall_s": round(time.time() - t0, 2)})

    # ---- (c) the lexer raises nothing but its two own exceptions; those escape Lexer.__iter__ (K1)
    jobs = [j for j in SL.lexer_jobs() if j[0] in ("parse_operator", "parse_brackets", "parse_whitespace",
                                                   "parse_identifier", "get_next_token")]
    nat_lex = {}

    def replay_lex(ob, model, base):
        if "r" not in nat_lex:
            nat_lex["r"] = run_native("robust_harness", {"op": "lexer", "maxlen": 3}, timeout=900)
        if ".raises.unexpected." in base:
            exc = base.split(".raises.unexpected.")[1]
            for k, text in nat_lex["r"]["exceptions"].items():
                if k.split(":")[0] == exc:
                    return True, f"the tokenizer raises {exc} on {text[:40]!r}", {"op": "one", "text": text, "name": "a.c"}
        return None
    run_parallel(chk, jobs, SL.INSTALLS, replays={"Lexer." + j[0]: replay_lex for j in jobs}, procs=6)

    # ---- (e) bounded stand-ins
    t0 = time.time()
    lx = run_native("robust_harness", {"op": "lexer", "maxlen": 4 if thorough else 3}, timeout=3000)
    chk.add_bounded("Lexer.__iter__", "every string is turned into tokens and lexical diagnostics (no exception)",
                    "all strings of length 1..%d over a 20-character alphabet; runs of 50..3000 unmatched characters; "
                    "long char literal / splice runs; every proper prefix of 42 lexemes of every kind (escapes, "
                    "prefixes, comments, constants, operators, alternative spellings) x 3 contexts; 38 tokens of 40 / 400 "
                    "characters of every kind, each in its own process with a hard time limit"
                    % (4 if thorough else 3), lx["cases"], [], nontrivial=lx["cases"],
                    samples=list(lx["exceptions"].items())[:2], time_s=time.time() - t0)
    for k, text in sorted(lx["exceptions"].items()):
        exc = k.split(":")[0]
        rp = {"property": "C05", "obligation": f"C05.lexer.escapes.{exc}", "replay": {"op": "one", "text": text, "name": "a.c"},
              "confirmed_on_real_code": True, "exception": k}
        chk.report_violation(f"C05.lexer.escapes.{exc}", rp,
                             what=f"the tokenizer raises {exc} (input of {len(text)} characters: {text[:30]!r}...)",
                             confirmed=True)
    files = sample_files(chk.repo.root, None if thorough else 45)
    files += [("gen.c", P.conforming_c(rnd, 3)), ("gen.h", P.conforming_h())]
    chunks = [files[i::14] for i in range(14)]

    def go(ch):
        # quick: a fixed, seed-independent selection (every 6th token boundary, edits from seed 0);
        # thorough: every token boundary and seeded edits
        return run_native("robust_harness", {"op": "prefixes", "files": ch, "seed": seed if thorough else 0,
                                             "every": 1 if thorough else 6, "edits": 12 if thorough else 3,
                                             "line_ends": thorough}, timeout=3000)
    t0 = time.time()
    with ThreadPoolExecutor(14) as ex:
        rs = list(ex.map(go, [c for c in chunks if c]))
    cases = sum(r["cases"] for r in rs)
    by_site = {}
    for r in rs:
        for v in r["violations"]:
            by_site.setdefault((v["exc"], v["site"]), v)
    # less common but legal C (GNU attributes in every position, C99 / C11 declarators, designated
    # initialisers, bit-fields, function pointers, preprocessor corner cases, alternative
    # spellings ...): as .c and .h, with and without the final newline
    from .common import native_batch
    rare = []
    for t in P.RARE_C:
        for nm in ("a.c", "a.h"):
            full = P.header(nm) + "\n" + t
            rare += [{"op": "pipeline", "text": full, "name": nm, "timeout": 5},
                     {"op": "pipeline", "text": full.rstrip("\n"), "name": nm, "timeout": 5}]
    # ... and statements whose bracket is never closed, followed by further lines
    nrare = len(rare)
    for t in P.unbalanced_units():
        rare.append({"op": "pipeline", "text": P.header("a.c") + "\n" + t, "name": "a.c", "timeout": 5})
    for tk, r in zip(rare, native_batch(rare)):
        cases += 1
        if r["exc"]:
            by_site.setdefault((r["exc"], r.get("exc_site")), {
                "exc": r["exc"], "site": r.get("exc_site"), "task": {"op": "one", "text": tk["text"], "name": tk["name"]},
                "what": f"{'legal C' if rare.index(tk) < nrare else 'unclosed bracket'} {tk['text'][-60:]!r} as {tk['name']}: "
                        f"exc:{r['exc']}@{r.get('exc_site')} ({r.get('exc_line')})"})
    chk.add_bounded("Lexer + Registry.run (whole pipeline) with a watchdog",
                    "every token-prefix (with / without the final newline) and single-token deletion / duplication of "
                    "the sample files ends in a verdict or a CParsingError",
                    f"{len(files)} files x every {'1st' if thorough else '6th'} token boundary x 2 (with / without final "
                    f"newline) + {12 if thorough else 3} token edits x 2; {len(P.RARE_C)} translation units of less common "
                    f"legal C x {{.c, .h}} x {{with, without final newline}}; {len(P.unbalanced_units())} statements with a "
                    "bracket that is never closed, followed by further lines",
                    cases, list(by_site.values()), nontrivial=cases,
                    samples=[{"site": f"{k[0]}@{k[1]}"} for k in list(by_site)[:3]], time_s=time.time() - t0)
    for (exc, site), v in sorted(by_site.items(), key=lambda kv: str(kv[0])):
        rp = {"property": "C05", "obligation": f"C05.pipeline.crash[{exc}@{site}]", "replay": v["task"],
              "confirmed_on_real_code": True}
        chk.report_violation(f"C05.pipeline.crash[{exc}@{site}]", rp, what=v["what"], confirmed=True)
    chk.assumptions += [
        "termination: a forward cursor loop with exit_at_eof and progress runs at most len(tokens) iterations; loops "
        "whose guard does not read the cursor (%d of %d) are not covered by a generated obligation; %d loops are "
        "covered by the variant in their function's contract instead" % (nskip, len(sites), ncovered),
        "the generated loop obligations use the call-site contracts of the cursor helpers ("
        + ", ".join(sorted(helpers)) + "), each verified against its body in this run",
        "the progress contracts assume: IDENTIFIER tokens carry their spelling (lexer fact); IsEmptyLine runs before "
        "IsControlStatement / IsAmbiguousDeclaration and matches exactly the blank lines; IsExpressionStatement runs "
        "with a non-empty history; termination of the #if expression parser rests on CPython's recursion limit",
        "exception freedom of the rule bodies is NOT proved: bounded stand-in (prefixes / edits of sample files); crash "
        "sites already present in the pinned tree are known findings, identified by exception type and raising function",
        "the witness loops (CheckCommentLineLen, CheckPreprocessorDefine, CheckPreprocessorInclude) terminate because "
        "their primary guarantees the token they scan for (stated per loop in the evidence)",
    ]
    return chk.finish(level_if_complete="other",
                      explanation="named mechanisms (helper totality, main-loop variant, generated per-loop exit / "
                      "progress obligations, return shapes, raise sites, lexer raises-clauses) are discharged; exception "
                      "freedom of the ~7000 lines of rule bodies is a bounded stand-in, so the level is not 'proof'")


if __name__ == "__main__":
    main_wrapper(run)
