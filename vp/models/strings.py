"""Trusted library contracts for str methods used by the code under contract.
str.split(sep): parts are SP(s, j) for 0 <= j < SN(s), SN(s) >= 1 (uninterpreted; the
only facts used are these and that the parts do not depend on anything but s)."""
import z3

from ..pyvc.values import (SInt, SStr, SStrV, Ref, ObjCell, Builtin, int_term, mk_int, str_term, fresh_name,
                           Raised, ExcVal)
from ..pyvc.ops import Unsupported
from ..pyvc.builtins_ import norm_index

S, I = z3.StringSort(), z3.IntSort()
SP = z3.Function("split_part", S, I, S)
SN = z3.Function("split_n", S, I)

TRUSTED = ["str.split(sep) returns split_n(s) >= 1 parts split_part(s, j) that depend on s only "
           "(and, for the width lemma, contain no separator: not used by any obligation)"]


def m_split(E, s, args, kw):
    v = args[0]
    if len(args) != 2 or args[1] != "\n":
        raise Unsupported("str.split with a separator other than '\\n'")
    src = str_term(v)
    n = SN(src)
    s.assume(n >= 1)
    return [(s, s.alloc(ObjCell("SplitList", {"src": SStr(src), "n": SInt(n), "over": ()})))]


def part(cell, j):
    """value of element j (z3 Int term) -> z3 String"""
    src = cell.attrs["src"].t
    t = SP(src, j)
    for k, v in cell.attrs["over"]:
        t = z3.If(j == k, v, t)
    return t


def idx_split(E, s, base, idx):
    cell = s.cell(base)
    out = []
    for s2, eff in norm_index(E, s, idx, cell.attrs["n"], "list"):
        if isinstance(eff, Raised):
            out.append((s2, eff))
        else:
            out.append((s2, SStr(part(cell, int_term(eff)))))
    return out


def set_split(E, s, base, idx, v):
    cell = s.cell(base)
    out = []
    for s2, eff in norm_index(E, s, idx, cell.attrs["n"], "list"):
        if isinstance(eff, Raised):
            out.append((s2, ("raise", eff.exc)))
        else:
            c = s2.cell(base)
            s2.set_cell(base, c.with_attr("over", c.attrs["over"] + ((int_term(eff), str_term(v)),)))
            out.append((s2, ("next",)))
    return out


def seq_split(E, s, ref):
    cell = s.cell(ref)
    return int_term(cell.attrs["n"]), (lambda i, s2=None: SStr(part(cell, i)))


def sp_split_n(E, s, args, kw):
    return [(s, mk_int(SN(str_term(args[0]))))]


def sp_split_part_len(E, s, args, kw):
    return [(s, mk_int(z3.Length(SP(str_term(args[0]), int_term(args[1])))))]


def install(E):
    E.models["str.split"] = m_split
    E.index_models["SplitList"] = idx_split
    E.setitem_models["SplitList"] = set_split
    E.seq_models["SplitList"] = seq_split
    E.spec_builtins["split_n"] = Builtin("split_n", sp_split_n)
    E.spec_builtins["split_part_len"] = Builtin("split_part_len", sp_split_part_len)
