"""Source / Lexer model (DESIGN.md 2.1): the source is (length, Array Int -> code point);
the ghost rawpos(p) = (line, column) of raw offset p is axiomatised pointwise and its
defining equations are instantiated explicitly around every offset that is mentioned."""
import z3

from ..pyvc.values import (Sym, SInt, SBool, SStr, SStrV, SKind, SOpt, Opaque, Ref, ObjCell, ListCell, Builtin, KINDS,
                           int_term, bool_term, mk_int, mk_bool, fresh_name, Raised, ExcVal)
from ..pyvc.ops import Unsupported
from ..pyvc.builtins_ import slice_bounds
from . import tokens as T

I, B = z3.IntSort(), z3.BoolSort()
LEXER = "norminette/lexer/lexer.py"
NL, TAB = 10, 9
LOOKBACK = 8


class Src(Sym):
    """file.source"""
    __slots__ = ("arr", "length", "RL", "RC")

    def __init__(self, tag="src"):
        self.arr = z3.Array(fresh_name(tag), I, I)
        self.length = z3.Int(fresh_name(tag + "_len"))
        self.RL = z3.Function(fresh_name("rawline"), I, I)
        self.RC = z3.Function(fresh_name("rawcol"), I, I)


def step_axiom(src, p):
    """rawpos(p+1) from rawpos(p) and the raw character at p"""
    c = z3.Select(src.arr, p)
    RL, RC = src.RL, src.RC
    return z3.Implies(z3.And(p >= 0, p < src.length),
                      z3.If(c == NL, z3.And(RL(p + 1) == RL(p) + 1, RC(p + 1) == 1),
                            z3.And(RL(p + 1) == RL(p),
                                   RC(p + 1) == z3.If(c == TAB, RC(p) + 4 - (RC(p) - 1) % 4, RC(p) + 1))))


def instantiate(E, src, t):
    """defining equations of rawpos around offset term t"""
    t = z3.simplify(t)
    E.add_axiom(z3.And(src.RL(0) == 1, src.RC(0) == 1))
    for d in range(0, LOOKBACK + 1):
        p = z3.simplify(t - d)
        E.add_axiom(step_axiom(src, p))
        # lemma (induction on p, discharged separately as C09.rawpos.positive): positions are >= 1
        E.add_axiom(z3.Implies(p >= 0, z3.And(src.RL(p) >= 1, src.RC(p) >= 1)))
    E.add_axiom(z3.Implies(t >= 0, z3.And(src.RL(t + 1) >= 1, src.RC(t + 1) >= 1)))


def src_slice(E, s, base, lo, hi):
    """source[a:b]: a short window when b - a is a small constant, the opaque tail otherwise"""
    if hi is None:
        return [(s, SrcTail(base, int_term(lo) if lo is not None else z3.IntVal(0)))]
    a = int_term(lo) if lo is not None else z3.IntVal(0)
    width = z3.simplify(int_term(hi) - a)
    if not z3.is_int_value(width):
        raise Unsupported("source slice of non-constant width")
    k = width.as_long()
    if k < 0 or k > 8:
        raise Unsupported("source slice wider than 8")
    # callers guard with pos < len(source); python clamps the upper bound
    n = base.length
    avail = z3.If(a >= n, 0, z3.If(a + k > n, n - a, k))
    if True:
        s.notes.append("source[a:b] is modelled for 0 <= a (the code never produces a negative start)")
    return [(s, SStrV([z3.Select(base.arr, a + i) for i in range(k)], z3.simplify(avail)))]


class SrcTail(Sym):
    """source[pos:] handed to a compiled regular expression"""
    __slots__ = ("src", "start")

    def __init__(self, src, start):
        self.src, self.start = src, start


def make_lexer(E, st, tag="lx"):
    src = Src()
    st.assume(src.length >= 0)
    # characters are code points; 0 <= c keeps SStrV -> str conversions meaningful
    st.ghost["emitted"] = T.fresh_emitted("lexem")
    st.assume(st.ghost["emitted"]["n"] >= 0)
    errors = st.alloc(ObjCell("ErrorsGhost", {}))
    f = st.alloc(ObjCell("LexFile", {"source": src, "errors": errors}))
    cls = E.repo.find_class(LEXER, "Lexer")
    pos = z3.Int(fresh_name("pos"))
    line = z3.Int(fresh_name("line"))
    col = z3.Int(fresh_name("col"))
    st.assume(z3.And(pos >= 0, pos <= src.length))
    lx = st.alloc(ObjCell(cls, {"file": f, "_Lexer__pos": SInt(pos), "_Lexer__line": SInt(line),
                                "_Lexer__line_pos": SInt(col)}))
    return lx, src


def _lexer_parts(s, lx):
    cell = s.cell(lx)
    src = s.cell(cell.attrs["file"]).attrs["source"]
    return cell, src


# ----------------------------------------------------------------- spec-language functions
def sp_rawline(E, s, args, kw):
    cell, src = _lexer_parts(s, args[0])
    t = int_term(args[1])
    instantiate(E, src, t)
    return [(s, mk_int(src.RL(t)))]


def sp_rawcol(E, s, args, kw):
    cell, src = _lexer_parts(s, args[0])
    t = int_term(args[1])
    instantiate(E, src, t)
    return [(s, mk_int(src.RC(t)))]


def sp_pos(E, s, args, kw):
    return [(s, s.cell(args[0]).attrs["_Lexer__pos"])]


def sp_line(E, s, args, kw):
    return [(s, s.cell(args[0]).attrs["_Lexer__line"])]


def sp_col(E, s, args, kw):
    return [(s, s.cell(args[0]).attrs["_Lexer__line_pos"])]


def sp_srclen(E, s, args, kw):
    cell, src = _lexer_parts(s, args[0])
    return [(s, mk_int(src.length))]


def sp_ch(E, s, args, kw):
    """raw character code at offset p"""
    cell, src = _lexer_parts(s, args[0])
    return [(s, mk_int(z3.Select(src.arr, int_term(args[1]))))]


def sp_Pos(E, s, args, kw):
    """the position invariant: (line, col) == rawpos(pos)"""
    lx = args[0]
    cell, src = _lexer_parts(s, lx)
    p = int_term(cell.attrs["_Lexer__pos"])
    instantiate(E, src, p)
    t = z3.And(int_term(cell.attrs["_Lexer__line"]) == src.RL(p),
               int_term(cell.attrs["_Lexer__line_pos"]) == src.RC(p),
               p >= 0, p <= src.length)
    return [(s, mk_bool(t))]


def sp_is_char(E, s, args, kw):
    """is_char(lexer, p, 'x')"""
    cell, src = _lexer_parts(s, args[0])
    return [(s, mk_bool(z3.Select(src.arr, int_term(args[1])) == ord(args[2])))]


def sp_plain(E, s, args, kw):
    """plain(lexer, a, b): no newline, tab among raw offsets [a, b)"""
    cell, src = _lexer_parts(s, args[0])
    a, b = int_term(args[1]), int_term(args[2])
    K = z3.Int(fresh_name("k"))
    return [(s, SBool(z3.ForAll([K], z3.Implies(z3.And(a <= K, K < b),
                                                z3.And(z3.Select(src.arr, K) != NL, z3.Select(src.arr, K) != TAB)))))]


def sp_pos_of_some_offset(E, s, args, kw):
    """pos_of_some_offset(lexer, (line, col), lo, hi): the pair is rawpos(q) for a raw offset
    lo <= q < hi"""
    cell, src = _lexer_parts(s, args[0])
    pos, lo, hi = args[1], int_term(args[2]), int_term(args[3])
    q = z3.Int(fresh_name("q"))
    return [(s, SBool(z3.Exists([q], z3.And(lo <= q, q < hi, int_term(pos[0]) == src.RL(q),
                                            int_term(pos[1]) == src.RC(q)))))]


def len_hook(E, s, v):
    if isinstance(v, Src):
        return mk_int(v.length)
    return None


def install(E):
    E.slice_models["Src"] = src_slice
    for name, fn in {"rawline": sp_rawline, "rawcol": sp_rawcol, "lpos": sp_pos, "lline": sp_line, "lcol": sp_col,
                     "srclen": sp_srclen, "ch": sp_ch, "Pos": sp_Pos, "is_char": sp_is_char,
                     "plain": sp_plain,
                     "pos_of_some_offset": sp_pos_of_some_offset}.items():
        E.spec_builtins[name] = Builtin(name, fn)
    E.len_hooks.append(len_hook)
    install2(E)
    install_re(E)


# ----------------------------------------------------------------- respelling (C standard 5.2.1.1, 6.4.6)
TRIGRAPHS = {"??<": "{", "??>": "}", "??(": "[", "??)": "]", "??=": "#", "??/": "\\", "??'": "^", "??!": "|",
             "??-": "~"}
DIGRAPHS = {"<%": "{", "%>": "}", "<:": "[", ":>": "]", "%:": "#"}


def respell(src, p):
    """(logical character code, raw size) at raw offset p, as the C standard defines the
    alternative spellings: trigraphs first, then digraphs, else the character itself"""
    a = src.arr
    n = src.length
    c0, c1, c2 = z3.Select(a, p), z3.Select(a, p + 1), z3.Select(a, p + 2)
    char = c0
    size = z3.IntVal(1)
    for k, v in DIGRAPHS.items():
        m = z3.And(p + 1 < n, c0 == ord(k[0]), c1 == ord(k[1]))
        char = z3.If(m, ord(v), char)
        size = z3.If(m, 2, size)
    for k, v in TRIGRAPHS.items():
        m = z3.And(p + 2 < n, c0 == ord(k[0]), c1 == ord(k[1]), c2 == ord(k[2]))
        char = z3.If(m, ord(v), char)
        size = z3.If(m, 3, size)
    return char, size


def sp_respell_char(E, s, args, kw):
    cell, src = _lexer_parts(s, args[0])
    return [(s, mk_int(respell(src, int_term(args[1]))[0]))]


def sp_respell_size(E, s, args, kw):
    cell, src = _lexer_parts(s, args[0])
    return [(s, mk_int(respell(src, int_term(args[1]))[1]))]


def install2(E):
    E.spec_builtins["respell_char"] = Builtin("respell_char", sp_respell_char)
    E.spec_builtins["respell_size"] = Builtin("respell_size", sp_respell_size)


# ----------------------------------------------------------------- trusted contract of `re`
class RegexObj(Sym):
    __slots__ = ("tag",)

    def __init__(self, tag):
        self.tag = tag


RE_TRUSTED = ["re: pattern.match(s) returns None or a match with 1 <= end() <= len(s) whose named groups are "
              "strings no longer than end() (trusted; the numeric-literal patterns start with a mandatory digit or "
              "dot, so a match is never empty); which group gets which characters is NOT modelled (C11 is bounded)"]


def m_re_compile(E, s, args, kw):
    return [(s, RegexObj("re.compile"))]


def m_float_pattern(E, s, args, kw):
    return [(s, RegexObj("_float_pattern"))]


def regex_attr(E, s, v, attr):
    if attr not in ("match", "search"):
        return None

    def match(E_, s_, a, k):
        target = a[0]
        if isinstance(target, SrcTail):
            remaining = target.src.length - target.start
        elif isinstance(target, SStr):
            remaining = z3.Length(target.t)
        else:
            raise Unsupported("regex match on this value")
        none = z3.Bool(fresh_name("m_none"))
        end = z3.Int(fresh_name("m_end"))
        s_.assume(z3.Implies(z3.Not(none), z3.And(end >= 1, end <= remaining)))
        mo = s_.alloc(ObjCell("MatchObj", {"_end": SInt(end), "groups": ()}))
        return [(s_, SOpt(none, mo))]
    return [(s, Builtin("regex." + attr, match))]


def match_attr(E, s, ref, attr):
    if attr == "end":
        return [(s, Builtin("match.end", lambda E_, s_, a, k: [(s_, s_.cell(ref).attrs["_end"])]))]
    return None


def match_index(E, s, base, idx):
    """match["Group"]: the same string every time it is asked for"""
    cell = s.cell(base)
    groups = dict(cell.attrs["groups"])
    if not isinstance(idx, str):
        raise Unsupported("match[...] with a non-constant group")
    if idx not in groups:
        g = z3.String(fresh_name("group_" + idx))
        s.assume(z3.Length(g) <= int_term(cell.attrs["_end"]))
        groups[idx] = SStr(g)
        s.set_cell(base, cell.with_attr("groups", tuple(groups.items())))
    return [(s, groups[idx])]


def install_re(E):
    orig = E.pymodule_attr

    def pymodule_attr(mod, attr):
        if mod.name == "re" and attr == "compile":
            return Builtin("re.compile", m_re_compile)
        if mod.name == "re" and attr == "match":
            def re_match(E_, s_, a, k):
                return regex_attr(E_, s_, RegexObj("re.match"), "match")[0][1].fn(E_, s_, a[1:], k)
            return Builtin("re.match", re_match)
        if mod.name == "re" and attr in ("VERBOSE", "DOTALL"):
            return 0
        return orig(mod, attr)
    E.pymodule_attr = pymodule_attr
    E.models[LEXER + ":_float_pattern"] = m_float_pattern
    E.attr_models["MatchObj"] = match_attr
    E.index_models["MatchObj"] = match_index
    E.value_attr_hooks.append(lambda E_, s, v, attr: regex_attr(E_, s, v, attr) if isinstance(v, RegexObj) else None)
