"""Token-stream / Context model: builders for symbolic inputs and the spec-language
functions that talk about them."""
import z3

from ..pyvc.values import (Opaque, SInt, SBool, SStr, SKind, SKindSet, SOpt, Ref, ObjCell, StreamCell, TokList, Tok,
                           HistList, Builtin, ListCell, KINDS, int_term, mk_int, mk_bool, bool_term, fresh_name,
                           Raised, ExcVal)
from ..pyvc.spec import SpecError

I, B, S = z3.IntSort(), z3.BoolSort(), z3.StringSort()

CONTEXT = "norminette/context.py"


def make_stream(E, st, name="tk"):
    n = z3.Int(fresh_name(name + "_n"))
    st.assume(n >= 0)
    cell = StreamCell(kind=z3.Array(fresh_name(name + "_kind"), I, I),
                      lin=z3.Array(fresh_name(name + "_lin"), I, I),
                      col=z3.Array(fresh_name(name + "_col"), I, I),
                      hasval=z3.Array(fresh_name(name + "_hasval"), I, B),
                      val=z3.Array(fresh_name(name + "_val"), I, S),
                      n=n)
    return st.alloc(cell)


def make_history(E, st, name="hist", minlen=0):
    f = z3.Function(fresh_name(name), I, I)
    n = z3.Int(fresh_name(name + "_n"))
    st.assume(n >= minlen)
    return HistList(lambda i: f(i), n)


def empty_emitted():
    return {
        "n": z3.IntVal(0),
        "tot": z3.K(I, z3.IntVal(0)),
        "cnt": z3.K(I, z3.K(I, z3.IntVal(0))),
        "name": z3.K(I, z3.IntVal(0)),
        "line": z3.K(I, z3.IntVal(0)),
        "col": z3.K(I, z3.IntVal(0)),
        "level": z3.K(I, z3.IntVal(0)),
    }


def fresh_emitted(tag="em"):
    n = z3.Int(fresh_name(tag + "_n"))
    return {
        "n": n,
        "tot": z3.Array(fresh_name(tag + "_tot"), I, I),
        "cnt": z3.Array(fresh_name(tag + "_cnt"), I, z3.ArraySort(I, I)),
        "name": z3.Array(fresh_name(tag + "_name"), I, I),
        "line": z3.Array(fresh_name(tag + "_line"), I, I),
        "col": z3.Array(fresh_name(tag + "_col"), I, I),
        "level": z3.Array(fresh_name(tag + "_level"), I, I),
    }


def emit(st, name_code, level_code, line, col):
    """append one diagnostic to the ghost log"""
    em = dict(st.ghost["emitted"])
    n = em["n"]
    em["name"] = z3.Store(em["name"], n, name_code)
    em["line"] = z3.Store(em["line"], n, line)
    em["col"] = z3.Store(em["col"], n, col)
    em["level"] = z3.Store(em["level"], n, level_code)
    em["tot"] = z3.Store(em["tot"], name_code, z3.Select(em["tot"], name_code) + 1)
    row = z3.Select(em["cnt"], name_code)
    em["cnt"] = z3.Store(em["cnt"], name_code, z3.Store(row, line, z3.Select(row, line) + 1))
    em["n"] = z3.simplify(n + 1)
    st.ghost["emitted"] = em


def havoc_emitted(E, st):
    """loop cut / opaque call: the log may have grown arbitrarily (entries below the old
    length are not preserved by this havoc; invariants restate what they need)"""
    if "emitted" in st.ghost:
        em = fresh_emitted()
        st.assume(em["n"] >= 0)
        st.ghost["emitted"] = em


def make_scope(E, st, name="scope", cls=None, depth=1):
    """a Scope object of symbolic class; name == type(self).__name__ is the class
    invariant established by Scope.__init__ (proved under C07); GlobalScope is the only
    scope without parent (Scope.inner always passes self)"""
    k = z3.Int(fresh_name(name + "_cls"))
    if depth > 0:
        pnone = k == KINDS.code("GlobalScope")
        parent = SOpt(pnone, make_scope(E, st, name + "_p", depth=depth - 1))
    else:
        parent = Opaque(name + ".parent")
    attrs = {
        "name": SKind(k),
        "lines": SInt(z3.Int(fresh_name(name + "_lines"))),
        "instructions": SInt(z3.Int(fresh_name(name + "_instr"))),
        "vars": SInt(z3.Int(fresh_name(name + "_vars"))),
        "functions": SInt(z3.Int(fresh_name(name + "_functions"))),
        "lvl": SInt(z3.Int(fresh_name(name + "_lvl"))),
        "indent": SInt(z3.Int(fresh_name(name + "_indent"))),
        "multiline": SBool(z3.Bool(fresh_name(name + "_multiline"))),
        "__base__": "norminette/scope.py:Scope",
        "parent": parent,
        "vdeclarations_allowed": SOpt(z3.Bool(fresh_name(name + "_vda_none")),
                                      SBool(z3.Bool(fresh_name(name + "_vda")))),
    }
    vn = z3.Int(fresh_name(name + "_vars_name_len"))
    st.assume(vn >= 0)
    attrs["vars_name"] = st.alloc(ObjCell("SymList", {"__len__": SInt(vn)}))
    return st.alloc(ObjCell(SKind(k), attrs))


def make_file(E, st, name="file"):
    attrs = {
        "type": SStr(z3.String(fresh_name(name + "_type"))),
        "basename": SStr(z3.String(fresh_name(name + "_basename"))),
        "name": SStr(z3.String(fresh_name(name + "_name"))),
        "path": SStr(z3.String(fresh_name(name + "_path"))),
    }
    return st.alloc(ObjCell("File", attrs))


def make_preproc(E, st, name="pp"):
    ind = z3.Int(fresh_name(name + "_indent"))
    st.assume(ind >= 0)
    attrs = {
        "_indent": SInt(ind),
        "skip_define": SBool(z3.Bool(fresh_name(name + "_skip_define"))),
        "macros": st.alloc(ObjCell("MacroList", {})),
    }
    for k in ("total_ifs", "total_elifs", "total_elses", "total_ifdefs", "total_ifndefs"):
        attrs[k] = SInt(z3.Int(fresh_name(name + "_" + k)))
    cls = E.repo.find_class(CONTEXT, "PreProcessors")
    return st.alloc(ObjCell(cls, attrs))


def make_context(E, st, minhist=0, scope_in_stream=True):
    stream = make_stream(E, st)
    n = st.cell(stream).n
    tkn_scope = z3.Int(fresh_name("tkn_scope"))
    st.assume(tkn_scope >= 0)
    if scope_in_stream:
        st.assume(tkn_scope <= n)
    cls = E.repo.find_class(CONTEXT, "Context")
    st.ghost["emitted"] = fresh_emitted("em0")
    st.assume(st.ghost["emitted"]["n"] >= 0)
    attrs = {
        "tokens": TokList(stream, z3.IntVal(0), n),
        "tkn_scope": SInt(tkn_scope),
        "history": make_history(E, st, minlen=minhist),
        "scope": make_scope(E, st, depth=2),
        "errors": st.alloc(ObjCell("ErrorsGhost", {})),
        "file": make_file(E, st),
        "debug": SInt(z3.Int(fresh_name("debug"))),
        "header_started": SBool(z3.Bool(fresh_name("header_started"))),
        "header_parsed": SBool(z3.Bool(fresh_name("header_parsed"))),
        "header": SStr(z3.String(fresh_name("header"))),
        "protected": SBool(z3.Bool(fresh_name("protected"))),
        "fname_pos": SInt(z3.Int(fresh_name("fname_pos"))),
        "preproc": make_preproc(E, st),
        "sub": SOpt(z3.Bool(fresh_name("sub_none")), make_scope(E, st, "sub", depth=2)),
        "arg_pos": st.alloc(ListCell((SInt(z3.Int(fresh_name("argpos0"))), SInt(z3.Int(fresh_name("argpos1")))))),
    }
    return st.alloc(ObjCell(cls, attrs))


# ------------------------------------------------------------------ spec-language functions
def _ctx_tokens(s, ctx):
    if isinstance(ctx, TokList):
        return ctx
    tl = s.cell(ctx).attrs["tokens"]
    if not isinstance(tl, TokList):
        raise SpecError("context.tokens is not a token list")
    return tl


def _stream_of(s, ctx):
    tl = _ctx_tokens(s, ctx)
    return tl, s.cell(tl.stream)


def sp_ntok(E, s, args, kw):
    return [(s, mk_int(int_term(_ctx_tokens(s, args[0]).length)))]


def sp_kind(E, s, args, kw):
    tl, cell = _stream_of(s, args[0])
    return [(s, SKind(z3.Select(cell.kind, int_term(tl.off) + int_term(args[1]))))]


def sp_lin(E, s, args, kw):
    tl, cell = _stream_of(s, args[0])
    return [(s, mk_int(z3.Select(cell.lin, int_term(tl.off) + int_term(args[1]))))]


def sp_col(E, s, args, kw):
    tl, cell = _stream_of(s, args[0])
    return [(s, mk_int(z3.Select(cell.col, int_term(tl.off) + int_term(args[1]))))]


def sp_tok(E, s, args, kw):
    tl, cell = _stream_of(s, args[0])
    return [(s, Tok(tl.stream, z3.simplify(int_term(tl.off) + int_term(args[1]))))]


def sp_wrap(E, s, args, kw):
    """effective index of python's tokens[p]: p if p >= 0 else p + n"""
    tl, cell = _stream_of(s, args[0])
    p = int_term(args[1])
    return [(s, mk_int(z3.If(p >= 0, p, p + int_term(tl.length))))]


def sp_is_tok(E, s, args, kw):
    """value `t` is the token at relative index p of ctx"""
    tl, cell = _stream_of(s, args[0])
    t, p = args[1], args[2]
    if isinstance(t, SOpt):
        inner = t.val
        if not isinstance(inner, Tok):
            return [(s, False)]
        return [(s, mk_bool(z3.And(z3.Not(bool_term(t.isnone)), inner.idx == int_term(tl.off) + int_term(p))))]
    if not isinstance(t, Tok):
        return [(s, False)]
    return [(s, mk_bool(t.idx == int_term(tl.off) + int_term(p)))]


def _em(s):
    if "emitted" not in s.ghost:
        raise SpecError("no diagnostics ghost in this state")
    return s.ghost["emitted"]


def _code(v):
    if isinstance(v, str):
        return z3.IntVal(KINDS.code(v))
    if isinstance(v, SKind):
        return v.t
    raise SpecError(f"not a diagnostic name: {v!r}")


def sp_emitted_n(E, s, args, kw):
    return [(s, mk_int(_em(s)["n"]))]


def sp_emitted_total(E, s, args, kw):
    return [(s, mk_int(z3.Select(_em(s)["tot"], _code(args[0]))))]


def sp_emitted_count(E, s, args, kw):
    return [(s, mk_int(z3.Select(z3.Select(_em(s)["cnt"], _code(args[0])), int_term(args[1]))))]


def sp_emitted_name(E, s, args, kw):
    return [(s, SKind(z3.Select(_em(s)["name"], int_term(args[0]))))]


def sp_emitted_line(E, s, args, kw):
    return [(s, mk_int(z3.Select(_em(s)["line"], int_term(args[0]))))]


def sp_emitted_col(E, s, args, kw):
    return [(s, mk_int(z3.Select(_em(s)["col"], int_term(args[0]))))]


def sp_emitted_level(E, s, args, kw):
    return [(s, SKind(z3.Select(_em(s)["level"], int_term(args[0]))))]


def sp_val(E, s, args, kw):
    tl, cell = _stream_of(s, args[0])
    return [(s, SStr(z3.Select(cell.val, int_term(tl.off) + int_term(args[1]))))]


def sp_hasval(E, s, args, kw):
    tl, cell = _stream_of(s, args[0])
    return [(s, mk_bool(z3.Select(cell.hasval, int_term(tl.off) + int_term(args[1]))))]


def sp_hist_name(E, s, args, kw):
    h = s.cell(args[0]).attrs["history"]
    return [(s, SKind(h.name(int_term(args[1]))))]


def havoc_stream_positions(E, st, frame):
    """token.pos = ... inside a cut loop: every position may have changed"""
    env = frame if frame is not None else st.locals
    ctx = env["context"]
    tl = st.cell(ctx).attrs["tokens"]
    cell = st.cell(tl.stream)
    st.set_cell(tl.stream, cell.replace(lin=z3.Array(fresh_name("lin_h"), I, I),
                                        col=z3.Array(fresh_name("col_h"), I, I)))


def sp_hist_len(E, s, args, kw):
    h = s.cell(args[0]).attrs["history"]
    return [(s, mk_int(h.length))]


def tok_type(E, st, name):
    """value type 'opttok:<ctxvar>' is resolved by contracts through call_effect instead"""
    raise SpecError("tok type needs a context")


def install(E):
    for name, fn in {
        "ntok": sp_ntok, "kind": sp_kind, "lin": sp_lin, "col": sp_col, "tok": sp_tok, "wrap": sp_wrap,
        "is_tok": sp_is_tok,
        "emitted_n": sp_emitted_n, "emitted_total": sp_emitted_total, "emitted_count": sp_emitted_count,
        "emitted_name": sp_emitted_name, "emitted_line": sp_emitted_line, "emitted_col": sp_emitted_col,
        "emitted_level": sp_emitted_level, "hist_len": sp_hist_len, "hist_name": sp_hist_name,
        "val": sp_val, "hasval": sp_hasval,
    }.items():
        E.spec_builtins[name] = Builtin(name, fn)
    E.ghost_havoc["emitted"] = havoc_emitted
    E.havoc_models["stream"] = havoc_stream_positions
