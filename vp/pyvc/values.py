"""Value model of pyvc.

Concrete Python values (int, bool, str, None, tuple) are used as they are.  Mutable
objects live in a per-path heap (State.heap: address -> immutable cell, replaced on
write) and are referred to by Ref, so forking a path is a shallow dict copy and values
"in flight" stay valid on both sides of a fork.  Symbolic leaves wrap z3 terms.
"""
import itertools
import z3

_fresh = itertools.count()


def fresh_name(base):
    return f"{base}!{next(_fresh)}"


class Sym:
    """immutable value"""
    __slots__ = ()


class SInt(Sym):
    __slots__ = ("t",)

    def __init__(self, t):
        self.t = t

    def __repr__(self):
        return f"SInt({self.t})"


class SBool(Sym):
    __slots__ = ("t",)

    def __init__(self, t):
        self.t = t

    def __repr__(self):
        return f"SBool({self.t})"


class SStr(Sym):
    """z3 String term"""
    __slots__ = ("t",)

    def __init__(self, t):
        self.t = t

    def __repr__(self):
        return f"SStr({self.t})"


class Intern:
    """string <-> small integer code, used for token kinds / rule names"""

    def __init__(self):
        self.codes = {}
        self.names = []

    def code(self, s):
        if s not in self.codes:
            self.codes[s] = len(self.names) + 1
            self.names.append(s)
        return self.codes[s]

    def name(self, c):
        if 1 <= c <= len(self.names):
            return self.names[c - 1]
        return f"<other#{c}>"


KINDS = Intern()


class SKind(Sym):
    """a string drawn from an open enumeration, represented by its integer code; only
    equality / membership with constants is meaningful"""
    __slots__ = ("t",)

    def __init__(self, t):
        self.t = t

    def __repr__(self):
        return f"SKind({self.t})"


class SKindSet(Sym):
    """a list/tuple of kind strings known only as a membership predicate (Array Int->Bool);
    `is_seq` says that isinstance(x, (tuple, list)) holds"""
    __slots__ = ("member",)

    def __init__(self, member):
        self.member = member


class SStrV(Sym):
    """short string with at most len(chars) characters: chars[i] are z3 Int code points,
    `length` a z3 Int (0 <= length <= len(chars)) -- characters beyond length are junk"""
    __slots__ = ("chars", "length")

    def __init__(self, chars, length):
        self.chars = list(chars)
        self.length = length

    def __repr__(self):
        return f"SStrV({self.chars},{self.length})"


class SOpt(Sym):
    """value that is None when `isnone` holds, `val` otherwise"""
    __slots__ = ("isnone", "val")

    def __init__(self, isnone, val):
        self.isnone = isnone
        self.val = val

    def __repr__(self):
        return f"SOpt({self.isnone},{self.val})"


class Opaque(Sym):
    """a value the engine knows nothing about; any use other than passing it around is
    an unsupported construct"""
    __slots__ = ("why",)

    def __init__(self, why="?"):
        self.why = why

    def __repr__(self):
        return f"Opaque({self.why})"


class Undefined(Sym):
    __slots__ = ("name",)

    def __init__(self, name):
        self.name = name


class Ref(Sym):
    """address of a heap cell"""
    __slots__ = ("addr",)

    def __init__(self, addr):
        self.addr = addr

    def __repr__(self):
        return f"Ref({self.addr})"

    def __eq__(self, o):
        return isinstance(o, Ref) and o.addr == self.addr

    def __hash__(self):
        return hash(("Ref", self.addr))


# ---------------------------------------------------------------- heap cells (immutable)
class ListCell:
    __slots__ = ("items",)

    def __init__(self, items=()):
        self.items = tuple(items)


class DictCell:
    __slots__ = ("d",)

    def __init__(self, d=None):
        self.d = dict(d or {})


class IntSetCell:
    """set / dict-with-constant-values keyed by symbolic integers"""
    __slots__ = ("present",)

    def __init__(self, present=None):
        self.present = present if present is not None else z3.K(z3.IntSort(), z3.BoolVal(False))


class ObjCell:
    """cls: ClassRef, a model tag (str) or SKind (symbolic class, identified by its name)"""
    __slots__ = ("cls", "attrs")

    def __init__(self, cls, attrs=None):
        self.cls = cls
        self.attrs = dict(attrs or {})

    def with_attr(self, name, value):
        c = ObjCell(self.cls, self.attrs)
        c.attrs[name] = value
        return c


class StreamCell:
    """token stream: arrays indexed by absolute token index, `n` tokens"""
    __slots__ = ("kind", "lin", "col", "hasval", "val", "n")

    def __init__(self, kind, lin, col, hasval, val, n):
        self.kind, self.lin, self.col, self.hasval, self.val, self.n = kind, lin, col, hasval, val, n

    def replace(self, **kw):
        d = {k: getattr(self, k) for k in self.__slots__}
        d.update(kw)
        return StreamCell(**d)


class TokList(Sym):
    """tokens[k] = stream[off + k] for 0 <= k < length"""
    __slots__ = ("stream", "off", "length")

    def __init__(self, stream, off, length):
        self.stream, self.off, self.length = stream, off, length


class Tok(Sym):
    __slots__ = ("stream", "idx")

    def __init__(self, stream, idx):
        self.stream, self.idx = stream, idx

    def __repr__(self):
        return f"Tok({self.idx})"


class HistList(Sym):
    """context.history: `name(i)` is the interned rule name of entry i, 0 <= i < length"""
    __slots__ = ("name", "length")

    def __init__(self, name, length):
        self.name, self.length = name, length


class FuncRef(Sym):
    __slots__ = ("module", "qualname", "node", "cls")

    def __init__(self, module, qualname, node, cls=None):
        self.module, self.qualname, self.node, self.cls = module, qualname, node, cls

    @property
    def key(self):
        return f"{self.module}:{self.qualname}"

    def __repr__(self):
        return f"FuncRef({self.key})"


class ClassRef(Sym):
    __slots__ = ("module", "name", "node")

    def __init__(self, module, name, node):
        self.module, self.name, self.node = module, name, node

    @property
    def key(self):
        return f"{self.module}:{self.name}"

    def __repr__(self):
        return f"ClassRef({self.key})"

    def __eq__(self, other):
        return isinstance(other, ClassRef) and other.key == self.key

    def __hash__(self):
        return hash(self.key)


class SType(Sym):
    """type(obj) of an object whose class is symbolic (by name code)"""
    __slots__ = ("t",)

    def __init__(self, t):
        self.t = t


class BoundMethod(Sym):
    __slots__ = ("self_", "func")

    def __init__(self, self_, func):
        self.self_, self.func = self_, func


class Builtin(Sym):
    __slots__ = ("name", "fn")

    def __init__(self, name, fn):
        self.name, self.fn = name, fn

    def __repr__(self):
        return f"Builtin({self.name})"


class PyModule(Sym):
    """a stdlib module of which a few pure attributes may be read concretely"""
    __slots__ = ("name",)

    def __init__(self, name):
        self.name = name


class ExcVal(Sym):
    """a raised exception"""
    __slots__ = ("type", "args")

    def __init__(self, type_, args=()):
        self.type = type_
        self.args = tuple(args)

    def __repr__(self):
        return f"ExcVal({self.type})"


class ExcClass(Sym):
    __slots__ = ("name",)

    def __init__(self, name):
        self.name = name


class Raised(Sym):
    __slots__ = ("exc",)

    def __init__(self, exc):
        self.exc = exc

    def __repr__(self):
        return f"Raised({self.exc})"


# exception hierarchy used by try/except matching (child -> parent)
EXC_PARENT = {
    "BaseException": None,
    "Exception": "BaseException",
    "KeyboardInterrupt": "BaseException",
    "SystemExit": "BaseException",
    "NorminetteError": "Exception",
    "CParsingError": "NorminetteError",
    "MaybeInfiniteLoop": "NorminetteError",
    "UnexpectedEOF": "NorminetteError",
    "LookupError": "Exception",
    "IndexError": "LookupError",
    "KeyError": "LookupError",
    "AttributeError": "Exception",
    "TypeError": "Exception",
    "ValueError": "Exception",
    "AssertionError": "Exception",
    "RecursionError": "Exception",
    "NameError": "Exception",
    "UnboundLocalError": "NameError",
    "StopIteration": "Exception",
    "BodyException": "Exception",
}


def exc_isinstance(tname, cname):
    while tname is not None:
        if tname == cname:
            return True
        tname = EXC_PARENT.get(tname)
    return False


# ---------------------------------------------------------------- coercions
def int_term(v):
    if isinstance(v, bool):
        return z3.IntVal(1 if v else 0)
    if isinstance(v, int):
        return z3.IntVal(v)
    if isinstance(v, SInt):
        return v.t
    if isinstance(v, SBool):
        return z3.If(v.t, z3.IntVal(1), z3.IntVal(0))
    if isinstance(v, z3.ArithRef):
        return v
    raise TypeError(f"not an int: {v!r}")


def is_intlike(v):
    return isinstance(v, (int, SInt, SBool))


def bool_term(b):
    if isinstance(b, bool):
        return z3.BoolVal(b)
    return b


def mk_int(t):
    """z3 term -> python int when it is a numeral, else SInt"""
    if isinstance(t, int):
        return t
    t = z3.simplify(t)
    if z3.is_int_value(t):
        return t.as_long()
    return SInt(t)


def mk_bool(t):
    if isinstance(t, bool):
        return t
    t = z3.simplify(t)
    if z3.is_true(t):
        return True
    if z3.is_false(t):
        return False
    return SBool(t)


def strv_of_const(s):
    return SStrV([z3.IntVal(ord(ch)) for ch in s], z3.IntVal(len(s)))


def str_term(v):
    """value -> z3 String term"""
    if isinstance(v, str):
        return z3.StringVal(v)
    if isinstance(v, SStr):
        return v.t
    if isinstance(v, SStrV):
        parts = []
        for i, ch in enumerate(v.chars):
            parts.append(z3.If(v.length > i, z3.StrFromCode(ch), z3.StringVal("")))
        if not parts:
            return z3.StringVal("")
        if len(parts) == 1:
            return parts[0]
        return z3.Concat(*parts)
    raise TypeError(f"not a str: {v!r}")
