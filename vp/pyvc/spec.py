"""Sidecar contracts: requires / ensures / raises / modifies / loop invariants, their use
at call sites (modular verification) and the verification of a real body against them."""
import ast
import copy

import z3

from .values import (Sym, SInt, SBool, SStr, SKind, SKindSet, SStrV, SOpt, Opaque, Ref, ListCell, DictCell,
                     IntSetCell, ObjCell, TokList, Tok, HistList, FuncRef, ClassRef, Builtin, Raised, ExcVal,
                     KINDS, int_term, bool_term, mk_int, mk_bool, fresh_name, is_intlike, exc_isinstance)
from .ops import Unsupported, truth
from . import ops
from .engine import Engine, SpecError, LambdaVal
from .loops import LoopSpec
from .state import State


class Contract:
    def __init__(self, key, setup=None, result=None, doc=""):
        self.key = key
        self.setup = setup            # setup(E, st) -> dict param -> value   (for verification)
        self.result = result          # result shape for call-site use
        self.requires = []
        self.ensures = []             # (name, expr)
        self.raises = []              # (exc type, when expr or None)
        self.loops = {}               # ordinal -> LoopSpec
        self.free = []                # (name, type)
        self.modifies = []            # spec paths havocked at call sites
        self.must_fail = []           # (name, expr) vacuity guards: obligations that have to be refuted
        self.pure = True              # no emitted diagnostics / heap writes at call sites
        self.doc = doc
        self.variants = []            # list of setup variants (name, setup)
        self.call_effect = None       # optional python hook(E, s, frame, result) applied at call sites
        self.min_obligations = 1
        self.assumes = []             # (text) assumptions used by this contract (reported)
        self.env = {}                 # constants visible to spec expressions
        self.body_slice = None        # callable(list of stmts) -> (kept stmts, dropped stmts)
        self.dropped_scan = None      # callable(dropped stmts) -> None | reason (syntactic frame of the rest)
        self.exc_ensures = []         # (exc type, name, expr over exc_arg) checked on raising paths
        self.raise_only_if = {}       # exc type -> expr (necessary condition for raising)
        # verify(): heap writes of the body stay within `modifies`.  None = decide at
        # verification time: checked when this contract is also the call-site contract of its
        # function in the same engine (that is where a missing modifies entry is unsound)
        self.check_frame = None

    # builder API ------------------------------------------------------------
    def req(self, expr):
        self.requires.append(expr)
        return self

    def ens(self, expr, name=None):
        self.ensures.append((name or f"post{len(self.ensures)}", expr))
        return self

    def rais(self, exc, when=None, only_if=None):
        """when: raises exactly when it holds; only_if: may raise, but only if it holds"""
        self.raises.append((exc, when))
        if only_if is not None:
            self.raise_only_if[exc] = only_if
        return self

    def ens_exc(self, exc, expr, name=None):
        self.exc_ensures.append((exc, name or f"excpost{len(self.exc_ensures)}", expr))
        return self

    def loop(self, ordinal, **kw):
        self.loops[ordinal] = LoopSpec(**kw)
        return self

    def forall_const(self, name, ty="int"):
        self.free.append((name, ty))
        return self

    def mustfail(self, expr, name=None):
        self.must_fail.append((name or f"mustfail{len(self.must_fail)}", expr))
        return self

    # call-site use --------------------------------------------------------------
    def apply_at_call(self, E, s, fref, args, kwargs):
        frame = E.bind_args(fref, args, kwargs, s)
        frame.update(self.env)
        pre = s.fork()
        short = self.key.split(":")[1]
        for k, r in enumerate(self.requires):
            f = E.spec_formula(s, r, frame, old_state=pre)
            E.oblige(s, f"callsite.{short}.pre{k}", f, kind="callsite-pre", meta={"requires": r})
            s.assume(f)
        out = []
        paths = [(s, None)]
        for exc, when in self.raises:
            nxt = []
            for s1, _ in paths:
                if when is None:
                    s2 = s1.fork()
                    if exc in self.raise_only_if:
                        s2.assume(E.spec_formula(s2, self.raise_only_if[exc], frame, old_state=pre))
                        if not E.feasible(s2):
                            nxt.append((s1, None))
                            continue
                    exc_posts = [e for x, _n, e in self.exc_ensures if x == exc]
                    # the callee may have written its frame before raising
                    for p in self.modifies:
                        E.havoc_path(s2, p, LoopSpec(), frame)
                    if not self.pure:
                        E.havoc_ghost(s2)
                    for e in exc_posts:
                        s2.assume(E.spec_formula(s2, e, frame, old_state=pre))
                    out.append((s2, Raised(ExcVal(exc, ()))))
                    nxt.append((s1, None))
                else:
                    w = E.spec_formula(s1, when, frame, old_state=pre)
                    for s2, b in E.split(s1, w):
                        if b:
                            for p in self.modifies:
                                E.havoc_path(s2, p, LoopSpec(), frame)
                            if not self.pure:
                                E.havoc_ghost(s2)
                            for x, _n, e in self.exc_ensures:
                                if x == exc:
                                    s2.assume(E.spec_formula(s2, e, frame, old_state=pre))
                            out.append((s2, Raised(ExcVal(exc, ()))))
                        else:
                            nxt.append((s2, None))
            paths = nxt
        for s1, _ in paths:
            for p in self.modifies:
                E.havoc_path(s1, p, LoopSpec(), frame)
            if not self.pure:
                E.havoc_ghost(s1)
            res = E.fresh_value(s1, self.result, "ret_" + short.split(".")[-1], frame) if self.result else None
            env = dict(frame)
            env["result"] = res
            if self.call_effect is not None:
                self.call_effect(E, s1, env)
            for name, e in self.ensures:
                s1.assume(E.spec_formula(s1, e, env, old_state=pre))
            out.append((s1, res))
        return out


# ---------------------------------------------------------------------------- engine extensions
def fresh_value(E, st, ty, name="v", frame=None):
    if ty is None:
        return None
    if isinstance(ty, tuple):
        return tuple(fresh_value(E, st, t, f"{name}_{i}", frame) for i, t in enumerate(ty))
    if callable(ty):
        return ty(E, st, name, frame)
    if ty == "int":
        return SInt(z3.Int(fresh_name(name)))
    if ty == "nat":
        v = z3.Int(fresh_name(name))
        st.assume(v >= 0)
        return SInt(v)
    if ty == "bool":
        return SBool(z3.Bool(fresh_name(name)))
    if ty == "str":
        return SStr(z3.String(fresh_name(name)))
    if ty == "kind":
        return SKind(z3.Int(fresh_name(name)))
    if ty == "optbool":
        return SOpt(z3.Bool(fresh_name(name + "_none")), SBool(z3.Bool(fresh_name(name))))
    if ty == "optstr":
        return SOpt(z3.Bool(fresh_name(name + "_none")), SStr(z3.String(fresh_name(name))))
    if ty == "optkind":
        return SOpt(z3.Bool(fresh_name(name + "_none")), SKind(z3.Int(fresh_name(name))))
    if ty == "none":
        return None
    if ty == "opaque":
        return Opaque(name)
    if ty in E.value_types:
        return E.value_types[ty](E, st, name)
    raise SpecError(f"unknown value type {ty!r}")


def resolve_path(E, st, path, frame=None):
    """'context.scope.lines' -> (owner value, attr)"""
    parts = path.split(".")
    env = frame if frame is not None else st.locals
    if parts[0] not in env:
        raise SpecError(f"havoc path {path}: unknown root")
    v = env[parts[0]]
    for p in parts[1:-1]:
        res = E.getattr(st, v, p)
        if len(res) != 1 or isinstance(res[0][1], Raised):
            raise SpecError(f"havoc path {path}: cannot resolve {p}")
        v = res[0][1]
    return v, parts[-1]


def havoc_path(E, st, path, spec, frame=None):
    ty = None
    if ":" in path:
        path, ty = path.split(":")
    if path in E.havoc_models:
        return E.havoc_models[path](E, st, frame)
    owner, attr = resolve_path(E, st, path, frame)
    if not isinstance(owner, Ref):
        raise SpecError(f"havoc path {path}: owner is not an object")
    cell = st.cell(owner)
    cur = cell.attrs.get(attr)
    if ty is None:
        if isinstance(cur, (bool, SBool)):
            ty = "bool"
        elif isinstance(cur, (int, SInt)):
            ty = "int"
        elif isinstance(cur, (str, SStr)):
            ty = "str"
        elif isinstance(cur, SKind):
            ty = "kind"
        else:
            raise SpecError(f"havoc path {path}: give a type")
    st.set_cell(owner, cell.with_attr(attr, fresh_value(E, st, ty, attr)))


def havoc_ghost(E, st):
    for name, fn in E.ghost_havoc.items():
        fn(E, st)


class _OldRewriter(ast.NodeTransformer):
    def __init__(self):
        self.olds = []

    def visit_Call(self, node):
        if isinstance(node.func, ast.Name) and node.func.id == "old" and len(node.args) == 1:
            name = f"__old{len(self.olds)}"
            self.olds.append((name, node.args[0]))
            return ast.copy_location(ast.Name(id=name, ctx=ast.Load()), node)
        if isinstance(node.func, ast.Name) and node.func.id == "implies" and len(node.args) == 2:
            # lazy implication: the consequent is only evaluated where the antecedent holds
            a, b = self.visit(node.args[0]), self.visit(node.args[1])
            new = ast.BoolOp(op=ast.Or(), values=[ast.UnaryOp(op=ast.Not(), operand=a), b])
            return ast.copy_location(new, node)
        return self.generic_visit(node)


_parse_cache = {}


def parse_spec(expr):
    if expr not in _parse_cache:
        tree = ast.parse(expr.strip(), mode="eval")
        rw = _OldRewriter()
        body = rw.visit(tree.body)
        ast.fix_missing_locations(body)
        _parse_cache[expr] = (body, rw.olds)
    return _parse_cache[expr]


def spec_eval(E, st, expr, env_extra=None, old_state=None):
    """evaluate a spec expression without disturbing st -> list of (pc delta, value)"""
    body, olds = parse_spec(expr) if isinstance(expr, str) else (expr, [])
    work = st.fork()
    base = len(work.pc)
    frame = {}
    if env_extra is not None and "__noframe__" in env_extra:
        pass
    else:
        frame.update({k: v for k, v in work.frames[-1].items()})
    if E.spec_env:
        frame.update(E.spec_env[-1])
    if env_extra:
        frame.update(env_extra)
    ostate = old_state if old_state is not None else (E.entry_states[-1] if E.entry_states else None)
    for name, onode in olds:
        if ostate is None:
            raise SpecError("old() used without an entry state")
        o = ostate.fork()
        o.pc = list(work.pc)
        oframe = dict(o.frames[-1])
        if E.spec_env:
            oframe.update(E.spec_env[-1])
        if env_extra:
            oframe.update({k: v for k, v in env_extra.items() if k not in ("result",)})
        o.frames.append(oframe)
        E.spec_mode += 1
        try:
            res = E.ev(onode, o)
        finally:
            E.spec_mode -= 1
        good = [r for r in res if not isinstance(r[1], Raised)]
        if not good and res:
            frame[name] = Opaque("old() of an expression that raises on this path")
            continue
        if len(good) != 1:
            raise SpecError(f"old({ast.unparse(onode)}) does not evaluate to one value")
        # a None-dereference inside old() leaves the value unspecified on that side; the
        # clause has to guard it (as in Python, where it would raise)
        frame[name] = good[0][1]
    work.frames.append(frame)
    E.spec_mode += 1
    try:
        res = E.ev(body, work)
    finally:
        E.spec_mode -= 1
    out = []
    for s2, v in res:
        if isinstance(v, Raised):
            raise SpecError(f"spec expression {expr!r} raises {v.exc.type} {v.exc.args}")
        out.append((s2.pc[base:], v, s2))
    return out


def spec_formula(E, st, expr, env_extra=None, old_state=None):
    res = spec_eval(E, st, expr, env_extra, old_state)
    alts = []
    for delta, v, s2 in res:
        t = bool_term(truth(v, s2))
        alts.append(z3.And(*delta, t) if delta else t)
    if len(alts) == 1:
        return alts[0]
    return z3.Or(*alts)


def spec_value(E, st, expr, env_extra=None, old_state=None):
    res = spec_eval(E, st, expr, env_extra, old_state)
    if len(res) == 1:
        return res[0][1]
    if all(is_intlike(v) for _, v, _ in res):
        t = int_term(res[-1][1])
        for delta, v, _ in reversed(res[:-1]):
            t = z3.If(z3.And(*delta) if delta else z3.BoolVal(True), int_term(v), t)
        return mk_int(t)
    raise SpecError(f"spec expression {expr!r} forks into non-integer values")


# spec builtins -----------------------------------------------------------------
def _implies(E, s, args, kw):
    a, b = args
    return [(s, mk_bool(z3.Implies(bool_term(truth(a, s)), bool_term(truth(b, s)))))]


def _iff(E, s, args, kw):
    a, b = args
    return [(s, mk_bool(bool_term(truth(a, s)) == bool_term(truth(b, s))))]


def _lam_formula(E, s, lam, kvar):
    """evaluate lambda body with its parameter bound to SInt(kvar) -> z3 Bool"""
    names = [x.arg for x in lam.node.args.args]
    if len(names) != 1:
        raise SpecError("quantifier lambda takes one parameter")
    env = dict(lam.env)
    env[names[0]] = SInt(kvar)
    env["__noframe__"] = True
    return spec_formula(E, s, lam.node.body, env)


def _forall(E, s, args, kw):
    lo, hi, lam = args
    K = z3.Int(fresh_name("k"))
    body = _lam_formula(E, s, lam, K)
    return [(s, SBool(z3.ForAll([K], z3.Implies(z3.And(int_term(lo) <= K, K < int_term(hi)), body))))]


def _exists(E, s, args, kw):
    lo, hi, lam = args
    K = z3.Int(fresh_name("k"))
    body = _lam_formula(E, s, lam, K)
    return [(s, SBool(z3.Exists([K], z3.And(int_term(lo) <= K, K < int_term(hi), body))))]


_count_cache = {}


def count_instance(E, entry, point):
    """definitional axiom of a prefix-count function at one point"""
    f, lo_t, body, K = entry
    ax = z3.If(point <= lo_t, f(point) == 0,
               f(point) == f(point - 1) + z3.If(z3.substitute(body, (K, point - 1)), 1, 0))
    E.add_axiom(ax)


def _count(E, s, args, kw):
    """count(lo, hi, lambda k: P) = #{k in [lo,hi) : P(k)}: an uninterpreted function whose
    defining equations are instantiated explicitly at every upper bound that is mentioned
    (and at bound-1), never left to quantifier heuristics"""
    lo, hi, lam = args
    K = z3.Int("K!count")
    body = _lam_formula(E, s, lam, K)
    lo_t = int_term(lo)
    key = (lo_t.sexpr(), body.sexpr())
    if key not in _count_cache:
        f = z3.Function(fresh_name("count"), z3.IntSort(), z3.IntSort())
        _count_cache[key] = (f, lo_t, body, K)
        E.rec_functions.append(_count_cache[key])
    entry = _count_cache[key]
    f = entry[0]
    h = z3.simplify(int_term(hi))
    count_instance(E, entry, h)
    count_instance(E, entry, z3.simplify(h - 1))
    E.add_axiom(f(h) >= 0)
    return [(s, mk_int(f(h)))]


def _ite(E, s, args, kw):
    c, a, b = args
    t = bool_term(truth(c, s))
    if is_intlike(a) and is_intlike(b):
        return [(s, mk_int(z3.If(t, int_term(a), int_term(b))))]
    raise SpecError("ite over non-integers")


def _isnone(E, s, args, kw):
    (v,) = args
    r = ops.values_is(v, None, s) if (v is None or isinstance(v, SOpt)) else False
    return [(s, mk_bool(r) if not isinstance(r, bool) else r)]


def _final(E, s, args, kw):
    """final('name'): value of a local variable of the function under verification when it
    returned or raised"""
    key = "final_locals:" + E.verifying.key
    fr = s.ghost.get(key)
    if fr is None or args[0] not in fr:
        # the contract names a local variable the function no longer has (renamed?): it decides
        # nothing on this tree
        raise Unsupported(f"the contract refers to a local variable {args[0]!r} that the function does not have")
    return [(s, fr[args[0]])]


SPEC_BUILTINS = {
    "final": _final,
    "implies": _implies, "iff": _iff, "forall": _forall, "exists": _exists, "count": _count, "ite": _ite,
    "isnone": _isnone,
}


def install(E):
    for k, fn in SPEC_BUILTINS.items():
        E.spec_builtins.setdefault(k, Builtin(k, fn))


# ---------------------------------------------------------------------------- verification
class VerifyResult:
    def __init__(self, key):
        self.key = key
        self.paths = 0
        self.obligations = []
        self.unsupported = None
        self.src_hash = None
        self.lines = None
        self.notes = []


def verify(E, contract, variant=None, setup=None):
    """run the real body of contract.key against the contract; obligations are appended
    to E.obligations and also returned"""
    fref = E.repo.find_function(contract.key)
    res = VerifyResult(contract.key)
    if fref is None:
        res.unsupported = f"function {contract.key} not found"
        return res
    res.src_hash = E.repo.func_hash(fref)
    res.lines = E.repo.func_lines(fref)
    start = len(E.obligations)
    short = contract.key.split(":")[1]
    saved_prefix = E.prefix
    E.prefix = saved_prefix + short + (f"[{variant}]" if variant else "") + "."
    st = State()
    E.verifying = contract
    E.verifying_depth = len(E.current_func) + 1
    saved_loops = dict(E.loop_specs)
    for o, ls in contract.loops.items():
        E.loop_specs[(fref.key, o)] = ls
    try:
        E.current_func.append(fref)
        try:
            params = (setup or contract.setup)(E, st)
        finally:
            E.current_func.pop()
        frame = E.bind_args(fref, [], dict(params), st)
        free = {}
        for name, ty in contract.free:
            free[name] = fresh_value(E, st, ty, name)
        free.update(contract.env)
        E.spec_env.append(free)
        # requires
        st.frames.append(dict(frame))
        for r in contract.requires:
            st.assume(spec_formula(E, st, r))
        st.frames.pop()
        # vacuity: the precondition must be satisfiable
        if not E.feasible(st):
            raise SpecError(f"precondition of {contract.key} is unsatisfiable (vacuous contract)")
        if any(E.has_quantifier(t) for t in st.pc):
            _s = z3.Solver()
            _s.set("timeout", 10000)
            _s.add(*st.pc)
            if _s.check() == z3.unsat:
                raise SpecError(f"precondition of {contract.key} is unsatisfiable (vacuous contract)")
        entry = st.fork()
        entry.frames.append(dict(frame))
        E.entry_states.append(entry)
        try:
            run_ref = fref
            if contract.body_slice is not None:
                import copy as _copy
                kept, dropped = contract.body_slice(list(fref.node.body))
                # locals that only the dropped statements assign and the setup does not bind: using one
                # of them is a limit of the slice (e.g. a renamed variable), not an unbound local
                import ast as _ast
                E.slice_outside_names = {x.id for d in dropped for x in _ast.walk(d)
                                         if isinstance(x, _ast.Name) and isinstance(x.ctx, _ast.Store)} - set(frame)
                node2 = _copy.copy(fref.node)
                node2.body = kept
                run_ref = FuncRef(fref.module, fref.qualname, node2, fref.cls)
                if getattr(contract, "slice_desc", None):
                    res.notes.append(f"{contract.key}: {contract.slice_desc} ({len(dropped)} statements dropped "
                                     f"mechanically: lines {sorted(d.lineno for d in dropped)}; they are covered "
                                     f"by a syntactic frame scan only)")
                else:
                    res.notes.append(f"{contract.key}: verified text is the first {len(kept)} top-level statements "
                                     f"of the body (mechanical slice, lines {kept[0].lineno}-{kept[-1].end_lineno}); "
                                     f"the {len(dropped)} statements after it are covered by a syntactic frame scan only")
                if contract.dropped_scan is not None:
                    why = contract.dropped_scan(dropped)
                    E.oblige(st, "slice.rest_frame", z3.BoolVal(why is None), kind="frame",
                             meta={"reason": why})
            results = E.run_body(st, run_ref, dict(frame))
            for s, v in results:
                res.paths += 1
                E.paths_explored += 1
                s.frames.append(dict(frame))
                if isinstance(v, Raised):
                    allowed = [(exc, when) for exc, when in contract.raises if exc_isinstance(v.exc.type, exc)]
                    if not allowed:
                        E.oblige(s, f"raises.unexpected.{v.exc.type}", z3.BoolVal(False), kind="raises",
                                 meta={"exception": v.exc.type, "args": [str(a) for a in v.exc.args]})
                    else:
                        for exc, name, e in contract.exc_ensures:
                            if exc_isinstance(v.exc.type, exc):
                                arg = v.exc.args[0] if v.exc.args else None
                                f = spec_formula(E, s, e, {"exc_arg": arg}, old_state=entry)
                                E.oblige(s, f"raises.{exc}.{name}", f, kind="post", meta={"ensures": e})
                        for exc, when in allowed:
                            if exc in contract.raise_only_if:
                                E.oblige(s, f"raises.{exc}.only_if",
                                         spec_formula(E, s, contract.raise_only_if[exc], old_state=entry),
                                         kind="raises", meta={"when": contract.raise_only_if[exc]})
                            if when is not None:
                                E.oblige(s, f"raises.{exc}.when", spec_formula(E, s, when, old_state=entry),
                                         kind="raises", meta={"when": when})
                else:
                    for exc, when in contract.raises:
                        if when is not None:
                            E.oblige(s, f"raises.{exc}.only_when",
                                     z3.Not(spec_formula(E, s, when, old_state=entry)), kind="raises",
                                     meta={"when": when})
                    for name, e in contract.ensures:
                        f = spec_formula(E, s, e, {"result": v}, old_state=entry)
                        E.oblige(s, f"post.{name}", f, kind="post", meta={"ensures": e})
                    for name, e in contract.must_fail:
                        f = spec_formula(E, s, e, {"result": v}, old_state=entry)
                        E.oblige(s, f"mustfail.{name}", f, kind="mustfail", meta={"ensures": e})
                # frame: heap writes are within the modifies clause (what call sites havoc),
                # and a contract that is pure at call sites emits nothing
                if contract.check_frame or (contract.check_frame is None and E.contracts.get(contract.key) is contract
                                            and contract.call_effect is None) \
                        or (contract.check_frame is None and contract.call_effect is None
                            and E.contracts.get(contract.key) is not None
                            and not getattr(E.contracts[contract.key], "assumed", False)):
                    bad = frame_violations(E, entry, s, contract, frame)
                    E.oblige(s, "frame.modifies", z3.BoolVal(not bad), kind="frame",
                             meta={"writes_outside_modifies": bad, "modifies": list(contract.modifies)})
                # frame: module-level mutable state untouched
                for gk, gv in entry.globals.items():
                    if isinstance(gv, Ref) and isinstance(entry.heap.get(gv.addr), ListCell):
                        now = s.heap.get(gv.addr)
                        same = isinstance(now, ListCell) and len(now.items) == len(entry.heap[gv.addr].items) and \
                            all(a is b or a == b for a, b in zip(now.items, entry.heap[gv.addr].items))
                        if not same:
                            E.oblige(s, f"frame.global.{gk[1]}", z3.BoolVal(False), kind="frame",
                                     meta={"global": f"{gk[0]}:{gk[1]}"})
                for gk, gv in s.globals.items():
                    if gk not in entry.globals and isinstance(gv, Ref):
                        cell = s.heap.get(gv.addr)
                        if isinstance(cell, ListCell):
                            # materialised during the run: compare with a fresh evaluation
                            s_chk = State()
                            E.current_func.append(fref)
                            try:
                                ref2 = E.module_global(s_chk, gk[0], gk[1])
                            finally:
                                E.current_func.pop()
                            c2 = s_chk.heap.get(ref2.addr) if isinstance(ref2, Ref) else None
                            same = isinstance(c2, ListCell) and len(c2.items) == len(cell.items) and \
                                all(a == b for a, b in zip(c2.items, cell.items))
                            if not same:
                                E.oblige(s, f"frame.global.{gk[1]}", z3.BoolVal(False), kind="frame",
                                         meta={"global": f"{gk[0]}:{gk[1]}"})
                s.notes and res.notes.extend(n for n in s.notes if n not in res.notes)
                s.frames.pop()
        finally:
            E.slice_outside_names = set()
            E.entry_states.pop()
            E.spec_env.pop()
    except Unsupported as e:
        res.unsupported = str(e)
    except SpecError:
        raise
    except (TypeError, AttributeError, KeyError, IndexError, ValueError, z3.Z3Exception, AssertionError) as e:
        # the code under verification uses something the symbolic executor does not model:
        # undecided (the bounded stand-in decides), never a crash and never a verdict
        import traceback as _tb
        last = _tb.extract_tb(e.__traceback__)[-1]
        res.unsupported = f"engine limitation ({type(e).__name__}: {e} at {last.filename.split('/')[-1]}:{last.lineno})"
    finally:
        E.verifying = None
        E.loop_specs = saved_loops
        E.prefix = saved_prefix
    res.obligations = E.obligations[start:]
    return res


def frame_violations(E, entry, s, contract, frame):
    """heap cells that existed on entry and differ at this exit, outside the modifies clause.
    Objects allocated by the body are its own business; paths handled by a havoc model
    (token stream, history, scope chain...) allow the cells that model replaces."""
    from .loops import LoopSpec, allowed_writes
    from .values import ObjCell
    spec = LoopSpec(modifies=list(contract.modifies))
    entry.frames.append(dict(frame))
    try:
        allowed = allowed_writes(E, entry, spec)
    finally:
        entry.frames.pop()
    models = {a[1] for a in allowed if a[0] == "model"}
    # a modifies path naming an attribute whose value is a container allows the container
    # (a call site replaces the attribute by a fresh value, so everything that was reachable
    # only through it is out of the caller's sight: the whole object graph below is allowed)
    whole = set()

    def reach(v):
        if isinstance(v, SOpt):
            reach(v.val)
        elif isinstance(v, tuple):
            for x in v:
                reach(x)
        elif isinstance(v, Ref) and v.addr not in whole:
            whole.add(v.addr)
            c = entry.heap.get(v.addr)
            if isinstance(c, ObjCell):
                for x in c.attrs.values():
                    reach(x)
            elif hasattr(c, "items") and isinstance(getattr(c, "items"), (list, tuple)):
                for x in c.items:
                    reach(x)
    for a in list(allowed):
        if a[0] != "model" and a[1] != "*":
            c = entry.heap.get(a[0])
            reach(c.attrs.get(a[1]) if isinstance(c, ObjCell) else None)
    bad = []
    for addr, cell0 in entry.heap.items():
        cell1 = s.heap.get(addr)
        if cell1 is cell0 or addr in whole or (addr, "*") in allowed:
            continue
        if isinstance(cell0, ObjCell) and isinstance(cell1, ObjCell):
            for a in sorted(set(cell0.attrs) | set(cell1.attrs)):
                if cell0.attrs.get(a) is not cell1.attrs.get(a) and (addr, a) not in allowed:
                    if a.startswith("__cache"):
                        continue
                    bad.append(f"{cell0.cls if isinstance(cell0.cls, str) else getattr(cell0.cls, 'name', cell0.cls)}.{a}")
            continue
        if models:
            continue            # replaced by a declared havoc model (stream / history / ...)
        bad.append(cell0.__class__.__name__)
    if contract.pure and s.ghost.get("emitted") is not entry.ghost.get("emitted"):
        bad.append("emits diagnostics although the contract is pure at call sites")
    return sorted(set(bad))


# attach to Engine
Engine.fresh_value = fresh_value
Engine.havoc_path = havoc_path
Engine.havoc_ghost = havoc_ghost
Engine.spec_formula = spec_formula
Engine.spec_value = spec_value
Engine.spec_eval = spec_eval


def new_engine(repo=None):
    E = Engine(repo)
    E.value_types = {}
    E.havoc_models = {}
    E.ghost_havoc = {}
    E.slice_models = {}
    E.seq_models = {}
    E.index_models = {}
    E.len_hooks = []
    E.value_attr_hooks = []
    E.setitem_models = {}
    E.spec_env = []
    E.entry_states = []
    E.rec_functions = []
    E.default_unroll = None
    E.incomplete_unrolls = []
    E.max_const_unroll = 64
    install(E)
    return E


def summarize_bool(E, key, setup):
    """symbolically execute the real body of a boolean function once and return
    (result formula, raising-condition formula, paths): the function summary used inside
    quantified lemmas (comparator laws)"""
    fref = E.repo.find_function(key)
    if fref is None:
        raise SpecError(f"{key} not found")
    st = State()
    E.current_func.append(fref)
    try:
        params = setup(E, st)
    finally:
        E.current_func.pop()
    base = len(st.pc)
    assumptions = list(st.pc)
    frame = E.bind_args(fref, [], dict(params), st)
    results = E.run_body(st, fref, frame)
    val, exc = [], []
    for s, v in results:
        cond = z3.And(*s.pc[base:]) if s.pc[base:] else z3.BoolVal(True)
        if isinstance(v, Raised):
            exc.append(cond)
        else:
            val.append(z3.And(cond, bool_term(truth(v, s))))
    return (z3.Or(*val) if val else z3.BoolVal(False)), (z3.Or(*exc) if exc else z3.BoolVal(False)), \
        len(results), assumptions
