"""Access to the real source under $VERIF_REPO: modules are parsed with `ast` on every
run, nothing is cached on disk and nothing is copied by hand."""
import ast
import hashlib
import os

from .values import FuncRef, ClassRef


def repo_root():
    return os.environ.get("VERIF_REPO", "/repo")


class ModuleInfo:
    def __init__(self, relpath, source):
        self.relpath = relpath
        self.source = source
        self.tree = ast.parse(source, filename=relpath)
        self.top = {}          # name -> ast node defining it (last one wins, as in Python)
        self.imports = {}      # name -> (module dotted, attr or None)
        for node in self.tree.body:
            self._index(node)

    def _index(self, node):
        if isinstance(node, (ast.FunctionDef, ast.ClassDef)):
            self.top[node.name] = node
        elif isinstance(node, ast.Assign):
            for t in node.targets:
                if isinstance(t, ast.Name):
                    self.top[t.id] = node
        elif isinstance(node, ast.AnnAssign) and isinstance(node.target, ast.Name) and node.value is not None:
            self.top[node.target.id] = node
        elif isinstance(node, ast.ImportFrom):
            for a in node.names:
                self.imports[a.asname or a.name] = (node.module, a.name)
        elif isinstance(node, ast.Import):
            for a in node.names:
                self.imports[a.asname or a.name.split(".")[0]] = (a.name, None)
        elif isinstance(node, ast.If):
            # `if TYPE_CHECKING:` blocks only hold imports for annotations
            pass


class Repo:
    def __init__(self, root=None):
        self.root = root or repo_root()
        self.modules = {}

    def path_of(self, dotted):
        """dotted module name -> relpath under the repo, or None when it is not ours"""
        p = dotted.replace(".", "/")
        for cand in (p + ".py", p + "/__init__.py"):
            if os.path.exists(os.path.join(self.root, cand)):
                return cand
        return None

    def module(self, relpath):
        if relpath not in self.modules:
            with open(os.path.join(self.root, relpath), encoding="utf-8") as fh:
                self.modules[relpath] = ModuleInfo(relpath, fh.read())
        return self.modules[relpath]

    def find_class(self, relpath, name):
        m = self.module(relpath)
        node = m.top.get(name)
        if isinstance(node, ast.ClassDef):
            return ClassRef(relpath, name, node)
        return None

    def find_function(self, key):
        """'path/to/mod.py:Class.func' or 'path/to/mod.py:func' -> FuncRef"""
        relpath, qual = key.split(":")
        m = self.module(relpath)
        parts = qual.split(".")
        node = m.top.get(parts[0])
        cls = None
        for p in parts[1:]:
            if not isinstance(node, ast.ClassDef):
                return None
            cls = ClassRef(relpath, node.name, node)
            nxt = None
            for b in node.body:
                if isinstance(b, (ast.FunctionDef, ast.ClassDef)) and b.name == p:
                    nxt = b
            node = nxt
        if not isinstance(node, ast.FunctionDef):
            return None
        return FuncRef(relpath, qual, node, cls)

    def class_attr_node(self, cref, name):
        for b in cref.node.body:
            if isinstance(b, ast.FunctionDef) and b.name == name:
                return b
            if isinstance(b, ast.Assign):
                for t in b.targets:
                    if isinstance(t, ast.Name) and t.id == name:
                        return b
            if isinstance(b, ast.AnnAssign) and isinstance(b.target, ast.Name) and b.target.id == name \
                    and b.value is not None:
                return b
        return None

    def class_bases(self, cref):
        """ClassRefs of the bases that live in the repo (others are ignored)"""
        out = []
        m = self.module(cref.module)
        for b in cref.node.bases:
            if isinstance(b, ast.Name):
                r = self.resolve_name_static(m, b.id)
                if isinstance(r, ClassRef):
                    out.append(r)
        return out

    def resolve_name_static(self, m, name, depth=0):
        node = m.top.get(name)
        if isinstance(node, ast.ClassDef):
            return ClassRef(m.relpath, name, node)
        if isinstance(node, ast.FunctionDef):
            return FuncRef(m.relpath, name, node)
        if name in m.imports and depth < 6:
            dotted, attr = m.imports[name]
            rel = self.path_of(dotted)
            if rel is not None and attr is not None:
                return self.resolve_name_static(self.module(rel), attr, depth + 1)
            if rel is not None and attr is None:
                return None
            if attr is not None:
                # `from norminette.rules import Rule` : package __init__ re-exports
                rel2 = self.path_of(dotted + "." + attr)
                if rel2 is not None:
                    return None
        return None

    def func_hash(self, fref):
        seg = ast.get_source_segment(self.module(fref.module).source, fref.node) or ""
        return hashlib.sha256(seg.encode()).hexdigest()[:16]

    def func_lines(self, fref):
        return fref.node.lineno, fref.node.end_lineno
