"""Loops: complete unrolling of loops over constant sequences, and cutting at an
inductive invariant for everything else."""
import ast

import z3

from .values import (SInt, SBool, SStr, SKind, SStrV, SOpt, Opaque, Ref, ListCell, DictCell, IntSetCell, ObjCell,
                     TokList, Tok, HistList, Raised, ExcVal, Undefined, int_term, mk_int, mk_bool, bool_term,
                     fresh_name, is_intlike)
from .ops import Unsupported, truth
from .builtins_ import EnumIter, RevIter, RangeVal


class LoopSpec:
    def __init__(self, invariant=None, variant=None, havoc=(), types=None, unroll=None, role=None,
                 index="idx", pure=False, modifies=(), ghost=None):
        self.ghost = dict(ghost or {})    # name -> spec expression, bound as __name at the start of each iteration
        self.invariant = [invariant] if isinstance(invariant, str) else list(invariant or [])
        self.variant = variant
        self.havoc = list(havoc)          # extra spec-language paths to havoc ("context.scope.lines")
        self.types = dict(types or {})    # local name -> 'int' | 'bool' | 'str' | 'optstr' ...
        self.unroll = unroll
        self.index = index
        self.pure = pure
        self.modifies = list(modifies)


def assigned_names(nodes):
    names = set()
    for n in nodes:
        for x in ast.walk(n):
            if isinstance(x, ast.Name) and isinstance(x.ctx, (ast.Store, ast.Del)):
                names.add(x.id)
            elif isinstance(x, ast.NamedExpr):
                names.add(x.target.id)
    return names


MUTATORS = ("append", "remove", "extend", "pop", "insert", "clear", "sort", "update", "setdefault", "add", "discard")


def mutated_containers(nodes):
    """local names whose container is written in place: x[k] = v, x.append(v), ..."""
    names = set()
    for n in nodes:
        for x in ast.walk(n):
            if isinstance(x, ast.Subscript) and isinstance(x.ctx, (ast.Store, ast.Del)) \
                    and isinstance(x.value, ast.Name):
                names.add(x.value.id)
            elif isinstance(x, ast.Call) and isinstance(x.func, ast.Attribute) \
                    and isinstance(x.func.value, ast.Name) and x.func.attr in MUTATORS:
                names.add(x.func.value.id)
    return names


def fresh_like(E, st, name, cur, spec):
    """havoc value for local `name` whose value before the loop is `cur`"""
    ty = spec.types.get(name)
    if ty is None and isinstance(cur, Ref):
        cell = st.cell(cur)
        if isinstance(cell, ListCell) or (isinstance(cell, ObjCell) and cell.cls == "SymList"):
            ln = z3.Int(fresh_name(name + "_len"))
            st.assume(ln >= 0)
            return st.alloc(ObjCell("SymList", {"__len__": SInt(ln)}))
    if ty is None:
        if isinstance(cur, bool) or isinstance(cur, SBool):
            ty = "bool"
        elif isinstance(cur, (int, SInt)):
            ty = "int"
        elif isinstance(cur, (str, SStr)):
            ty = "str"
        elif isinstance(cur, SKind):
            ty = "kind"
    return E.fresh_value(st, ty, name) if ty else Opaque(f"havoc:{name}")


def flows_after(flows):
    return flows


def get_spec(E, node):
    f = E.current_func[-1]
    ordinal = E.loop_ordinal(node)
    return ordinal, E.loop_specs.get((f.key, ordinal))


def exec_while(E, stmt, st):
    ordinal, spec = get_spec(E, stmt)
    if spec is None or spec.unroll is not None:
        bound = spec.unroll if spec is not None else E.default_unroll
        if bound is None:
            raise Unsupported(f"while loop #{ordinal} at line {stmt.lineno} has no invariant")
        return unroll_while(E, stmt, st, bound, ordinal)
    return cut_loop(E, stmt, st, spec, ordinal, kind="while")


def unroll_while(E, stmt, st, bound, ordinal):
    """bounded unrolling; paths that would need more iterations raise Unsupported unless
    E.unroll_incomplete_ok (then they are dropped and reported as a bounded result)"""
    out = []
    frontier = [st]
    for it in range(bound + 1):
        nxt = []
        for s in frontier:
            for s1, c in E.ev(stmt.test, s):
                if isinstance(c, Raised):
                    out.append((s1, ("raise", c.exc)))
                    continue
                for s2, b in E.split(s1, truth(c, s1)):
                    if not b:
                        out.extend(E.exec_block(stmt.orelse, s2) if stmt.orelse else [(s2, ("next",))])
                        continue
                    if it == bound:
                        E.incomplete_unrolls.append((E.current_func[-1].key, ordinal, bound))
                        continue
                    for s3, fl in E.exec_block(stmt.body, s2):
                        if fl[0] in ("next", "continue"):
                            nxt.append(s3)
                        elif fl[0] == "break":
                            out.append((s3, ("next",)))
                        else:
                            out.append((s3, fl))
        frontier = nxt
        if not frontier:
            break
    return out


def havoc_for_cut(E, st, body_nodes, spec, extra_names=()):
    names = assigned_names(body_nodes) | set(extra_names)
    for n in sorted(names):
        if n in st.locals:
            st.locals[n] = fresh_like(E, st, n, st.locals[n], spec)
        elif n in spec.types:
            st.locals[n] = E.fresh_value(st, spec.types[n], n)
        else:
            st.locals[n] = Undefined(n)
    for n in sorted(mutated_containers(body_nodes)):
        v = st.locals.get(n)
        if isinstance(v, Ref):
            cell = st.cell(v)
            if isinstance(cell, IntSetCell) or (isinstance(cell, DictCell) and not cell.d):
                st.set_cell(v, IntSetCell(z3.Array(fresh_name(n + "_present"), z3.IntSort(), z3.BoolSort())))
            elif isinstance(cell, ListCell) or (isinstance(cell, ObjCell) and cell.cls == "SymList"):
                ln = z3.Int(fresh_name(n + "_len"))
                st.assume(ln >= 0)
                st.set_cell(v, ObjCell("SymList", {"__len__": SInt(ln)}))
            elif isinstance(cell, DictCell):
                raise Unsupported(f"non-empty dict {n} mutated inside a cut loop")
    for path in spec.havoc:
        E.havoc_path(st, path, spec)
    if not spec.pure:
        E.havoc_ghost(st)


def heap_snapshot(st, E=None, spec=None):
    allowed = allowed_writes(E, st, spec) if E is not None else set()
    return dict(st.heap), st.ghost.get("emitted"), allowed


def allowed_writes(E, st, spec):
    allowed = set()
    for path in list(spec.havoc) + list(spec.modifies):
        path = path.split(":")[0]
        if path in E.havoc_models:
            allowed.add(("model", path))
            try:
                from .spec import resolve_path
                if path.endswith(".*"):
                    owner, attr = resolve_path(E, st, path[:-2])
                    tgt = st.cell(owner).attrs.get(attr) if isinstance(owner, Ref) else None
                    if isinstance(tgt, Ref):
                        allowed.add((tgt.addr, "*"))
                elif "." in path:
                    owner, attr = resolve_path(E, st, path)
                    allowed.add((owner.addr, attr))
            except Exception:
                pass
            continue
        try:
            from .spec import resolve_path
            owner, attr = resolve_path(E, st, path)
            allowed.add((owner.addr, attr))
        except Exception:
            pass
    return allowed


def check_heap_frame(E, st, snap, spec, ordinal, body_nodes):
    """a cut loop may only write what it havocked: every other heap cell must be the very
    same object after one arbitrary iteration"""
    heap0, em0, allowed0 = snap
    allowed = allowed_writes(E, st, spec) | allowed0
    containers = {st.locals[n].addr for n in mutated_containers(body_nodes)
                  if isinstance(st.locals.get(n), Ref)}
    for addr, cell0 in heap0.items():
        cell1 = st.heap.get(addr)
        if cell1 is cell0 or addr in containers:
            continue
        if isinstance(cell0, ObjCell) and isinstance(cell1, ObjCell):
            for a in set(cell0.attrs) | set(cell1.attrs):
                if cell0.attrs.get(a) is not cell1.attrs.get(a) and (addr, a) not in allowed \
                        and (addr, "*") not in allowed:
                    raise Unsupported(f"loop #{ordinal} writes .{a} of a {cell0.cls} object that is not in its "
                                      "havoc list")
            continue
        if ("model", "stream") in allowed and cell0.__class__.__name__ == "StreamCell":
            continue
        raise Unsupported(f"loop #{ordinal} writes a heap cell ({cell0.__class__.__name__}) not in its havoc list")
    if spec.pure and st.ghost.get("emitted") is not em0:
        raise Unsupported(f"loop #{ordinal} is declared pure but emits diagnostics")


def check_inv(E, st, spec, ordinal, tag, env_extra=None):
    for k, inv in enumerate(spec.invariant):
        f = E.spec_formula(st, inv, env_extra)
        E.oblige(st, f"loop{ordinal}.inv{k}.{tag}", f, kind="invariant",
                 meta={"invariant": inv})


def assume_inv(E, st, spec, env_extra=None):
    for inv in spec.invariant:
        st.assume(E.spec_formula(st, inv, env_extra))


def cut_loop(E, stmt, st, spec, ordinal, kind):
    # 1. invariant holds on entry
    check_inv(E, st, spec, ordinal, "init")
    # 2. arbitrary iteration
    havoc_for_cut(E, st, [stmt], spec)
    assume_inv(E, st, spec)
    snap = heap_snapshot(st, E, spec)
    v0 = None
    out = []
    for s1, c in E.ev(stmt.test, st):
        if isinstance(c, Raised):
            out.append((s1, ("raise", c.exc)))
            continue
        for s2, b in E.split(s1, truth(c, s1)):
            if not b:
                out.extend(E.exec_block(stmt.orelse, s2) if stmt.orelse else [(s2, ("next",))])
                continue
            if spec.variant is not None:
                v0 = E.spec_value(s2, spec.variant)
            for gname, gexpr in spec.ghost.items():
                s2.locals["__" + gname] = E.spec_value(s2, gexpr)
            for s3, fl in E.exec_block(stmt.body, s2):
                if fl[0] in ("next", "continue"):
                    check_heap_frame(E, s3, snap, spec, ordinal, [stmt])
                    check_inv(E, s3, spec, ordinal, "step")
                    if spec.variant is not None:
                        v1 = E.spec_value(s3, spec.variant)
                        E.oblige(s3, f"loop{ordinal}.variant",
                                 z3.And(int_term(v0) >= 0, int_term(v1) < int_term(v0)), kind="variant",
                                 meta={"variant": spec.variant})
                    E.paths_explored += 1
                elif fl[0] == "break":
                    out.append((s3, ("next",)))
                else:
                    out.append((s3, fl))
    return out


def exec_for(E, stmt, st):
    ordinal, spec = get_spec(E, stmt)

    def k(s, it):
        return run_for(E, stmt, s, it, spec, ordinal)
    out = []
    for s, v in E.ev(stmt.iter, st):
        if isinstance(v, Raised):
            out.append((s, ("raise", v.exc)))
        else:
            out.extend(k(s, v))
    return out


def concrete_items(E, s, it):
    """list of element values when the iterable has a concrete shape, else None"""
    if isinstance(it, (tuple, str)):
        return list(it)
    if isinstance(it, Ref) and isinstance(s.cell(it), (ListCell, DictCell)):
        return E.iter_concrete(s, it)
    if isinstance(it, RangeVal) and isinstance(it.lo, int) and isinstance(it.hi, int):
        return list(range(it.lo, it.hi))
    if isinstance(it, EnumIter):
        base = concrete_items(E, s, it.base)
        if base is not None and isinstance(it.start, int):
            return [(it.start + i, x) for i, x in enumerate(base)]
        if base is not None:
            return [(mk_int(int_term(it.start) + i), x) for i, x in enumerate(base)]
    if isinstance(it, RevIter):
        base = concrete_items(E, s, it.base)
        if base is not None:
            return list(reversed(base))
    return None


def unroll_strv(E, stmt, st, v):
    """for ch in <short string of symbolic length>: complete unrolling over its capacity"""
    out = []
    frontier = [st]
    for i in range(len(v.chars)):
        nxt = []
        for s in frontier:
            for s0, more in E.split(s, v.length > i):
                if not more:
                    out.extend(E.exec_block(stmt.orelse, s0) if stmt.orelse else [(s0, ("next",))])
                    continue
                for s1, fl in E.assign(s0, stmt.target, SStrV([v.chars[i]], z3.IntVal(1))):
                    if fl[0] != "next":
                        out.append((s1, fl))
                        continue
                    for s2, fl2 in E.exec_block(stmt.body, s1):
                        if fl2[0] in ("next", "continue"):
                            nxt.append(s2)
                        elif fl2[0] == "break":
                            out.append((s2, ("next",)))
                        else:
                            out.append((s2, fl2))
        frontier = nxt
    for s in frontier:
        out.extend(E.exec_block(stmt.orelse, s) if stmt.orelse else [(s, ("next",))])
    return out


def run_for(E, stmt, s, it, spec, ordinal):
    if isinstance(it, SStrV) and len(it.chars) <= 4:
        return unroll_strv(E, stmt, s, it)
    items = concrete_items(E, s, it)
    if items is not None and (spec is None or spec.unroll is not None or not spec.invariant) \
            and len(items) <= E.max_const_unroll:
        return unroll_for(E, stmt, s, items,
                          index=spec.index if spec is not None and spec.unroll is not None else None)
    if spec is None:
        raise Unsupported(f"for loop #{ordinal} at line {stmt.lineno} over a symbolic sequence has no invariant")
    return cut_for(E, stmt, s, it, spec, ordinal)


def unroll_for(E, stmt, st, items, index=None):
    out = []
    frontier = [st]
    for k, x in enumerate(items):
        nxt = []
        for s in frontier:
            if index is not None:
                s.locals["__" + index] = mk_int(k)   # visible to invariants of nested loops (as in cut_for)
            for s1, fl in E.assign(s, stmt.target, x):
                if fl[0] != "next":
                    out.append((s1, fl))
                    continue
                for s2, fl2 in E.exec_block(stmt.body, s1):
                    if fl2[0] in ("next", "continue"):
                        nxt.append(s2)
                    elif fl2[0] == "break":
                        out.append((s2, ("next",)))
                    else:
                        out.append((s2, fl2))
        frontier = nxt
    for s in frontier:
        out.extend(E.exec_block(stmt.orelse, s) if stmt.orelse else [(s, ("next",))])
    return out


def seq_length_and_elem(E, s, it):
    """symbolic sequence -> (length term, elem(index term, state) -> value); elements that
    are heap objects are allocated in the state passed to elem"""
    if isinstance(it, TokList):
        return int_term(it.length), (lambda i, s2=None: Tok(it.stream, z3.simplify(int_term(it.off) + i)))
    if isinstance(it, HistList):
        return int_term(it.length), (lambda i, s2=None: SKind(it.name(i)))
    if isinstance(it, RangeVal):
        lo, hi = int_term(it.lo), int_term(it.hi)
        return z3.If(hi > lo, hi - lo, 0), (lambda i, s2=None: mk_int(lo + i))
    if isinstance(it, RevIter):
        n, el = seq_length_and_elem(E, s, it.base)
        return n, (lambda i, s2=None: el(n - 1 - i, s2))
    if isinstance(it, EnumIter):
        n, el = seq_length_and_elem(E, s, it.base)
        start = int_term(it.start)
        return n, (lambda i, s2=None: (mk_int(start + i), el(i, s2)))
    if isinstance(it, Ref) and isinstance(s.cell(it), ObjCell) and s.cell(it).cls in E.seq_models:
        return E.seq_models[s.cell(it).cls](E, s, it)
    raise Unsupported(f"for loop over {it!r}")


def cut_for(E, stmt, st, it, spec, ordinal):
    n, elem = seq_length_and_elem(E, st, it)
    idxname = spec.index
    env0 = {idxname: 0, idxname + "_n": mk_int(n)}
    check_inv(E, st, spec, ordinal, "init", env0)
    havoc_for_cut(E, st, [stmt], spec)
    idx = z3.Int(fresh_name(idxname))
    st.assume(z3.And(idx >= 0, idx <= n))
    env = {idxname: SInt(idx), idxname + "_n": mk_int(n)}
    st.locals["__" + idxname] = SInt(idx)       # visible to invariants of nested loops
    assume_inv(E, st, spec, env)
    snap = heap_snapshot(st, E, spec)
    out = []
    for s2, more in E.split(st, idx < n):
        if not more:
            # exhausted: a simple loop variable keeps the last element (or stays unbound)
            if isinstance(stmt.target, ast.Name) and stmt.target.id not in assigned_names(stmt.body):
                for s2b, nonempty in E.split(s2, n > 0):
                    if nonempty:
                        s2b.locals[stmt.target.id] = elem(n - 1, s2b)
                    elif isinstance(s2b.locals.get(stmt.target.id), Undefined):
                        s2b.locals.pop(stmt.target.id, None)
                    out.extend(E.exec_block(stmt.orelse, s2b) if stmt.orelse else [(s2b, ("next",))])
                continue
            out.extend(E.exec_block(stmt.orelse, s2) if stmt.orelse else [(s2, ("next",))])
            continue
        for s3, fl in E.assign(s2, stmt.target, elem(idx, s2)):
            if fl[0] != "next":
                out.append((s3, fl))
                continue
            for s4, fl2 in E.exec_block(stmt.body, s3):
                if fl2[0] in ("next", "continue"):
                    check_heap_frame(E, s4, snap, spec, ordinal, [stmt])
                    env1 = {idxname: mk_int(idx + 1), idxname + "_n": mk_int(n)}
                    check_inv(E, s4, spec, ordinal, "step", env1)
                    E.paths_explored += 1
                elif fl2[0] == "break":
                    out.append((s4, ("next",)))
                else:
                    out.append((s4, fl2))
    return out
