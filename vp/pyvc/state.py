"""Per-path execution state."""
import itertools
import z3

from .values import Ref

_addr = itertools.count(1)


class State:
    __slots__ = ("frames", "heap", "globals", "pc", "ghost", "trace", "notes")

    def __init__(self):
        self.frames = [{}]
        self.heap = {}
        self.globals = {}
        self.pc = []
        self.ghost = {}
        self.trace = []
        self.notes = []

    def fork(self):
        s = State()
        s.frames = [dict(f) for f in self.frames]
        s.heap = dict(self.heap)          # cells are immutable, replaced on write
        s.globals = dict(self.globals)
        s.pc = list(self.pc)
        s.ghost = dict(self.ghost)
        s.trace = list(self.trace)
        s.notes = list(self.notes)
        return s

    # -- locals
    @property
    def locals(self):
        return self.frames[-1]

    # -- heap
    def alloc(self, cell):
        r = Ref(next(_addr))
        self.heap[r.addr] = cell
        return r

    def cell(self, ref):
        return self.heap[ref.addr]

    def set_cell(self, ref, cell):
        self.heap[ref.addr] = cell

    def assume(self, t):
        if isinstance(t, bool):
            if not t:
                self.pc.append(z3.BoolVal(False))
            return
        self.pc.append(t)
