"""pyvc: forward symbolic execution of real function bodies (read with `ast` from the
repository on every run) with path forking, loop cutting at invariants and modular calls
(callee contract instead of callee body).  See DESIGN.md section 2.1 for the subset."""
import ast
import string as _string
import time

import z3

from .values import *          # noqa: F401,F403
from .values import (SInt, SBool, SStr, SKind, SKindSet, SStrV, SOpt, Opaque, Ref, ListCell, DictCell,
                     IntSetCell, ObjCell, StreamCell, TokList, Tok, HistList, FuncRef, ClassRef, SType,
                     BoundMethod, Builtin, PyModule, ExcVal, ExcClass, Raised, KINDS, EXC_PARENT,
                     exc_isinstance, int_term, is_intlike, bool_term, mk_int, mk_bool, str_term,
                     strv_of_const, fresh_name)
from . import ops
from .ops import Unsupported, truth
from .state import State
from .repo import Repo


class SpecError(Exception):
    pass


class LambdaVal(Sym):          # noqa: F405
    __slots__ = ("node", "env", "func")

    def __init__(self, node, env, func):
        self.node, self.env, self.func = node, env, func


class Obligation:
    def __init__(self, name, pc, goal, kind="post", where=None, meta=None):
        self.name = name
        self.pc = list(pc)
        self.goal = goal          # z3 Bool that must be valid under pc
        self.kind = kind
        self.where = where
        self.meta = meta or {}
        self.result = None        # 'discharged' | 'failed' | 'unknown'
        self.model = None
        self.time = 0.0
        self.backend = None
        self.axioms = []


FLOW_NEXT = ("next",)
FLOW_BREAK = ("break",)
FLOW_CONTINUE = ("continue",)


def mangle(cls, attr):
    if cls is not None and attr.startswith("__") and not attr.endswith("__"):
        name = cls.name if isinstance(cls, ClassRef) else str(cls)
        return "_" + name.lstrip("_") + attr
    return attr


class Engine:
    def __init__(self, repo=None, feas_timeout_ms=1000):
        self.repo = repo or Repo()
        self.contracts = {}       # key -> Contract (used at call sites)
        self.models = {}          # key -> handler(engine, st, args, kwargs) -> [(st, val)]
        self.attr_models = {}     # model tag -> handler(engine, st, ref, attr) -> value or None
        self.spec_builtins = {}
        self.obligations = []
        self.feas_timeout_ms = feas_timeout_ms
        self.solver_time = 0.0
        self.feas_queries = 0
        self.current_func = []    # stack of FuncRef being executed (for name resolution)
        self.loop_specs = {}      # (func key, ordinal) -> LoopSpec
        self.max_inline_depth = 12
        self.prefix = ""          # obligation name prefix
        self.paths_explored = 0
        self.spec_mode = 0
        self.axioms = []
        self._axiom_keys = set()
        self.augassign_models = {}
        # path-feasibility queries leave the ghost-function axioms out: a path that is only
        # infeasible because of them is explored anyway and its obligations are discharged
        # (with the axioms) as vacuously true -- sound, and much cheaper
        self.feas_with_axioms = False

    def add_axiom(self, ax):
        k = ax.sexpr()
        if k not in self._axiom_keys:
            self._axiom_keys.add(k)
            self.axioms.append(ax)

    # ------------------------------------------------------------------ solver helpers
    _q_cache = {}

    def has_quantifier(self, t):
        k = t.get_id()
        c = self._q_cache.get(k)
        if c is not None:
            return c
        todo, seen, found = [t], set(), False
        while todo and not found:
            x = todo.pop()
            i = x.get_id()
            if i in seen:
                continue
            seen.add(i)
            if z3.is_quantifier(x):
                found = True
            elif z3.is_app(x):
                todo.extend(x.children())
            if len(seen) > 4000:
                break
        self._q_cache[k] = found
        return found

    def feasible(self, st, extra=None):
        # quantified facts (preconditions over the whole source, ...) are left out of the
        # path-feasibility queries: fewer constraints can only make more paths feasible
        conj = [t for t in st.pc if not self.has_quantifier(t)]
        if extra is not None:
            if isinstance(extra, bool):
                if not extra:
                    return False
            else:
                conj.append(extra)
        if not conj:
            return True
        s = z3.Solver()
        s.set("timeout", self.feas_timeout_ms)
        s.add(*conj)
        if self.axioms and self.feas_with_axioms:
            s.add(*self.axioms)
        t0 = time.time()
        r = s.check()
        self.solver_time += time.time() - t0
        self.feas_queries += 1
        return r != z3.unsat

    def split(self, st, cond):
        """-> list of (state, bool) for the feasible truth values of cond"""
        cond = ops.simplify_bool(cond) if not isinstance(cond, bool) else cond
        if isinstance(cond, bool):
            return [(st, cond)]
        out = []
        ft = self.feasible(st, cond)
        ff = self.feasible(st, z3.Not(cond))
        if ft and ff:
            s2 = st.fork()
            st.pc.append(cond)
            st.trace.append("T")
            s2.pc.append(z3.Not(cond))
            s2.trace.append("F")
            return [(st, True), (s2, False)]
        if ft:
            st.pc.append(cond)
            return [(st, True)]
        if ff:
            st.pc.append(z3.Not(cond))
            return [(st, False)]
        return out      # path itself infeasible

    def oblige(self, st, name, goal, kind="post", meta=None):
        if isinstance(goal, bool):
            goal = z3.BoolVal(goal)
        tr = "".join(st.trace)
        ob = Obligation(self.prefix + name + ("@" + tr if tr else ""), st.pc, goal, kind, meta=meta)
        ob.axioms = self.axioms
        ob.meta.setdefault("trace", tr)
        ob.meta.setdefault("base", self.prefix + name)
        # the path used an over-approximated value (an unmodelled operation answered by an
        # arbitrary result): a refutation on it is not a counterexample, only a proof counts
        approx = [n for n in st.notes if "over-approximat" in n]
        if approx:
            ob.meta["approx"] = approx[:3]
        self.obligations.append(ob)
        return ob

    # ------------------------------------------------------------------ helpers
    def raise_(self, st, tname, *args):
        return [(st, Raised(ExcVal(tname, args)))]

    def bind(self, results, fn):
        out = []
        for st, v in results:
            if isinstance(v, Raised):
                out.append((st, v))
            else:
                out.extend(fn(st, v))
        return out

    def eval_seq(self, nodes, st):
        """evaluate expressions left to right -> list of (st, [values]) (or (st, Raised))"""
        results = [(st, [])]
        for n in nodes:
            nxt = []
            for s, vals in results:
                if isinstance(vals, Raised):
                    nxt.append((s, vals))
                    continue
                if isinstance(n, ast.Starred):
                    for s2, v in self.ev(n.value, s):
                        if isinstance(v, Raised):
                            nxt.append((s2, v))
                        else:
                            nxt.append((s2, vals + list(self.iter_concrete(s2, v))))
                    continue
                for s2, v in self.ev(n, s):
                    if isinstance(v, Raised):
                        nxt.append((s2, v))
                    else:
                        nxt.append((s2, vals + [v]))
            results = nxt
        return results

    def iter_concrete(self, st, v):
        """elements of a concretely-shaped iterable"""
        if isinstance(v, (tuple, str)):
            return list(v)
        if isinstance(v, Ref):
            cell = st.cell(v)
            if isinstance(cell, ListCell):
                return list(cell.items)
            if isinstance(cell, DictCell):
                return list(cell.d.keys())
        raise Unsupported(f"iteration over {v!r}")

    def new_list(self, st, items):
        return st.alloc(ListCell(items))

    # ------------------------------------------------------------------ names
    def cur_module(self):
        return self.current_func[-1].module if self.current_func else None

    def lookup_name(self, st, name, node=None):
        for fr in (st.frames[-1],):
            if name in fr:
                v = fr[name]
                if isinstance(v, Undefined):          # noqa: F405
                    if name in getattr(self, "slice_outside_names", ()):
                        raise Unsupported(f"local variable {name} is assigned outside the verified slice and the setup "
                                          "of the contract does not provide it")
                    return Raised(ExcVal("UnboundLocalError", (name,)))
                return v
        # closure frames of lambdas / nested functions
        if "__closure__" in st.frames[-1]:
            env = st.frames[-1]["__closure__"]
            if name in env:
                return env[name]
        if name in self.spec_builtins and self.spec_mode:
            return self.spec_builtins[name]
        cur = self.current_func[-1] if self.current_func else None
        if cur is not None and cur.node is not None and not self.spec_mode and "__closure__" not in st.frames[-1]:
            if name in getattr(self, "slice_outside_names", ()):
                raise Unsupported(f"local variable {name} is assigned outside the verified slice and the setup of the "
                                  "contract does not provide it")
            if name in self.local_names(cur):
                # a local helper function (`def helper(...)` inside the function under contract) that the
                # executed slice did not define: a limitation of slicing, not an unbound local
                if any(isinstance(x, (ast.FunctionDef, ast.AsyncFunctionDef)) and x.name == name and x is not cur.node
                       for x in ast.walk(cur.node)):
                    raise Unsupported(f"local helper function {name} is defined outside the executed part of the body")
                return Raised(ExcVal("UnboundLocalError", (name,)))
        if cur is not None and cur.cls is not None and cur.qualname.endswith("<class>"):
            # evaluation of a class-level initialiser: names of the class body come first
            n = self.repo.class_attr_node(cur.cls, name)
            if isinstance(n, ast.FunctionDef):
                return FuncRef(cur.cls.module, f"{cur.cls.name}.{name}", n, cur.cls)
        mod = self.cur_module()
        if mod is not None:
            v = self.module_global(st, mod, name)
            if v is not NotImplemented:
                return v
        if name in self.spec_builtins:
            return self.spec_builtins[name]
        b = self.builtin(name)
        if b is not None:
            return b
        raise Unsupported(f"unknown name {name!r}")

    _local_names_cache = {}

    def local_names(self, fref):
        k = id(fref.node)
        if k not in self._local_names_cache:
            names = set()
            for x in ast.walk(fref.node):
                if isinstance(x, ast.Name) and isinstance(x.ctx, (ast.Store, ast.Del)):
                    names.add(x.id)
                elif isinstance(x, ast.arg):
                    names.add(x.arg)
                elif isinstance(x, ast.ExceptHandler) and x.name:
                    names.add(x.name)
            for x in ast.walk(fref.node):
                if isinstance(x, (ast.Global, ast.Nonlocal)):
                    names -= set(x.names)
            self._local_names_cache[k] = (fref.node, names)
        return self._local_names_cache[k][1]

    def module_global(self, st, relpath, name, depth=0):
        key = (relpath, name)
        if key in st.globals:
            return st.globals[key]
        m = self.repo.module(relpath)
        node = m.top.get(name)
        if isinstance(node, ast.ClassDef):
            return ClassRef(relpath, name, node)
        if isinstance(node, ast.FunctionDef):
            return FuncRef(relpath, name, node)
        if isinstance(node, (ast.Assign, ast.AnnAssign)):
            v = self.eval_module_const(st, relpath, node.value)
            st.globals[key] = v
            return v
        if name in m.imports and depth < 8:
            dotted, attr = m.imports[name]
            rel = self.repo.path_of(dotted) if dotted else None
            if rel is not None and attr is not None:
                v = self.module_global(st, rel, attr, depth + 1)
                if v is NotImplemented:
                    # maybe a submodule
                    rel2 = self.repo.path_of(dotted + "." + attr)
                    if rel2:
                        return PyModule("repo:" + rel2)
                return v
            if rel is not None and attr is None:
                return PyModule("repo:" + rel)
            if dotted in ("string", "re", "os", "json", "sys", "itertools", "glob", "pathlib", "subprocess",
                          "collections", "typing", "dataclasses", "operator", "importlib", "platform",
                          "argparse", "math"):
                if attr is None:
                    return PyModule(dotted)
                if dotted == "typing" and attr == "cast":
                    return Builtin("typing.cast", lambda E_, s_, a, k: [(s_, a[1])])
                if dotted == "typing":
                    return Opaque("typing." + attr)
                return self.pymodule_attr(PyModule(dotted), attr)
            return Opaque(f"import {dotted}.{attr}")
        return NotImplemented

    def eval_module_const(self, st, relpath, expr):
        """module-level initialiser: evaluated by the engine itself in the module's scope;
        must be deterministic"""
        fake = FuncRef(relpath, "<module>", None)
        self.current_func.append(fake)
        st.frames.append({})
        try:
            res = self.ev(expr, st)
        finally:
            st.frames.pop()
            self.current_func.pop()
        if len(res) != 1 or isinstance(res[0][1], Raised):
            raise Unsupported(f"module-level initialiser in {relpath} is not a constant")
        return res[0][1]

    def pymodule_attr(self, mod, attr):
        if mod.name == "string" and attr in ("ascii_letters", "ascii_lowercase", "ascii_uppercase", "digits"):
            return getattr(_string, attr)
        if mod.name.startswith("repo:"):
            return NotImplemented
        return Opaque(f"{mod.name}.{attr}")

    def builtin(self, name):
        from . import builtins_ as B
        return B.get(self, name)

    # ------------------------------------------------------------------ expressions
    def ev(self, node, st):
        m = getattr(self, "ev_" + type(node).__name__, None)
        if m is None:
            raise Unsupported(f"expression {type(node).__name__} at line {getattr(node, 'lineno', '?')}")
        return m(node, st)

    def ev_Constant(self, node, st):
        return [(st, node.value)]

    def ev_Name(self, node, st):
        v = self.lookup_name(st, node.id, node)
        return [(st, v)]

    def ev_Tuple(self, node, st):
        return [(s, v if isinstance(v, Raised) else tuple(v)) for s, v in self.eval_seq(node.elts, st)]

    def ev_List(self, node, st):
        out = []
        for s, v in self.eval_seq(node.elts, st):
            out.append((s, v if isinstance(v, Raised) else s.alloc(ListCell(v))))
        return out

    def ev_Dict(self, node, st):
        if any(k is None for k in node.keys):
            raise Unsupported("dict unpacking")
        out = []
        for s, ks in self.eval_seq(node.keys, st):
            if isinstance(ks, Raised):
                out.append((s, ks))
                continue
            for s2, vs in self.eval_seq(node.values, s):
                if isinstance(vs, Raised):
                    out.append((s2, vs))
                else:
                    out.append((s2, s2.alloc(DictCell(dict(zip(ks, vs))))))
        return out

    def ev_JoinedStr(self, node, st):
        parts = []
        for p in node.values:
            if isinstance(p, ast.Constant):
                parts.append(p.value)
            else:
                parts.append(p)
        results = [(st, "")]
        for p in parts:
            nxt = []
            for s, acc in results:
                if isinstance(acc, Raised):
                    nxt.append((s, acc))
                    continue
                if isinstance(p, str):
                    nxt.append((s, ops.arith(ast.Add(), acc, p) if not isinstance(acc, Opaque) else acc))
                    continue
                for s2, v in self.ev(p.value, s):
                    if isinstance(v, Raised):
                        nxt.append((s2, v))
                    elif isinstance(acc, Opaque):
                        nxt.append((s2, acc))
                    elif p.format_spec is None and p.conversion == -1 and isinstance(v, str):
                        nxt.append((s2, ops.arith(ast.Add(), acc, v)))
                    elif p.format_spec is None and p.conversion == -1 and isinstance(v, int) \
                            and not isinstance(v, bool):
                        nxt.append((s2, ops.arith(ast.Add(), acc, str(v))))
                    elif p.format_spec is None and p.conversion == -1 and isinstance(v, (SStr, SStrV)):
                        nxt.append((s2, ops.arith(ast.Add(), acc, v)))
                    elif p.format_spec is None and p.conversion == -1 and isinstance(v, SKind) \
                            and isinstance(acc, str):
                        nxt.append((s2, ("__kindfmt__", acc, v)))
                    else:
                        nxt.append((s2, Opaque("f-string")))
            results = nxt
        out = []
        for s, acc in results:
            if isinstance(acc, tuple) and acc and acc[0] == "__kindfmt__":
                acc = Opaque("f-string")
            out.append((s, acc))
        return out

    def ev_NamedExpr(self, node, st):
        def k(s, v):
            s.locals[node.target.id] = v
            return [(s, v)]
        return self.bind(self.ev(node.value, st), k)

    def ev_IfExp(self, node, st):
        def k(s, c):
            out = []
            for s2, b in self.split(s, truth(c, s)):
                out.extend(self.ev(node.body if b else node.orelse, s2))
            return out
        return self.bind(self.ev(node.test, st), k)

    def ev_Lambda(self, node, st):
        env = dict(st.frames[-1].get("__closure__", {}))
        env.update({k: v for k, v in st.frames[-1].items() if k != "__closure__"})
        return [(st, LambdaVal(node, env, self.current_func[-1] if self.current_func else None))]

    def ev_BoolOp_spec(self, node, st):
        """spec expressions are pure: `and` / `or` are combined into one formula without
        forking; operand i is evaluated under the assumption that makes Python reach it"""
        is_and = isinstance(node.op, ast.And)
        work = st.fork()
        terms = []
        for i, vnode in enumerate(node.values):
            base = len(work.pc)
            res = self.ev(vnode, work.fork())
            alts = []
            for s2, v in res:
                if isinstance(v, Raised):
                    if self.feasible(s2):
                        raise SpecError(f"spec operand {ast.unparse(vnode)} raises {v.exc.type} {v.exc.args}")
                    continue
                if not isinstance(v, (bool, SBool)) and i == 0:
                    return None
                t = bool_term(truth(v, s2))
                delta = s2.pc[base:]
                alts.append(z3.And(*delta, t) if delta else t)
            ti = z3.Or(*alts) if len(alts) != 1 else alts[0]
            tis = ops.simplify_bool(ti)
            terms.append(ti)
            if isinstance(tis, bool) and tis != is_and:
                break                     # decided: later operands are not evaluated (as in Python)
            work.pc.append(ti if is_and else z3.Not(ti))
        return [(st, mk_bool(z3.And(*terms) if is_and else z3.Or(*terms)))]

    def ev_BoolOp(self, node, st):
        if self.spec_mode:
            r = self.ev_BoolOp_spec(node, st)
            if r is not None:
                return r
        is_and = isinstance(node.op, ast.And)

        def go(s, i):
            def k(s2, v):
                if i == len(node.values) - 1:
                    return [(s2, v)]
                out = []
                for s3, b in self.split(s2, truth(v, s2)):
                    if b == is_and:
                        out.extend(go(s3, i + 1))
                    else:
                        if isinstance(v, SOpt) and b:
                            v2 = v.val      # truthy, hence not None
                        else:
                            v2 = v
                        out.append((s3, v2))
                return out
            return self.bind(self.ev(node.values[i], s), k)
        res = go(st, 0)
        return self.merge_bool_results(st, res)

    def merge_bool_results(self, st0, res):
        """keep forks (they carry side conditions); hook for future merging"""
        return res

    def ev_UnaryOp(self, node, st):
        def k(s, v):
            if isinstance(node.op, ast.Not):
                t = truth(v, s)
                return [(s, (not t) if isinstance(t, bool) else mk_bool(z3.Not(t)))]
            if isinstance(node.op, ast.USub) and is_intlike(v):
                return [(s, -v if isinstance(v, int) else mk_int(-int_term(v)))]
            if isinstance(node.op, ast.UAdd) and is_intlike(v):
                return [(s, v)]
            raise Unsupported(f"unary {type(node.op).__name__} on {v!r}")
        return self.bind(self.ev(node.operand, st), k)

    def ev_BinOp(self, node, st):
        def k(s, vals):
            a, b = vals
            return self.binop(s, node.op, a, b)
        return self.bind(self.eval_seq([node.left, node.right], st), k)

    def binop(self, s, op, a, b):
        for x, which in ((a, 0), (b, 1)):
            if isinstance(x, SOpt):
                out = []
                for s2, isn in self.split(s, x.isnone):
                    if isn:
                        out.extend(self.raise_(s2, "TypeError", "unsupported operand type(s): NoneType"))
                    else:
                        out.extend(self.binop(s2, op, x.val if which == 0 else a, x.val if which == 1 else b))
                return out
        if (a is None or b is None) and not isinstance(op, (ast.BitOr,)):
            return self.raise_(s, "TypeError", "unsupported operand type(s): NoneType")
        if isinstance(op, ast.Mult) and ((ops.is_strlike(a) and isinstance(b, (SInt, SBool)))
                                         or (ops.is_strlike(b) and isinstance(a, (SInt, SBool)))):
            sv, kv = (a, b) if ops.is_strlike(a) else (b, a)
            if isinstance(sv, str) and len(sv) == 1:
                r = z3.String(fresh_name("rep"))
                kk = int_term(kv)
                s.assume(z3.Length(r) == z3.If(kk > 0, kk, 0))
                s.notes.append(f"str*int: only the length of {sv!r}*k is modelled")
                return [(s, SStr(r))]
            raise Unsupported("str * symbolic int")
        if isinstance(op, ast.Add) and isinstance(a, Ref) and isinstance(s.cell(a), ListCell):
            other = self.iter_concrete(s, b) if isinstance(b, Ref) and isinstance(s.cell(b), ListCell) else None
            if other is None:
                return self.raise_(s, "TypeError", "can only concatenate list to list")
            return [(s, s.alloc(ListCell(s.cell(a).items + tuple(other))))]
        if isinstance(op, ast.Add) and isinstance(a, Opaque):
            return [(s, a)]
        if isinstance(op, ast.Add) and isinstance(b, Opaque) and ops.is_strlike(a):
            return [(s, b)]
        return [(s, ops.arith(op, a, b))]

    def ev_Compare(self, node, st):
        # a op1 b op2 c ... with short-circuit
        def go(s, left, i):
            def k(s2, right):
                res = self.compare(s2, node.ops[i], left, right)
                out = []
                for s3, r in res:
                    if isinstance(r, Raised) or i == len(node.ops) - 1:
                        out.append((s3, r))
                        continue
                    for s4, b in self.split(s3, truth(r, s3)):
                        if b:
                            out.extend(go(s4, right, i + 1))
                        else:
                            out.append((s4, False))
                return out
            return self.bind(self.ev(node.comparators[i], s), k)
        return self.bind(self.ev(node.left, st), lambda s, l: go(s, l, 0))

    def compare(self, s, op, a, b):
        if isinstance(op, (ast.Eq, ast.NotEq)):
            r = self.user_eq(s, a, b)
            if r is None:
                r = ops.values_eq(a, b, s)
            if isinstance(op, ast.NotEq):
                r = (not r) if isinstance(r, bool) else z3.Not(r)
            return [(s, mk_bool(r))]
        if isinstance(op, (ast.Is, ast.IsNot)):
            r = ops.values_is(a, b, s)
            if isinstance(op, ast.IsNot):
                r = (not r) if isinstance(r, bool) else z3.Not(r)
            return [(s, mk_bool(r))]
        if isinstance(op, (ast.In, ast.NotIn)):
            r = ops.contains(b, a, s)
            if isinstance(op, ast.NotIn):
                r = (not r) if isinstance(r, bool) else z3.Not(r)
            return [(s, mk_bool(r))]
        sym = {ast.Lt: "<", ast.LtE: "<=", ast.Gt: ">", ast.GtE: ">="}[type(op)]
        if isinstance(a, SOpt) or isinstance(b, SOpt) or a is None or b is None:
            # ordering with None raises TypeError in Python
            out = []
            conds = []
            for x in (a, b):
                if x is None:
                    return self.raise_(s, "TypeError", "ordering with None")
                if isinstance(x, SOpt):
                    conds.append(bool_term(x.isnone))
            for s2, isn in self.split(s, z3.Or(*conds)):
                if isn:
                    out.extend(self.raise_(s2, "TypeError", "ordering with None"))
                else:
                    aa = a.val if isinstance(a, SOpt) else a
                    bb = b.val if isinstance(b, SOpt) else b
                    out.append((s2, mk_bool(ops.order_compare(sym, aa, bb, s2))))
            return out
        return [(s, mk_bool(ops.order_compare(sym, a, b, s)))]

    def user_eq(self, s, a, b):
        """hook: equality of model objects (Rule == str, Scope == str ...)"""
        return None

    # ------------------------------------------------------------------ attribute / subscript
    def ev_Attribute(self, node, st):
        return self.bind(self.ev(node.value, st), lambda s, v: self.getattr(s, v, node.attr))

    def getattr(self, s, v, attr):
        cur = self.current_func[-1] if self.current_func else None
        attr = mangle(cur.cls if cur is not None else None, attr)
        if v is None:
            return self.raise_(s, "AttributeError", f"None.{attr}")
        if isinstance(v, SOpt):
            out = []
            for s2, isn in self.split(s, v.isnone):
                if isn:
                    out.extend(self.raise_(s2, "AttributeError", f"None.{attr}"))
                else:
                    out.extend(self.getattr(s2, v.val, attr))
            return out
        from . import builtins_ as B
        return B.getattr_value(self, s, v, attr)

    def ev_Subscript(self, node, st):
        if isinstance(node.slice, ast.Slice):
            parts = [node.slice.lower, node.slice.upper, node.slice.step]

            def k(s, base):
                nodes = [p for p in parts if p is not None]

                def k2(s2, vals):
                    it = iter(vals)
                    lo, hi, stp = [(next(it) if p is not None else None) for p in parts]
                    from . import builtins_ as B
                    return B.slice_value(self, s2, base, lo, hi, stp)
                return self.bind(self.eval_seq(nodes, s), k2)
            return self.bind(self.ev(node.value, st), k)

        def k(s, vals):
            base, idx = vals
            from . import builtins_ as B
            return B.index_value(self, s, base, idx)
        return self.bind(self.eval_seq([node.value, node.slice], st), k)

    # ------------------------------------------------------------------ comprehensions
    def ev_ListComp(self, node, st):
        from . import builtins_ as B
        return B.comprehension(self, st, node, "list")

    def ev_GeneratorExp(self, node, st):
        from . import builtins_ as B
        return B.comprehension(self, st, node, "gen")

    # ------------------------------------------------------------------ calls
    def ev_Call(self, node, st):
        def k(s, f):
            def k2(s2, args):
                kwn = [kw for kw in node.keywords]
                if any(kw.arg is None for kw in kwn):
                    raise Unsupported("**kwargs call")

                def k3(s3, kwv):
                    kwargs = {kw.arg: v for kw, v in zip(kwn, kwv)}
                    return self.call(s3, f, list(args), kwargs, node)
                return self.bind(self.eval_seq([kw.value for kw in kwn], s2), k3)
            return self.bind(self.eval_seq(node.args, s), k2)
        return self.bind(self.ev(node.func, st), k)

    def call(self, s, f, args, kwargs, node=None):
        if isinstance(f, Builtin):
            return f.fn(self, s, args, kwargs)
        if isinstance(f, BoundMethod):
            return self.call(s, f.func, [f.self_] + args, kwargs, node)
        if isinstance(f, FuncRef):
            return self.call_function(s, f, args, kwargs)
        if isinstance(f, LambdaVal):
            return self.call_lambda(s, f, args, kwargs)
        if isinstance(f, ClassRef):
            from . import builtins_ as B
            return B.instantiate(self, s, f, args, kwargs)
        if isinstance(f, ExcClass):
            return [(s, ExcVal(f.name, args))]
        if isinstance(f, SOpt) or f is None:
            return self.raise_(s, "TypeError", "NoneType is not callable")
        raise Unsupported(f"call of {f!r}")

    def call_lambda(self, s, lam, args, kwargs):
        a = lam.node.args
        names = [x.arg for x in a.args]
        if len(args) != len(names) or kwargs:
            raise Unsupported("lambda call shape")
        fr = {"__closure__": lam.env}
        fr.update(dict(zip(names, args)))
        s.frames.append(fr)
        self.current_func.append(lam.func if lam.func is not None else FuncRef(self.cur_module(), "<lambda>", None))
        try:
            res = self.ev(lam.node.body, s)
        finally:
            self.current_func.pop()
        out = []
        for s2, v in res:
            s2.frames.pop()
            out.append((s2, v))
        return out

    def bind_args(self, fref, args, kwargs, s):
        a = fref.node.args
        if a.vararg or a.kwarg:
            raise Unsupported(f"*args/**kwargs in {fref.key}")
        pos = [x.arg for x in a.posonlyargs + a.args]
        fr = {}
        if len(args) > len(pos):
            raise Unsupported(f"too many positional arguments for {fref.key}")
        for n, v in zip(pos, args):
            fr[n] = v
        for k, v in kwargs.items():
            if k in fr:
                raise Unsupported("duplicate argument")
            fr[k] = v
        # defaults
        defaults = a.defaults
        for n, d in zip(pos[len(pos) - len(defaults):], defaults):
            if n not in fr:
                fr[n] = self.eval_default(s, fref, d)
        for x, d in zip(a.kwonlyargs, a.kw_defaults):
            if x.arg not in fr:
                if d is None:
                    raise Unsupported(f"missing keyword-only argument {x.arg}")
                fr[x.arg] = self.eval_default(s, fref, d)
        for n in pos:
            if n not in fr:
                raise Unsupported(f"missing argument {n} for {fref.key}")
        return fr

    def eval_default(self, s, fref, d):
        self.current_func.append(fref)
        s.frames.append({})
        try:
            res = self.ev(d, s)
        finally:
            s.frames.pop()
            self.current_func.pop()
        if len(res) != 1:
            raise Unsupported("default value forks")
        return res[0][1]

    def call_function(self, s, fref, args, kwargs):
        key = fref.key
        if key in self.models:
            return self.models[key](self, s, args, kwargs)
        if key in self.contracts:
            # also for a recursive call of the function under verification: verify() runs
            # the body directly, so every call that arrives here is judged by the contract
            return self.contracts[key].apply_at_call(self, s, fref, args, kwargs)
        if len(self.current_func) > self.max_inline_depth:
            raise Unsupported(f"inline depth exceeded at {key} (recursion needs a contract)")
        fr = self.bind_args(fref, args, kwargs, s)
        return self.run_body(s, fref, fr)

    verifying = None

    def run_body(self, s, fref, frame):
        """execute the real body of fref in a new frame -> list of (state, value|Raised)"""
        s.frames.append(frame)
        self.current_func.append(fref)
        try:
            flows = self.exec_block(fref.node.body, s)
        finally:
            self.current_func.pop()
        out = []
        for s2, fl in flows:
            fin = s2.frames.pop()
            if len(self.current_func) == 0 or self.current_func[-1] is None:
                pass
            s2.ghost["final_locals:" + fref.key] = fin
            if fl[0] == "return":
                out.append((s2, fl[1]))
            elif fl[0] == "raise":
                out.append((s2, Raised(fl[1])))
            elif fl[0] == "next":
                out.append((s2, None))
            else:
                raise Unsupported(f"{fl[0]} outside loop")
        return out

    # ------------------------------------------------------------------ statements
    def exec_block(self, stmts, st):
        """-> list of (state, flow)"""
        results = [(st, FLOW_NEXT)]
        for stmt in stmts:
            nxt = []
            progressed = False
            for s, fl in results:
                if fl[0] != "next":
                    nxt.append((s, fl))
                    continue
                progressed = True
                nxt.extend(self.exec_stmt(stmt, s))
            results = nxt
            if not progressed:
                break
        return results

    def exec_stmt(self, stmt, st):
        m = getattr(self, "ex_" + type(stmt).__name__, None)
        if m is None:
            raise Unsupported(f"statement {type(stmt).__name__} at line {stmt.lineno}")
        return m(stmt, st)

    def flows_from(self, results, fn):
        """results of an expression evaluation -> flows; fn(state, value) -> list of flows"""
        out = []
        for s, v in results:
            if isinstance(v, Raised):
                out.append((s, ("raise", v.exc)))
            else:
                out.extend(fn(s, v))
        return out

    def ex_Expr(self, stmt, st):
        if isinstance(stmt.value, ast.Constant):
            return [(st, FLOW_NEXT)]
        if isinstance(stmt.value, ast.Yield) and getattr(self, "contextmanager_mode", False):
            # @contextmanager: the with-body runs at the yield; it either completes (the
            # generator is resumed) or raises (the exception is thrown into the generator here)
            s2 = st.fork()
            st.trace.append("body-ok")
            s2.trace.append("body-raises")
            return [(st, FLOW_NEXT), (s2, ("raise", ExcVal("BodyException", ())))]
        return self.flows_from(self.ev(stmt.value, st), lambda s, v: [(s, FLOW_NEXT)])

    def ex_Pass(self, stmt, st):
        return [(st, FLOW_NEXT)]

    def ex_Break(self, stmt, st):
        return [(st, FLOW_BREAK)]

    def ex_Continue(self, stmt, st):
        return [(st, FLOW_CONTINUE)]

    def ex_Return(self, stmt, st):
        if stmt.value is None:
            return [(st, ("return", None))]
        return self.flows_from(self.ev(stmt.value, st), lambda s, v: [(s, ("return", v))])

    def ex_Raise(self, stmt, st):
        if stmt.exc is None:
            raise Unsupported("bare raise")

        def k(s, v):
            if isinstance(v, ExcClass):
                v = ExcVal(v.name, ())
            if isinstance(v, ClassRef):
                v = ExcVal(v.name, ())
            if not isinstance(v, ExcVal):
                raise Unsupported(f"raise of {v!r}")
            return [(s, ("raise", v))]
        return self.flows_from(self.ev(stmt.exc, st), k)

    def ex_Assert(self, stmt, st):
        def k(s, v):
            out = []
            for s2, b in self.split(s, truth(v, s)):
                if b:
                    out.append((s2, FLOW_NEXT))
                else:
                    out.append((s2, ("raise", ExcVal("AssertionError", ()))))
            return out
        return self.flows_from(self.ev(stmt.test, st), k)

    def ex_Global(self, stmt, st):
        return [(st, FLOW_NEXT)]

    def ex_Delete(self, stmt, st):
        for t in stmt.targets:
            if isinstance(t, ast.Name):
                st.locals.pop(t.id, None)
            else:
                raise Unsupported("del of a non-name")
        return [(st, FLOW_NEXT)]

    def ex_FunctionDef(self, stmt, st):
        """nested helper: callable as an opaque function that may only append diagnostics.
        Sound when the helper writes no attribute / outer variable and calls nothing that
        moves the lexer or the cursor -- checked syntactically here"""
        for x in ast.walk(stmt):
            if isinstance(x, ast.Attribute) and isinstance(x.ctx, (ast.Store, ast.Del)):
                raise Unsupported(f"nested function {stmt.name} writes an attribute")
            if isinstance(x, (ast.Nonlocal, ast.Global, ast.Return)) and not (isinstance(x, ast.Return) and x.value is None):
                raise Unsupported(f"nested function {stmt.name}: nonlocal/global/return value")
            if isinstance(x, ast.Call) and isinstance(x.func, ast.Attribute) and \
                    x.func.attr in ("pop", "pop_tokens", "update", "setrecursionlimit"):
                raise Unsupported(f"nested function {stmt.name} calls .{x.func.attr}()")

        def opaque(E, s, args, kw):
            E.havoc_ghost(s)
            s.notes.append(f"nested function {stmt.name} is treated as opaque: it may only append diagnostics "
                           "(syntactic check: no attribute write, no nonlocal, no cursor-moving call)")
            return [(s, None)]
        st.locals[stmt.name] = Builtin("nested:" + stmt.name, opaque)
        return [(st, FLOW_NEXT)]

    def ex_Assign(self, stmt, st):
        def k(s, v):
            results = [(s, FLOW_NEXT)]
            for t in stmt.targets:
                nxt = []
                for s2, fl in results:
                    if fl[0] != "next":
                        nxt.append((s2, fl))
                    else:
                        nxt.extend(self.assign(s2, t, v))
                results = nxt
            return results
        return self.flows_from(self.ev(stmt.value, st), k)

    def ex_AnnAssign(self, stmt, st):
        if stmt.value is None:
            return [(st, FLOW_NEXT)]
        return self.flows_from(self.ev(stmt.value, st), lambda s, v: self.assign(s, stmt.target, v))

    def ex_AugAssign(self, stmt, st):
        t = stmt.target
        if isinstance(t, ast.Name):
            load = ast.Name(id=t.id, ctx=ast.Load())
        elif isinstance(t, ast.Attribute):
            load = ast.Attribute(value=t.value, attr=t.attr, ctx=ast.Load())
        elif isinstance(t, ast.Subscript):
            load = ast.Subscript(value=t.value, slice=t.slice, ctx=ast.Load())
        else:
            raise Unsupported("augmented assignment target")
        ast.copy_location(load, t)

        def k(s, vals):
            cur, rhs = vals
            if isinstance(cur, Ref) and isinstance(s.cell(cur), ObjCell) and s.cell(cur).cls in self.augassign_models:
                res = self.augassign_models[s.cell(cur).cls](self, s, cur, stmt.op, rhs)
                out = []
                for s2, nv in res:
                    out.extend(self.assign(s2, t, nv))
                return out
            if isinstance(stmt.op, ast.Add) and isinstance(cur, Ref) and isinstance(s.cell(cur), ListCell) \
                    and not s.cell(cur).items and isinstance(rhs, Ref) and isinstance(s.cell(rhs), ObjCell) \
                    and s.cell(rhs).cls in self.seq_models:
                return self.assign(s, t, rhs)       # [] += <symbolic sequence>
            # list += iterable mutates in place
            if isinstance(stmt.op, ast.Add) and isinstance(cur, Ref) and isinstance(s.cell(cur), ListCell):
                items = self.iter_concrete(s, rhs)
                s.set_cell(cur, ListCell(s.cell(cur).items + tuple(items)))
                return self.assign(s, t, cur)
            out = []
            for s2, nv in self.binop(s, stmt.op, cur, rhs):
                if isinstance(nv, Raised):
                    out.append((s2, ("raise", nv.exc)))
                else:
                    out.extend(self.assign(s2, t, nv))
            return out
        return self.flows_from(self.eval_seq([load, stmt.value], st), k)

    def assign(self, s, target, v):
        """-> list of flows"""
        if isinstance(target, ast.Name):
            s.locals[target.id] = v
            return [(s, FLOW_NEXT)]
        if isinstance(target, (ast.Tuple, ast.List)):
            if any(isinstance(e, ast.Starred) for e in target.elts):
                raise Unsupported("starred assignment target")
            if v is None:
                return [(s, ("raise", ExcVal("TypeError", ("cannot unpack non-iterable NoneType",))))]
            if isinstance(v, SOpt):
                out = []
                for s2, isn in self.split(s, v.isnone):
                    if isn:
                        out.append((s2, ("raise", ExcVal("TypeError", ("cannot unpack None",)))))
                    else:
                        out.extend(self.assign(s2, target, v.val))
                return out
            if isinstance(v, bool) or isinstance(v, (SBool, SInt, int)):
                return [(s, ("raise", ExcVal("TypeError", ("cannot unpack non-iterable",))))]
            if isinstance(v, SStrV) and len(target.elts) == 1:
                # `highlight, = args` style is for tuples only; strings: unsupported
                raise Unsupported("unpacking a string")
            items = self.iter_concrete(s, v)
            if len(items) != len(target.elts):
                return [(s, ("raise", ExcVal("ValueError", ("unpack length",))))]
            results = [(s, FLOW_NEXT)]
            for e, x in zip(target.elts, items):
                nxt = []
                for s2, fl in results:
                    if fl[0] != "next":
                        nxt.append((s2, fl))
                    else:
                        nxt.extend(self.assign(s2, e, x))
                results = nxt
            return results
        if isinstance(target, ast.Attribute):
            def k(s2, base):
                from . import builtins_ as B
                cur = self.current_func[-1] if self.current_func else None
                attr = mangle(cur.cls if cur is not None else None, target.attr)
                return B.setattr_value(self, s2, base, attr, v)
            return self.flows_from(self.ev(target.value, s), k)
        if isinstance(target, ast.Subscript):
            def k(s2, vals):
                base, idx = vals
                from . import builtins_ as B
                return B.setitem_value(self, s2, base, idx, v)
            if isinstance(target.slice, ast.Slice):
                raise Unsupported("slice assignment")
            return self.flows_from(self.eval_seq([target.value, target.slice], s), k)
        raise Unsupported(f"assignment target {type(target).__name__}")

    def ex_If(self, stmt, st):
        def k(s, c):
            out = []
            for s2, b in self.split(s, truth(c, s)):
                out.extend(self.exec_block(stmt.body if b else stmt.orelse, s2))
            return out
        return self.flows_from(self.ev(stmt.test, st), k)

    def ex_Try(self, stmt, st):
        flows = self.exec_block(stmt.body, st)
        out = []
        for s, fl in flows:
            if fl[0] == "raise":
                handled = False
                for h in stmt.handlers:
                    names = self.handler_names(s, h)
                    if names is None or any(exc_isinstance(fl[1].type, n) for n in names):
                        if h.name:
                            s.locals[h.name] = fl[1]
                        out.extend(self.exec_block(h.body, s))
                        handled = True
                        break
                if not handled:
                    out.append((s, fl))
            elif fl[0] == "next" and stmt.orelse:
                out.extend(self.exec_block(stmt.orelse, s))
            else:
                out.append((s, fl))
        if stmt.finalbody:
            fin = []
            for s, fl in out:
                for s2, fl2 in self.exec_block(stmt.finalbody, s):
                    fin.append((s2, fl if fl2[0] == "next" else fl2))
            out = fin
        return out

    def handler_names(self, s, h):
        if h.type is None:
            return None
        nodes = h.type.elts if isinstance(h.type, ast.Tuple) else [h.type]
        names = []
        for n in nodes:
            if isinstance(n, ast.Name):
                names.append(n.id)
            elif isinstance(n, ast.Attribute):
                names.append(n.attr)
            else:
                raise Unsupported("except clause")
        for n in names:
            if n not in EXC_PARENT:
                raise Unsupported(f"unknown exception class {n}")
        return names

    def ex_With(self, stmt, st):
        from . import builtins_ as B
        return B.exec_with(self, stmt, st)

    # ------------------------------------------------------------------ loops
    def loop_ordinal(self, node):
        f = self.current_func[-1]
        loops = [n for n in ast.walk(f.node) if isinstance(n, (ast.While, ast.For))]
        loops.sort(key=lambda n: (n.lineno, n.col_offset))
        return loops.index(node)

    def ex_While(self, stmt, st):
        from . import loops
        return loops.exec_while(self, stmt, st)

    def ex_For(self, stmt, st):
        from . import loops
        return loops.exec_for(self, stmt, st)
