"""Builtins, attribute access, indexing, object construction for pyvc."""
import ast

import z3

from .values import (Sym, SInt, SBool, SStr, SKind, SKindSet, SStrV, SOpt, Opaque, Ref, ListCell, DictCell,
                     IntSetCell, ObjCell, StreamCell, TokList, Tok, HistList, FuncRef, ClassRef, SType,
                     BoundMethod, Builtin, PyModule, ExcVal, ExcClass, Raised, KINDS, EXC_PARENT,
                     int_term, is_intlike, bool_term, mk_int, mk_bool, str_term, strv_of_const, fresh_name)
from . import ops
from .ops import Unsupported, truth

TOKEN_CLASS = "norminette/lexer/tokens.py:Token"


class SuperProxy(Sym):
    __slots__ = ("self_", "cls")

    def __init__(self, self_, cls):
        self.self_, self.cls = self_, cls


class EnumIter(Sym):
    """result of enumerate(x, start)"""
    __slots__ = ("base", "start")

    def __init__(self, base, start):
        self.base, self.start = base, start


class RevIter(Sym):
    __slots__ = ("base",)

    def __init__(self, base):
        self.base = base


class RangeVal(Sym):
    __slots__ = ("lo", "hi")

    def __init__(self, lo, hi):
        self.lo, self.hi = lo, hi


class GenVal(Sym):
    """generator expression / comprehension over a symbolic sequence, kept lazily"""
    __slots__ = ("node", "env", "func", "frame")

    def __init__(self, node, env, func):
        self.node, self.env, self.func = node, env, func


def ok(s, v):
    return [(s, v)]


# ------------------------------------------------------------------------------ builtins
def _len(E, s, args, kw):
    (v,) = args
    for hook in E.len_hooks:
        r = hook(E, s, v)
        if r is not None:
            return ok(s, r)
    if isinstance(v, (str, tuple)):
        return ok(s, len(v))
    if isinstance(v, SStr):
        return ok(s, mk_int(z3.Length(v.t)))
    if isinstance(v, SStrV):
        return ok(s, mk_int(v.length))
    if isinstance(v, TokList):
        return ok(s, mk_int(v.length))
    if isinstance(v, HistList):
        return ok(s, mk_int(v.length))
    if isinstance(v, Ref):
        c = s.cell(v)
        if isinstance(c, ListCell):
            return ok(s, len(c.items))
        if isinstance(c, DictCell):
            return ok(s, len(c.d))
        if isinstance(c, ObjCell):
            if "__len__" in c.attrs:
                return ok(s, c.attrs["__len__"])
            f = E_class_lookup(E, c.cls, "__len__")
            if f is not None:
                return E.call(s, BoundMethod(v, f), [], {})
    if v is None:
        return E.raise_(s, "TypeError", "len(None)")
    if isinstance(v, SOpt):
        out = []
        for s2, isn in E.split(s, v.isnone):
            out.extend(_len(E, s2, [None if isn else v.val], kw))
        return out
    if isinstance(v, Opaque):
        return ok(s, Opaque("len"))
    raise Unsupported(f"len of {v!r}")


def _range(E, s, args, kw):
    if len(args) == 1:
        return ok(s, RangeVal(0, args[0]))
    if len(args) == 2:
        return ok(s, RangeVal(args[0], args[1]))
    raise Unsupported("range with step")


def class_name_of(E, s, v):
    """python-side description of the dynamic type of v"""
    if isinstance(v, bool) or isinstance(v, SBool):
        return "bool"
    if isinstance(v, (int, SInt)):
        return "int"
    if isinstance(v, (str, SStr, SStrV, SKind)):
        return "str"
    if isinstance(v, tuple):
        return "tuple"
    if v is None:
        return "NoneType"
    if isinstance(v, SKindSet):
        return "list"
    if isinstance(v, Tok):
        return "Token"
    if isinstance(v, ExcVal):
        return v.type
    if isinstance(v, Ref):
        c = s.cell(v)
        if isinstance(c, ListCell):
            return "list"
        if isinstance(c, (DictCell, IntSetCell)):
            return "dict"
        if isinstance(c, ObjCell):
            if isinstance(c.cls, ClassRef):
                return c.cls
            if isinstance(c.cls, str):
                return c.cls
            return c.cls      # SKind
    raise Unsupported(f"dynamic type of {v!r}")


def _isinstance(E, s, args, kw):
    v, cls = args
    classes = list(cls) if isinstance(cls, tuple) else [cls]
    if isinstance(v, SOpt):
        out = []
        for s2, isn in E.split(s, v.isnone):
            out.extend(_isinstance(E, s2, [None if isn else v.val, cls], kw))
        return out
    tn = class_name_of(E, s, v)
    res = False
    for c in classes:
        if isinstance(c, Builtin):
            cn = c.name
            if isinstance(tn, str) and (tn == cn or (tn == "bool" and cn == "int")):
                res = True
        elif isinstance(c, ClassRef):
            if isinstance(tn, ClassRef):
                if is_subclass(E, tn, c):
                    res = True
            elif isinstance(tn, str):
                if tn == c.name or (tn in EXC_PARENT and ops_exc_isinstance(tn, c.name)):
                    res = True
            elif isinstance(tn, SKind):
                raise Unsupported("isinstance on an object of symbolic class")
        elif isinstance(c, ExcClass):
            if isinstance(tn, str) and ops_exc_isinstance(tn, c.name):
                res = True
        elif isinstance(c, Opaque):
            # typing.Sequence and the like
            if c.why == "typing.Sequence":
                if tn in ("list", "tuple", "str"):
                    res = True
            else:
                raise Unsupported(f"isinstance against {c!r}")
        else:
            raise Unsupported(f"isinstance against {c!r}")
    return ok(s, res)


def ops_exc_isinstance(a, b):
    from .values import exc_isinstance
    return exc_isinstance(a, b)


def is_subclass(E, c, base):
    if c.key == base.key:
        return True
    for b in E.repo.class_bases(c):
        if is_subclass(E, b, base):
            return True
    return False


def _bool(E, s, args, kw):
    if not args:
        return ok(s, False)
    t = truth(args[0], s)
    return ok(s, t if isinstance(t, bool) else mk_bool(t))


def _int(E, s, args, kw):
    (v,) = args
    if isinstance(v, (int, bool)):
        return ok(s, int(v))
    if isinstance(v, SInt):
        return ok(s, v)
    if isinstance(v, SBool):
        return ok(s, mk_int(int_term(v)))
    if isinstance(v, str):
        try:
            return ok(s, int(v))
        except ValueError:
            return E.raise_(s, "ValueError", "int()")
    raise Unsupported(f"int({v!r})")


def _str(E, s, args, kw):
    (v,) = args
    if isinstance(v, (str, SStr, SStrV, SKind)):
        return ok(s, v)
    if isinstance(v, int) and not isinstance(v, bool):
        return ok(s, str(v))
    return ok(s, Opaque("str()"))


def _minmax(which):
    def f(E, s, args, kw):
        if len(args) == 1:
            items = E.iter_concrete(s, args[0])
        else:
            items = list(args)
        if not items:
            return E.raise_(s, "ValueError", "empty sequence")
        if all(isinstance(x, (int, bool)) for x in items):
            return ok(s, min(items) if which == "min" else max(items))
        if all(is_intlike(x) for x in items):
            acc = int_term(items[0])
            for x in items[1:]:
                t = int_term(x)
                acc = z3.If(t < acc, t, acc) if which == "min" else z3.If(t > acc, t, acc)
            return ok(s, mk_int(acc))
        raise Unsupported(f"{which} over non-integers (needs a contract)")
    return f


def _enumerate(E, s, args, kw):
    start = kw.get("start", args[1] if len(args) > 1 else 0)
    return ok(s, EnumIter(args[0], start))


def _reversed(E, s, args, kw):
    return ok(s, RevIter(args[0]))


def _allany(which):
    def f(E, s, args, kw):
        (v,) = args
        if isinstance(v, SymComp):
            t = v.quantified(which, s)
            return ok(s, mk_bool(t))
        items = E.iter_concrete(s, v)
        terms = [bool_term(truth(x, s)) for x in items]
        if not terms:
            return ok(s, which == "all")
        return ok(s, mk_bool(z3.And(*terms) if which == "all" else z3.Or(*terms)))
    return f


def _print(E, s, args, kw):
    out = s.ghost.get("stdout", ())
    s.ghost["stdout"] = out + (tuple(args),)
    return ok(s, None)


def _type(E, s, args, kw):
    (v,) = args
    if isinstance(v, SOpt):
        out = []
        for s2, isn in E.split(s, v.isnone):
            out.extend(_type(E, s2, [None if isn else v.val], kw))
        return out
    tn = class_name_of(E, s, v)
    if isinstance(tn, ClassRef):
        return ok(s, tn)
    if isinstance(tn, SKind):
        return ok(s, SType(tn.t))
    if isinstance(tn, str):
        return ok(s, Builtin(tn, None))
    raise Unsupported("type()")


def _super(E, s, args, kw):
    cur = E.current_func[-1]
    selfv = s.locals.get("self", s.locals.get("cls"))
    return ok(s, SuperProxy(selfv, cur.cls))


def _list(E, s, args, kw):
    if not args:
        return ok(s, s.alloc(ListCell(())))
    v = args[0]
    if isinstance(v, (TokList, HistList)):
        return ok(s, v)
    return ok(s, s.alloc(ListCell(E.iter_concrete(s, v))))


def _tuple(E, s, args, kw):
    if not args:
        return ok(s, ())
    return ok(s, tuple(E.iter_concrete(s, args[0])))


def _hasattr(E, s, args, kw):
    v, name = args
    res = getattr_value(E, s.fork(), v, name, missing_ok=True)
    return ok(s, res is not None)


def _getattr_builtin(E, s, args, kw):
    """getattr(obj, name[, default]).  A concrete name is an attribute access.  A name that
    is not a constant selects among the methods the class defines: one path per method of
    the object's class (each an over-approximation: the name is not constrained further)
    plus the default / AttributeError path -- every dispatch target is then subject to its
    own contract at the call site."""
    obj, name = args[0], args[1]
    has_default = len(args) > 2
    if isinstance(name, str):
        r = getattr_value(E, s, obj, name, missing_ok=has_default)
        return ok(s, args[2]) if r is None else r
    if not (isinstance(obj, Ref) and isinstance(s.cell(obj), ObjCell) and isinstance(s.cell(obj).cls, ClassRef)):
        raise Unsupported("getattr with a computed name on an object of unknown class")
    cls = s.cell(obj).cls
    prefix = None
    if isinstance(name, SStr):
        t = name.t
        if z3.is_app(t) and t.decl().kind() == z3.Z3_OP_SEQ_CONCAT and z3.is_string_value(t.arg(0)):
            prefix = t.arg(0).as_string()
    if not prefix:
        raise Unsupported(f"getattr with a computed name on {cls.name}: no constant prefix in the name")
    out = []
    for b in cls.node.body:
        if isinstance(b, ast.FunctionDef) and b.name.startswith(prefix):
            s2 = s.fork()
            out.extend(getattr_value(E, s2, obj, b.name))
    s3 = s.fork()
    out.extend(ok(s3, args[2]) if has_default else E.raise_(s3, "AttributeError", "computed name"))
    return out


def _map(E, s, args, kw):
    f, it = args
    items = E.iter_concrete(s, it)
    results = [(s, [])]
    for x in items:
        nxt = []
        for s2, acc in results:
            for s3, r in E.call(s2, f, [x], {}):
                if isinstance(r, Raised):
                    raise Unsupported("exception inside map()")
                nxt.append((s3, acc + [r]))
        results = nxt
    return [(s2, tuple(acc)) for s2, acc in results]


def _next(E, s, args, kw):
    raise Unsupported("next() (needs a model)")


def _abs(E, s, args, kw):
    (v,) = args
    if isinstance(v, int):
        return ok(s, abs(v))
    t = int_term(v)
    return ok(s, mk_int(z3.If(t < 0, -t, t)))


_B = {
    "len": _len, "range": _range, "isinstance": _isinstance, "bool": _bool, "int": _int, "str": _str,
    "min": _minmax("min"), "max": _minmax("max"), "enumerate": _enumerate, "reversed": _reversed,
    "all": _allany("all"), "any": _allany("any"), "print": _print, "type": _type, "super": _super,
    "list": _list, "tuple": _tuple, "hasattr": _hasattr, "getattr": _getattr_builtin, "map": _map, "next": _next, "abs": _abs,
}


def get(E, name):
    if name in _B:
        return Builtin(name, _B[name])
    if name in EXC_PARENT:
        return ExcClass(name)
    if name == "set":
        def _set(E_, s, args, kw):
            if args:
                raise Unsupported("set(iterable)")
            return ok(s, s.alloc(IntSetCell()))
        return Builtin("set", _set)
    if name in ("dict", "object", "float"):
        def _unsupported(E_, s, args, kw, name=name):
            raise Unsupported(f"call of builtin {name}()")
        return Builtin(name, _unsupported)
    if name == "True":
        return True
    return None


# ------------------------------------------------------------------------------ classes
def class_mro(E, cref):
    out = [cref]
    for b in E.repo.class_bases(cref):
        for c in class_mro(E, b):
            if c not in out:
                out.append(c)
    return out


def E_class_lookup(E, cls, name, skip_first=False):
    """find attribute `name` on a class (MRO) -> ('func', FuncRef, decorators) / value node"""
    if not isinstance(cls, ClassRef):
        return None
    mro = class_mro(E, cls)
    if skip_first:
        mro = mro[1:]
    for c in mro:
        n = E.repo.class_attr_node(c, name)
        if isinstance(n, ast.FunctionDef):
            return FuncRef(c.module, f"{c.name}.{name}", n, c)
    return None


def class_const_lookup(E, s, cls, name):
    if not isinstance(cls, ClassRef):
        return NotImplemented
    for c in class_mro(E, cls):
        n = E.repo.class_attr_node(c, name)
        if isinstance(n, (ast.Assign, ast.AnnAssign)):
            key = (c.module, f"{c.name}.{name}")
            if key not in s.globals:
                fake = FuncRef(c.module, c.name + ".<class>", None, c)
                E.current_func.append(fake)
                s.frames.append({})
                try:
                    res = E.ev(n.value, s)
                finally:
                    s.frames.pop()
                    E.current_func.pop()
                if len(res) != 1:
                    raise Unsupported("class attribute initialiser forks")
                s.globals[key] = res[0][1]
            return s.globals[key]
    return NotImplemented


def decorators_of(fnode):
    out = []
    for d in fnode.decorator_list:
        if isinstance(d, ast.Name):
            out.append(d.id)
        elif isinstance(d, ast.Attribute):
            out.append(d.attr)
        elif isinstance(d, ast.Call) and isinstance(d.func, ast.Name):
            out.append(d.func.id)
        else:
            out.append("?")
    return out


def is_dataclass(cref):
    for d in cref.node.decorator_list:
        if isinstance(d, ast.Name) and d.id == "dataclass":
            return True
        if isinstance(d, ast.Call) and isinstance(d.func, ast.Name) and d.func.id == "dataclass":
            return True
    return False


def dataclass_fields(E, cref):
    fields = []
    for c in reversed(class_mro(E, cref)):
        for b in c.node.body:
            if isinstance(b, ast.AnnAssign) and isinstance(b.target, ast.Name):
                fields.append((b.target.id, b.value, c))
    return fields


def instantiate(E, s, cref, args, kwargs):
    if cref.name in EXC_PARENT:
        return ok(s, ExcVal(cref.name, args))
    key = cref.key
    if key in E.models:
        return E.models[key](E, s, args, kwargs)
    if is_dataclass(cref):
        fields = dataclass_fields(E, cref)
        attrs = {}
        names = [f[0] for f in fields]
        if len(args) > len(names):
            return E.raise_(s, "TypeError", "too many arguments")
        for n, v in zip(names, args):
            attrs[n] = v
        for k, v in kwargs.items():
            if k not in names:
                return E.raise_(s, "TypeError", f"unexpected keyword {k}")
            if k in attrs:
                return E.raise_(s, "TypeError", f"multiple values for {k}")
            attrs[k] = v
        for n, dflt, c in fields:
            if n in attrs:
                continue
            if dflt is None:
                return E.raise_(s, "TypeError", f"missing argument {n}")
            # field(default=..) / field(default_factory=list) / plain default
            if isinstance(dflt, ast.Call) and isinstance(dflt.func, ast.Name) and dflt.func.id == "field":
                kws = {k.arg: k.value for k in dflt.keywords}
                if "default" in kws:
                    attrs[n] = E.eval_default(s, FuncRef(c.module, c.name + ".<class>", None, c), kws["default"])
                elif "default_factory" in kws and isinstance(kws["default_factory"], ast.Name) \
                        and kws["default_factory"].id == "list":
                    attrs[n] = s.alloc(ListCell(()))
                else:
                    raise Unsupported("dataclass field()")
            else:
                attrs[n] = E.eval_default(s, FuncRef(c.module, c.name + ".<class>", None, c), dflt)
        attrs["__complete__"] = True
        return ok(s, s.alloc(ObjCell(cref, attrs)))
    # an object whose __init__ is executed by the engine has exactly the attributes the code
    # gave it; objects built by a model (make_context, ...) are partial
    ref = s.alloc(ObjCell(cref, {"__complete__": True}))
    init = E_class_lookup(E, cref, "__init__")
    if init is None:
        if args or kwargs:
            return E.raise_(s, "TypeError", "object() takes no arguments")
        return ok(s, ref)
    out = []
    for s2, r in E.call_function(s, init, [ref] + list(args), kwargs):
        out.append((s2, r if isinstance(r, Raised) else ref))
    return out


# ------------------------------------------------------------------------------ getattr
def getattr_value(E, s, v, attr, missing_ok=False):
    r = _getattr(E, s, v, attr)
    if r is None:
        if missing_ok:
            return None
        if isinstance(v, Ref) and isinstance(s.cell(v), ObjCell) and not s.cell(v).attrs.get("__complete__"):
            # the object comes from a model that does not have this attribute: that says nothing
            # about the real object
            c = s.cell(v)
            raise Unsupported(f"attribute .{attr} of a partially modelled "
                              f"{c.cls if isinstance(c.cls, str) else getattr(c.cls, 'name', 'object')} is not modelled")
        return E.raise_(s, "AttributeError", f"{attr}")
    return r


def method(name, fn):
    return Builtin(name, fn)


def _getattr(E, s, v, attr):
    for hook in E.value_attr_hooks:
        r = hook(E, s, v, attr)
        if r is not None:
            return r
    if isinstance(v, Ref):
        c = s.cell(v)
        if isinstance(c, ObjCell) and c.cls == "SymList" and attr == "append":
            def sym_append0(E_, s_, a, k):
                cc = s_.cell(v)
                s_.set_cell(v, cc.with_attr("__len__", mk_int(int_term(cc.attrs["__len__"]) + 1)))
                return ok(s_, None)
            return ok(s, method("symlist.append", sym_append0))
        if isinstance(c, ObjCell):
            if attr in c.attrs:
                return ok(s, c.attrs[attr])
            if isinstance(c.cls, str) and c.cls in E.attr_models:
                r = E.attr_models[c.cls](E, s, v, attr)
                if r is not None:
                    return r
            cls = c.cls
            if isinstance(cls, str) and ":" in cls:
                rel, nm = cls.split(":")
                cls = E.repo.find_class(rel, nm)
            if isinstance(cls, SKind) and "__base__" in c.attrs:
                # object of symbolic class: methods are those of the declared common base
                rel, nm = c.attrs["__base__"].split(":")
                cls = E.repo.find_class(rel, nm)
            if isinstance(cls, ClassRef):
                f = E_class_lookup(E, cls, attr)
                if f is not None:
                    decs = decorators_of(f.node)
                    if "property" in decs:
                        return E.call_function(s, f, [v], {})
                    if "classmethod" in decs:
                        return ok(s, BoundMethod(cls, f))
                    if "staticmethod" in decs:
                        return ok(s, f)
                    return ok(s, BoundMethod(v, f))
                cv = class_const_lookup(E, s, cls, attr)
                if cv is not NotImplemented:
                    if isinstance(cv, FuncRef):
                        return ok(s, BoundMethod(v, cv))
                    return ok(s, cv)
            return None
        if isinstance(c, ListCell):
            return list_method(E, s, v, attr)
        if isinstance(c, ObjCell) and c.cls == "SymList" and attr == "append":
            def sym_append(E_, s_, a, k):
                cc = s_.cell(v)
                s_.set_cell(v, cc.with_attr("__len__", mk_int(int_term(cc.attrs["__len__"]) + 1)))
                return ok(s_, None)
            return ok(s, method("symlist.append", sym_append))
        if isinstance(c, DictCell):
            return dict_method(E, s, v, attr)
        if isinstance(c, IntSetCell) and attr == "add":
            def set_add(E_, s_, a, k):
                if not is_intlike(a[0]):
                    raise Unsupported("set.add of a non-integer")
                cc = s_.cell(v)
                s_.set_cell(v, IntSetCell(z3.Store(cc.present, int_term(a[0]), True)))
                return ok(s_, None)
            return ok(s, method("set.add", set_add))
        return None
    if isinstance(v, (str, SStr, SStrV)):
        return str_method(E, s, v, attr)
    if isinstance(v, SKind):
        if attr in ("upper", "lower"):
            # the case-mapped spelling of a kind name: an unknown string (over-approximation)
            def kind_case(E_, s_, a, k):
                s_.notes.append(f"str.{attr} on a kind name is over-approximated by an arbitrary string")
                return ok(s_, SStr(z3.String(fresh_name("kind_" + attr))))
            return ok(s, method(f"kind.{attr}", kind_case))
        if attr == "startswith":
            raise Unsupported(f"str.{attr} on a kind string")
        return None
    if isinstance(v, Tok):
        return tok_attr(E, s, v, attr)
    if isinstance(v, HistList):
        if attr == "append":
            raise Unsupported("history.append (needs a model)")
        return None
    if isinstance(v, tuple):
        if attr == "index":
            return ok(s, method("tuple.index", lambda E_, s_, a, k: ok(s_, v.index(a[0]))))
        if attr == "count":
            return ok(s, method("tuple.count", lambda E_, s_, a, k: ok(s_, v.count(a[0]))))
        return None
    if isinstance(v, PyModule):
        if v.name.startswith("repo:"):
            r = E.module_global(s, v.name[5:], attr)
            return None if r is NotImplemented else ok(s, r)
        return ok(s, E.pymodule_attr(v, attr))
    if isinstance(v, ClassRef):
        if v.key in E.attr_models:
            r = E.attr_models[v.key](E, s, v, attr)
            if r is not None:
                return r
        f = E_class_lookup(E, v, attr)
        if f is not None:
            decs = decorators_of(f.node)
            if "classmethod" in decs:
                return ok(s, BoundMethod(v, f))
            return ok(s, f)
        cv = class_const_lookup(E, s, v, attr)
        if cv is not NotImplemented:
            return ok(s, cv)
        if attr == "__name__":
            return ok(s, v.name)
        return None
    if isinstance(v, SuperProxy):
        f = E_class_lookup(E, v.cls, attr, skip_first=True)
        if f is not None:
            return ok(s, BoundMethod(v.self_, f))
        if attr == "__init__":
            return ok(s, method("object.__init__", lambda E_, s_, a, k: ok(s_, None)))
        return None
    if isinstance(v, ExcVal):
        if attr == "msg":
            return ok(s, v.args[0] if v.args else Opaque("msg"))
        if attr == "args":
            return ok(s, v.args)
        return None
    if isinstance(v, FuncRef) and attr == "__name__":
        return ok(s, v.node.name)
    if isinstance(v, Opaque):
        return ok(s, Opaque(v.why + "." + attr))
    if isinstance(v, (int, bool, SInt, SBool)):
        return None
    if isinstance(v, SType):
        if attr == "__name__":
            return ok(s, SKind(v.t))
        return None
    if isinstance(v, Builtin) and v.name == "str" and attr == "upper":
        return ok(s, method("str.upper", lambda E_, s_, a, k: str_method(E_, s_, a[0], "upper")[0][1].fn(E_, s_, [], {})))
    raise Unsupported(f"attribute {attr} of {v!r}")


def tok_attr(E, s, tok, attr):
    st = s.cell(tok.stream)
    i = tok.idx
    if attr == "type":
        return ok(s, SKind(z3.Select(st.kind, i)))
    if attr == "pos":
        return ok(s, (mk_int(z3.Select(st.lin, i)), mk_int(z3.Select(st.col, i))))
    if attr == "value":
        hv = ops.simplify_bool(z3.Select(st.hasval, i))
        val = SStr(z3.Select(st.val, i))
        if hv is True:
            return ok(s, val)
        if hv is False:
            return ok(s, None)
        return ok(s, SOpt(z3.Not(hv), val))
    rel, nm = TOKEN_CLASS.split(":")
    cls = E.repo.find_class(rel, nm)
    f = E_class_lookup(E, cls, attr)
    if f is not None:
        if "property" in decorators_of(f.node):
            return E.call_function(s, f, [tok], {})
        return ok(s, BoundMethod(tok, f))
    return None


def list_method(E, s, ref, attr):
    def append(E_, s_, a, k):
        s_.set_cell(ref, ListCell(s_.cell(ref).items + (a[0],)))
        return ok(s_, None)

    def remove(E_, s_, a, k):
        items = list(s_.cell(ref).items)
        for i, x in enumerate(items):
            eq = ops.values_eq(x, a[0], s_)
            if not isinstance(eq, bool):
                raise Unsupported("list.remove with a symbolic comparison")
            if eq:
                del items[i]
                s_.set_cell(ref, ListCell(items))
                return ok(s_, None)
        return E_.raise_(s_, "ValueError", "list.remove(x): x not in list")

    def index(E_, s_, a, k):
        items = list(s_.cell(ref).items)
        x = a[0]
        if isinstance(x, SKind) and all(isinstance(it, str) for it in items):
            # index of a symbolic kind in a constant list: ite chain, ValueError if absent
            conds = [x.t == KINDS.code(it) for it in items]
            out = []
            for s2, found in E_.split(s_, z3.Or(*conds)):
                if not found:
                    out.extend(E_.raise_(s2, "ValueError", "not in list"))
                else:
                    t = z3.IntVal(len(items) - 1)
                    for i in reversed(range(len(items) - 1)):
                        t = z3.If(conds[i], i, t)
                    out.append((s2, mk_int(t)))
            return out
        for i, it in enumerate(items):
            eq = ops.values_eq(it, x, s_)
            if not isinstance(eq, bool):
                raise Unsupported("list.index with a symbolic comparison")
            if eq:
                return ok(s_, i)
        return E_.raise_(s_, "ValueError", "not in list")

    def copy(E_, s_, a, k):
        return ok(s_, s_.alloc(ListCell(s_.cell(ref).items)))

    def extend(E_, s_, a, k):
        s_.set_cell(ref, ListCell(s_.cell(ref).items + tuple(E_.iter_concrete(s_, a[0]))))
        return ok(s_, None)

    def pop(E_, s_, a, k):
        items = list(s_.cell(ref).items)
        if not items:
            return E_.raise_(s_, "IndexError", "pop from empty list")
        i = a[0] if a else -1
        if not isinstance(i, int):
            raise Unsupported("list.pop(symbolic)")
        x = items.pop(i)
        s_.set_cell(ref, ListCell(items))
        return ok(s_, x)

    tbl = {"append": append, "remove": remove, "index": index, "copy": copy, "extend": extend, "pop": pop}
    if attr in tbl:
        return ok(s, method("list." + attr, tbl[attr]))
    if attr == "sort":
        raise Unsupported("list.sort (needs a model)")
    return None


def dict_method(E, s, ref, attr):
    def get_(E_, s_, a, k):
        d = s_.cell(ref).d
        key = a[0]
        default = a[1] if len(a) > 1 else None
        return dict_lookup(E_, s_, d, key, default, raise_missing=False)
    if attr == "get":
        return ok(s, method("dict.get", get_))
    if attr == "keys":
        return ok(s, method("dict.keys", lambda E_, s_, a, k: ok(s_, tuple(s_.cell(ref).d.keys()))))
    if attr == "items":
        return ok(s, method("dict.items", lambda E_, s_, a, k: ok(s_, tuple(s_.cell(ref).d.items()))))
    if attr == "values":
        return ok(s, method("dict.values", lambda E_, s_, a, k: ok(s_, tuple(s_.cell(ref).d.values()))))
    if attr == "setdefault":
        def sd(E_, s_, a, k):
            d = dict(s_.cell(ref).d)
            if a[0] not in d:
                d[a[0]] = a[1]
                s_.set_cell(ref, DictCell(d))
            return ok(s_, d[a[0]])
        return ok(s, method("dict.setdefault", sd))
    return None


def merge_values(E, conds_vals, default):
    """ite-merge values of one shape: [(cond, value)], default value"""
    vals = [v for _, v in conds_vals] + ([default] if default is not NotImplemented else [])
    if all(isinstance(v, str) and len(v) == len(vals[0]) for v in vals) and vals:
        L = len(vals[0])
        chars = []
        for i in range(L):
            t = z3.IntVal(ord(default[i])) if default is not NotImplemented else z3.IntVal(0)
            for c, v in reversed(conds_vals):
                t = z3.If(c, ord(v[i]), t)
            chars.append(t)
        return SStrV(chars, z3.IntVal(L))
    if all(isinstance(v, str) for v in vals):
        # kind-like strings of different lengths -> interned code
        t = z3.IntVal(KINDS.code(default)) if default is not NotImplemented else z3.IntVal(0)
        for c, v in reversed(conds_vals):
            t = z3.If(c, KINDS.code(v), t)
        return SKind(t)
    if all(is_intlike(v) for v in vals):
        t = int_term(default) if default is not NotImplemented else z3.IntVal(0)
        for c, v in reversed(conds_vals):
            t = z3.If(c, int_term(v), t)
        return mk_int(t)
    return None


def dict_lookup(E, s, d, key, default, raise_missing):
    if not isinstance(key, Sym) or isinstance(key, (ClassRef,)):
        try:
            if key in d:
                return ok(s, d[key])
        except TypeError:
            pass
        if all(not isinstance(k, Sym) for k in d):
            if raise_missing:
                return E.raise_(s, "KeyError", key)
            return ok(s, default)
    conds = []
    for k in d:
        eq = ops.values_eq(key, k, s)
        conds.append((bool_term(eq), d[k]))
    anyc = z3.Or(*[c for c, _ in conds]) if conds else z3.BoolVal(False)
    out = []
    for s2, found in E.split(s, anyc):
        if not found:
            if raise_missing:
                out.extend(E.raise_(s2, "KeyError", "key"))
            else:
                out.append((s2, default))
            continue
        m = merge_values(E, conds, NotImplemented)
        if m is not None:
            out.append((s2, m))
            continue
        # fork per key
        rest = s2
        for c, v in conds:
            for s3, hit in E.split(rest.fork(), c):
                if hit:
                    out.append((s3, v))
            rest.assume(z3.Not(c))
    return out


def str_method(E, s, v, attr):
    def startswith(E_, s_, a, k):
        p = a[0]
        if isinstance(v, str) and isinstance(p, str):
            return ok(s_, v.startswith(p))
        if isinstance(v, SStrV) and isinstance(p, str):
            if len(p) > len(v.chars):
                return ok(s_, False)
            return ok(s_, mk_bool(z3.And(v.length >= len(p), *[v.chars[i] == ord(p[i]) for i in range(len(p))])))
        if isinstance(p, tuple):
            raise Unsupported("startswith(tuple)")
        return ok(s_, mk_bool(z3.PrefixOf(str_term(p), str_term(v))))

    def endswith(E_, s_, a, k):
        p = a[0]
        if isinstance(v, str) and isinstance(p, str):
            return ok(s_, v.endswith(p))
        if isinstance(v, SStrV) and isinstance(p, str):
            alts = []
            for L in range(len(p), len(v.chars) + 1):
                alts.append(z3.And(v.length == L, *[v.chars[L - len(p) + i] == ord(p[i]) for i in range(len(p))]))
            return ok(s_, mk_bool(z3.Or(*alts) if alts else z3.BoolVal(False)))
        return ok(s_, mk_bool(z3.SuffixOf(str_term(p), str_term(v))))

    def upper(E_, s_, a, k):
        if isinstance(v, str):
            return ok(s_, v.upper())
        if "str.upper" in E_.models:
            return E_.models["str.upper"](E_, s_, [v], {})
        raise Unsupported("str.upper on a symbolic string (needs a model)")

    def lower(E_, s_, a, k):
        if isinstance(v, str):
            return ok(s_, v.lower())
        if "str.lower" in E_.models:
            return E_.models["str.lower"](E_, s_, [v], {})
        if isinstance(v, SStr):
            # over-approximation: an arbitrary string of the same length (pure)
            r = z3.String(fresh_name("lowered"))
            s_.assume(z3.Length(r) == z3.Length(v.t))
            s_.notes.append("str.lower on a symbolic string is over-approximated by an arbitrary string of the same length")
            return ok(s_, SStr(r))
        raise Unsupported("str.lower on a symbolic string")

    def replace(E_, s_, a, k):
        if isinstance(v, str) and all(isinstance(x, str) for x in a):
            return ok(s_, v.replace(*a))
        if "str.replace" in E_.models:
            return E_.models["str.replace"](E_, s_, [v] + list(a), {})
        raise Unsupported("str.replace on a symbolic string (needs a model)")

    def split(E_, s_, a, k):
        if isinstance(v, str) and all(isinstance(x, str) for x in a):
            return ok(s_, s_.alloc(ListCell(v.split(*a))))
        if "str.split" in E_.models:
            return E_.models["str.split"](E_, s_, [v] + list(a), {})
        raise Unsupported("str.split on a symbolic string (needs a model)")

    def join(E_, s_, a, k):
        x = a[0]
        if isinstance(x, (str, SStr, SStrV)) and v == "":
            return ok(s_, x)        # ''.join(str) == str
        items = E_.iter_concrete(s_, x)
        if isinstance(v, str) and all(isinstance(i, str) for i in items):
            return ok(s_, v.join(items))
        raise Unsupported("str.join")

    def count(E_, s_, a, k):
        if isinstance(v, str) and isinstance(a[0], str):
            return ok(s_, v.count(a[0]))
        n = z3.Int(fresh_name("strcount"))
        s_.assume(z3.And(n >= 0, n <= z3.Length(str_term(v))))
        s_.notes.append("str.count on a symbolic string is over-approximated by an arbitrary count (pure)")
        return ok(s_, SInt(n))

    def strip(E_, s_, a, k):
        if isinstance(v, str) and all(isinstance(x, str) for x in a):
            return ok(s_, v.strip(*a))
        r = z3.String(fresh_name("stripped"))
        s_.assume(z3.Length(r) <= z3.Length(str_term(v)))
        s_.notes.append("str.strip on a symbolic string is over-approximated by an arbitrary shorter string (pure)")
        return ok(s_, SStr(r))

    def isupper(E_, s_, a, k):
        if isinstance(v, str):
            return ok(s_, v.isupper())
        raise Unsupported("str.isupper on a symbolic string")

    def lowerm(E_, s_, a, k):
        return lower(E_, s_, a, k)

    tbl = {"startswith": startswith, "endswith": endswith, "upper": upper, "lower": lower, "replace": replace,
           "split": split, "join": join, "count": count, "strip": strip, "isupper": isupper,
           "rstrip": strip if isinstance(v, str) else None}
    if attr == "rstrip" and isinstance(v, str):
        return ok(s, method("str.rstrip", lambda E_, s_, a, k: ok(s_, v.rstrip(*a))))
    if attr in tbl and tbl[attr] is not None:
        return ok(s, method("str." + attr, tbl[attr]))
    return None


# ------------------------------------------------------------------------------ setattr
def setattr_value(E, s, base, attr, v):
    from .engine import FLOW_NEXT
    if isinstance(base, SOpt):
        out = []
        for s2, isn in E.split(s, base.isnone):
            if isn:
                out.append((s2, ("raise", ExcVal("AttributeError", (attr,)))))
            else:
                out.extend(setattr_value(E, s2, base.val, attr, v))
        return out
    if base is None:
        return [(s, ("raise", ExcVal("AttributeError", (attr,))))]
    if isinstance(base, Ref):
        c = s.cell(base)
        if isinstance(c, ObjCell):
            # property setter?
            cls = c.cls
            if isinstance(cls, str) and ":" in cls:
                rel, nm = cls.split(":")
                cls = E.repo.find_class(rel, nm)
            if isinstance(cls, ClassRef):
                for cc in class_mro(E, cls):
                    for b in cc.node.body:
                        if isinstance(b, ast.FunctionDef) and b.name == attr and any(
                                isinstance(d, ast.Attribute) and d.attr == "setter" for d in b.decorator_list):
                            f = FuncRef(cc.module, f"{cc.name}.{attr}", b, cc)
                            out = []
                            for s2, r in E.call_function(s, f, [base, v], {}):
                                out.append((s2, ("raise", r.exc) if isinstance(r, Raised) else FLOW_NEXT))
                            return out
            s.set_cell(base, c.with_attr(attr, v))
            return [(s, FLOW_NEXT)]
    if isinstance(base, Tok):
        st = s.cell(base.stream)
        if attr == "pos":
            if not (isinstance(v, tuple) and len(v) == 2):
                raise Unsupported("token.pos = non-pair")
            s.set_cell(base.stream, st.replace(lin=z3.Store(st.lin, base.idx, int_term(v[0])),
                                               col=z3.Store(st.col, base.idx, int_term(v[1]))))
            return [(s, FLOW_NEXT)]
        raise Unsupported(f"assignment to token.{attr}")
    if isinstance(base, ClassRef):
        raise Unsupported(f"write to class attribute {base.name}.{attr}")
    raise Unsupported(f"attribute assignment on {base!r}")


# ------------------------------------------------------------------------------ indexing
def norm_index(E, s, idx, length, what="list"):
    """python index semantics with wrap-around -> list of (state, effective index | Raised)"""
    if isinstance(idx, int) and isinstance(length, int):
        if -length <= idx < length:
            return ok(s, idx % length if length else idx)
        return E.raise_(s, "IndexError", f"{what} index out of range")
    i, n = int_term(idx), int_term(length)
    out = []
    for s2, inb in E.split(s, z3.And(i >= -n, i < n)):
        if not inb:
            out.extend(E.raise_(s2, "IndexError", f"{what} index out of range"))
        else:
            out.append((s2, mk_int(z3.If(i < 0, i + n, i))))
    return out


def index_value(E, s, base, idx):
    if isinstance(base, SOpt):
        out = []
        for s2, isn in E.split(s, base.isnone):
            if isn:
                out.extend(E.raise_(s2, "TypeError", "'NoneType' object is not subscriptable"))
            else:
                out.extend(index_value(E, s2, base.val, idx))
        return out
    if base is None:
        return E.raise_(s, "TypeError", "'NoneType' object is not subscriptable")
    if isinstance(base, tuple) or isinstance(base, str):
        if isinstance(idx, int):
            if -len(base) <= idx < len(base):
                return ok(s, base[idx])
            return E.raise_(s, "IndexError", "index out of range")
        if isinstance(base, tuple) and is_intlike(idx):
            out = []
            for s2, eff in norm_index(E, s, idx, len(base), "tuple"):
                if isinstance(eff, Raised):
                    out.append((s2, eff))
                    continue
                conds = [(int_term(eff) == k, base[k]) for k in range(len(base))]
                m = merge_values(E, conds[:-1], conds[-1][1]) if base else None
                if m is None:
                    raise Unsupported("symbolic index into a heterogeneous tuple")
                out.append((s2, m))
            return out
        raise Unsupported("symbolic index into a constant str")
    if isinstance(base, SStrV):
        out = []
        for s2, eff in norm_index(E, s, idx, mk_int(base.length), "string"):
            if isinstance(eff, Raised):
                out.append((s2, eff))
            elif isinstance(eff, int):
                out.append((s2, SStrV([base.chars[eff]], z3.IntVal(1))))
            else:
                t = base.chars[-1]
                for k in reversed(range(len(base.chars) - 1)):
                    t = z3.If(eff.t == k, base.chars[k], t)
                out.append((s2, SStrV([t], z3.IntVal(1))))
        return out
    if isinstance(base, SStr):
        out = []
        for s2, eff in norm_index(E, s, idx, mk_int(z3.Length(base.t)), "string"):
            if isinstance(eff, Raised):
                out.append((s2, eff))
            else:
                out.append((s2, SStr(z3.SubString(base.t, int_term(eff), 1))))
        return out
    if isinstance(base, TokList):
        out = []
        for s2, eff in norm_index(E, s, idx, mk_int(base.length), "list"):
            if isinstance(eff, Raised):
                out.append((s2, eff))
            else:
                out.append((s2, Tok(base.stream, z3.simplify(int_term(base.off) + int_term(eff)))))
        return out
    if isinstance(base, HistList):
        out = []
        for s2, eff in norm_index(E, s, idx, mk_int(base.length), "list"):
            if isinstance(eff, Raised):
                out.append((s2, eff))
            else:
                out.append((s2, SKind(base.name(int_term(eff)))))
        return out
    if isinstance(base, Ref):
        c = s.cell(base)
        if isinstance(c, ListCell):
            if isinstance(idx, int):
                if -len(c.items) <= idx < len(c.items):
                    return ok(s, c.items[idx])
                return E.raise_(s, "IndexError", "list index out of range")
            out = []
            for s2, eff in norm_index(E, s, idx, len(c.items), "list"):
                if isinstance(eff, Raised):
                    out.append((s2, eff))
                    continue
                conds = [(int_term(eff) == k, c.items[k]) for k in range(len(c.items))]
                m = merge_values(E, conds[:-1], conds[-1][1])
                if m is None:
                    raise Unsupported("symbolic index into a heterogeneous list")
                out.append((s2, m))
            return out
        if isinstance(c, DictCell):
            return dict_lookup(E, s, c.d, idx, None, raise_missing=True)
        if isinstance(c, IntSetCell):
            out = []
            for s2, present in E.split(s, z3.Select(c.present, int_term(idx))):
                if present:
                    out.append((s2, True))
                else:
                    out.extend(E.raise_(s2, "KeyError", "key"))
            return out
        if isinstance(c, ObjCell):
            if isinstance(c.cls, str) and c.cls in E.index_models:
                return E.index_models[c.cls](E, s, base, idx)
            f = E_class_lookup(E, c.cls, "__getitem__")
            if f is not None:
                return E.call_function(s, f, [base, idx], {})
    if isinstance(base, Opaque):
        return ok(s, Opaque(base.why + "[]"))
    raise Unsupported(f"indexing {base!r}")


def slice_bounds(lo, hi, n):
    """python slice clamping for step 1 -> (start, stop) z3 terms"""
    n = int_term(n)
    if lo is None:
        start = z3.IntVal(0)
    else:
        a = int_term(lo)
        a = z3.If(a < 0, a + n, a)
        start = z3.If(a < 0, 0, z3.If(a > n, n, a))
    if hi is None:
        stop = n
    else:
        b = int_term(hi)
        b = z3.If(b < 0, b + n, b)
        stop = z3.If(b < 0, 0, z3.If(b > n, n, b))
    return z3.simplify(start), z3.simplify(stop)


def slice_value(E, s, base, lo, hi, step):
    if step is not None:
        raise Unsupported("slice with step")
    for b in (lo, hi):
        if isinstance(b, SOpt):
            raise Unsupported("None-able slice bound")
    if isinstance(base, (str, tuple)) and all(x is None or isinstance(x, int) for x in (lo, hi)):
        return ok(s, base[lo:hi])
    if isinstance(base, Ref) and isinstance(s.cell(base), ListCell) and \
            all(x is None or isinstance(x, int) for x in (lo, hi)):
        return ok(s, s.alloc(ListCell(s.cell(base).items[lo:hi])))
    if isinstance(base, TokList):
        start, stop = slice_bounds(lo, hi, base.length)
        length = z3.simplify(z3.If(stop > start, stop - start, 0))
        return ok(s, TokList(base.stream, z3.simplify(int_term(base.off) + start), length))
    if isinstance(base, HistList):
        start, stop = slice_bounds(lo, hi, base.length)
        length = z3.simplify(z3.If(stop > start, stop - start, 0))
        nm = base.name
        return ok(s, HistList(lambda i, nm=nm, start=start: nm(i + start), length))
    if isinstance(base, SStr):
        start, stop = slice_bounds(lo, hi, z3.Length(base.t))
        return ok(s, SStr(z3.SubString(base.t, start, z3.If(stop > start, stop - start, 0))))
    if base.__class__.__name__ in E.slice_models:
        return E.slice_models[base.__class__.__name__](E, s, base, lo, hi)
    raise Unsupported(f"slicing {base!r}")


def setitem_value(E, s, base, idx, v):
    from .engine import FLOW_NEXT
    if isinstance(base, Ref):
        c = s.cell(base)
        if isinstance(c, ListCell):
            if isinstance(idx, int) and -len(c.items) <= idx < len(c.items):
                items = list(c.items)
                items[idx] = v
                s.set_cell(base, ListCell(items))
                return [(s, FLOW_NEXT)]
            if isinstance(idx, int):
                return [(s, ("raise", ExcVal("IndexError", ())))]
            raise Unsupported("list[symbolic] = v")
        if isinstance(c, DictCell):
            if isinstance(idx, Sym) and not isinstance(idx, ClassRef):
                if is_intlike(idx) and not c.d:
                    s.set_cell(base, IntSetCell(z3.Store(z3.K(z3.IntSort(), z3.BoolVal(False)), int_term(idx), True)))
                    return [(s, FLOW_NEXT)]
                raise Unsupported("dict[symbolic] = v")
            d = dict(c.d)
            d[idx] = v
            s.set_cell(base, DictCell(d))
            return [(s, FLOW_NEXT)]
        if isinstance(c, IntSetCell):
            s.set_cell(base, IntSetCell(z3.Store(c.present, int_term(idx), True)))
            return [(s, FLOW_NEXT)]
        if isinstance(c, ObjCell) and isinstance(c.cls, str) and c.cls in E.setitem_models:
            return E.setitem_models[c.cls](E, s, base, idx, v)
    raise Unsupported(f"item assignment on {base!r}")


# ------------------------------------------------------------------------------ comprehensions
def comprehension(E, st, node, kind):
    if len(node.generators) != 1 or node.generators[0].is_async:
        raise Unsupported("nested comprehension")
    g = node.generators[0]

    def k(s, it):
        symbolic_seq = isinstance(it, Ref) and isinstance(s.cell(it), ObjCell) and s.cell(it).cls in E.seq_models
        if isinstance(it, (TokList, HistList)) or isinstance(it, GenVal) or symbolic_seq:
            env = dict(s.frames[-1].get("__closure__", {}))
            env.update({k_: v for k_, v in s.frames[-1].items() if k_ != "__closure__"})
            gv = GenVal(node, env, E.current_func[-1] if E.current_func else None)
            object.__setattr__ if False else None
            return [(s, ("__gen__", gv, it))]
        items = E.iter_concrete(s, it)
        results = [(s, [])]
        saved = {}
        for x in items:
            nxt = []
            for s2, acc in results:
                if isinstance(acc, Raised):
                    nxt.append((s2, acc))
                    continue
                fls = E.assign(s2, g.target, x)
                for s3, fl in fls:
                    if fl[0] != "next":
                        raise Unsupported("comprehension target")
                    conds = [(s3, True)]
                    for cnd in g.ifs:
                        c2 = []
                        for s4, okc in conds:
                            if not okc:
                                c2.append((s4, False))
                                continue
                            for s5, v in E.ev(cnd, s4):
                                if isinstance(v, Raised):
                                    raise Unsupported("exception in comprehension filter")
                                for s6, b in E.split(s5, truth(v, s5)):
                                    c2.append((s6, b))
                        conds = c2
                    for s4, okc in conds:
                        if not okc:
                            nxt.append((s4, acc))
                            continue
                        for s5, v in E.ev(node.elt, s4):
                            nxt.append((s5, v if isinstance(v, Raised) else acc + [v]))
            results = nxt
        out = []
        for s2, acc in results:
            if isinstance(acc, Raised):
                out.append((s2, acc))
            else:
                out.append((s2, s2.alloc(ListCell(acc)) if kind == "list" else tuple(acc)))
        return out
    res = E.bind(E.ev(g.iter, st), k)
    out = []
    for s, v in res:
        if isinstance(v, tuple) and len(v) == 3 and v[0] == "__gen__":
            out.append((s, SymComp(v[1], v[2], E)))
        else:
            out.append((s, v))
    return out


class SymComp(Sym):
    """[elt for x in <symbolic sequence> if cond] kept symbolically; only `in` and
    truthiness are defined on it: both are an existential over the index"""
    __slots__ = ("gen", "seq", "engine")

    def __init__(self, gen, seq, engine=None):
        self.gen, self.seq, self.engine = gen, seq, engine

    def exists(self, item, st):
        from .loops import seq_length_and_elem
        E = self.engine
        node = self.gen.node
        g = node.generators[0]
        if not isinstance(g.target, ast.Name):
            raise Unsupported("comprehension target")
        n, elem = seq_length_and_elem(E, st, self.seq)
        K = z3.Int(fresh_name("k"))
        env = dict(self.gen.env)
        env[g.target.id] = elem(K, st)
        env["__noframe__"] = True
        conds = [E.spec_formula(st, c, env) for c in g.ifs]
        if item is not None:
            env2 = dict(env)
            env2["__item__"] = item
            cmp_ = ast.Compare(left=node.elt, ops=[ast.Eq()], comparators=[ast.Name(id="__item__", ctx=ast.Load())])
            ast.fix_missing_locations(ast.copy_location(cmp_, node.elt))
            conds.append(E.spec_formula(st, cmp_, env2))
        return z3.Exists([K], z3.And(K >= 0, K < n, *conds))

    def quantified(self, which, st):
        """any(comp) / all(comp)"""
        from .loops import seq_length_and_elem
        E = self.engine
        node = self.gen.node
        g = node.generators[0]
        n, elem = seq_length_and_elem(E, st, self.seq)
        K = z3.Int(fresh_name("k"))
        env = dict(self.gen.env)
        env[g.target.id] = elem(K, st)
        env["__noframe__"] = True
        conds = [E.spec_formula(st, c, env) for c in g.ifs]
        body = E.spec_formula(st, node.elt, env)
        rng = z3.And(K >= 0, K < n, *conds)
        if which == "any":
            return z3.Exists([K], z3.And(rng, body))
        return z3.ForAll([K], z3.Implies(rng, body))


def exec_with(E, stmt, st):
    if "with" in E.models:
        return E.models["with"](E, stmt, st)
    raise Unsupported("with statement (needs a model)")
