"""Operations on pyvc values: arithmetic, comparison, truthiness, string helpers.
Every function returns a value (concrete python, or a Sym) and never forks; the engine
forks on the resulting booleans."""
import z3

from .values import (fresh_name, SInt, SBool, SStr, SKind, SKindSet, SStrV, SOpt, Opaque, Ref, Tok, TokList, HistList,
                     ClassRef, SType, ExcVal, KINDS, int_term, is_intlike, mk_int, mk_bool, bool_term,
                     str_term, strv_of_const, FuncRef, Builtin, BoundMethod, ExcClass)


class Unsupported(Exception):
    """construct outside the stated Python subset"""


def truth(v, st=None):
    """python truthiness of v as python bool or z3 Bool"""
    if v is None:
        return False
    if isinstance(v, (bool, int, str, tuple)):
        return bool(v)
    if isinstance(v, SBool):
        return v.t
    if isinstance(v, SInt):
        return v.t != 0
    if isinstance(v, SStr):
        return z3.Length(v.t) > 0
    if isinstance(v, SStrV):
        return v.length > 0
    if isinstance(v, SKind):
        # kind strings are never empty
        return True
    if isinstance(v, SOpt):
        return z3.And(z3.Not(bool_term(v.isnone)), bool_term(truth(v.val, st)))
    if isinstance(v, (Tok, ClassRef, FuncRef, Builtin, BoundMethod, ExcVal)):
        return True
    if isinstance(v, TokList):
        return v.length > 0
    if isinstance(v, HistList):
        return v.length > 0
    if isinstance(v, Ref):
        from .values import ListCell, DictCell, ObjCell, IntSetCell
        cell = st.heap[v.addr]
        if isinstance(cell, ListCell):
            return len(cell.items) > 0
        if isinstance(cell, DictCell):
            return len(cell.d) > 0
        if isinstance(cell, ObjCell):
            if "__len__" in cell.attrs:
                return bool_term(truth(cell.attrs["__len__"], st))
            return True
        if isinstance(cell, IntSetCell):
            raise Unsupported("truthiness of a symbolic-key dict")
    if v.__class__.__name__ == "SymComp":
        return v.exists(None, st)
    raise Unsupported(f"truthiness of {v!r}")


def to_value_bool(t):
    return mk_bool(t) if not isinstance(t, bool) else t


def strv_eq_const(v, s):
    if len(s) > len(v.chars):
        return z3.BoolVal(False)
    conj = [v.length == len(s)]
    for i, ch in enumerate(s):
        conj.append(v.chars[i] == ord(ch))
    return z3.And(*conj)


def strv_eq_strv(a, b):
    m = min(len(a.chars), len(b.chars))
    conj = [a.length == b.length, a.length <= m]
    for i in range(m):
        conj.append(z3.Implies(a.length > i, a.chars[i] == b.chars[i]))
    return z3.And(*conj)


def is_strlike(v):
    return isinstance(v, (str, SStr, SStrV))


def values_eq(a, b, st=None):
    """a == b as python bool or z3 Bool"""
    if isinstance(a, SOpt) or isinstance(b, SOpt):
        if isinstance(b, SOpt) and not isinstance(a, SOpt):
            a, b = b, a
        # a is SOpt
        if b is None:
            return a.isnone
        if isinstance(b, SOpt):
            return z3.Or(z3.And(bool_term(a.isnone), bool_term(b.isnone)),
                         z3.And(z3.Not(bool_term(a.isnone)), z3.Not(bool_term(b.isnone)),
                                bool_term(values_eq(a.val, b.val, st))))
        return z3.And(z3.Not(bool_term(a.isnone)), bool_term(values_eq(a.val, b, st)))
    if a is None or b is None:
        if a is None and b is None:
            return True
        return False
    # symbolic sequences against a concrete list: equal to [] iff empty
    for x, y in ((a, b), (b, a)):
        if isinstance(y, Ref) and st is not None:
            from .values import ListCell, ObjCell
            cy = st.heap[y.addr]
            if isinstance(cy, ListCell) and not cy.items:
                if isinstance(x, (TokList, HistList)):
                    return x.length == 0
                if isinstance(x, Ref) and isinstance(st.heap[x.addr], ObjCell) and "__len__" in st.heap[x.addr].attrs:
                    return int_term(st.heap[x.addr].attrs["__len__"]) == 0
    if is_intlike(a) and is_intlike(b):
        if isinstance(a, (int, bool)) and isinstance(b, (int, bool)):
            return a == b
        return int_term(a) == int_term(b)
    if isinstance(a, SKind) or isinstance(b, SKind):
        if isinstance(b, SKind) and not isinstance(a, SKind):
            a, b = b, a
        if isinstance(b, str):
            return a.t == KINDS.code(b)
        if isinstance(b, SKind):
            return a.t == b.t
        if isinstance(b, (SStr, SStrV)):
            raise Unsupported("comparison of a kind with a general string")
        return False
    if is_strlike(a) and is_strlike(b):
        if isinstance(a, str) and isinstance(b, str):
            return a == b
        if isinstance(a, SStrV) and isinstance(b, str):
            return strv_eq_const(a, b)
        if isinstance(b, SStrV) and isinstance(a, str):
            return strv_eq_const(b, a)
        if isinstance(a, SStrV) and isinstance(b, SStrV):
            return strv_eq_strv(a, b)
        return str_term(a) == str_term(b)
    if isinstance(a, tuple) and isinstance(b, tuple):
        if len(a) != len(b):
            return False
        parts = [bool_term(values_eq(x, y, st)) for x, y in zip(a, b)]
        return z3.And(*parts) if parts else True
    if isinstance(a, (ClassRef, SType)) and isinstance(b, (ClassRef, SType)):
        return type_is(a, b)
    if isinstance(a, Ref) and isinstance(b, Ref):
        if a.addr == b.addr:
            return True
        from .values import ListCell
        ca, cb = st.heap[a.addr], st.heap[b.addr]
        if isinstance(ca, ListCell) and isinstance(cb, ListCell):
            if len(ca.items) != len(cb.items):
                return False
            parts = [bool_term(values_eq(x, y, st)) for x, y in zip(ca.items, cb.items)]
            return z3.And(*parts) if parts else True
        return False
    if isinstance(a, Ref) and isinstance(b, Ref) is False:
        from .values import ListCell
        ca = st.heap[a.addr]
        if isinstance(ca, ListCell) and isinstance(b, tuple):
            return False  # a list never equals a tuple
        if isinstance(ca, ListCell) and isinstance(b, (int, str)):
            return False
    if isinstance(a, Tok) and isinstance(b, Tok):
        if a.stream == b.stream:
            return a.idx == b.idx
    # different shapes
    if type(a) in (int, bool, str, tuple) and type(b) in (int, bool, str, tuple):
        return a == b
    if (is_intlike(a) and is_strlike(b)) or (is_strlike(a) and is_intlike(b)):
        return False
    if isinstance(a, tuple) != isinstance(b, tuple):
        return False
    # an opaque (unmodelled, side-effect free) value compared with a constant: each
    # observation is an unconstrained boolean -- an over-approximation of every behaviour
    # of a pure __eq__
    for x, y in ((a, b), (b, a)):
        if isinstance(x, Opaque) and (type(y) in (int, str, bool) or y is None or isinstance(y, (SKind, SInt))):
            if st is not None and hasattr(st, "notes"):
                st.notes.append("equality of an unmodelled value with a constant is over-approximated by an arbitrary boolean")
            return z3.Bool(fresh_name("opaque_eq"))
    raise Unsupported(f"equality of {a!r} and {b!r}")


def type_is(a, b):
    def code(x):
        if isinstance(x, ClassRef):
            return z3.IntVal(KINDS.code(x.name))
        return x.t
    if isinstance(a, ClassRef) and isinstance(b, ClassRef):
        return a.key == b.key
    return code(a) == code(b)


def values_is(a, b, st=None):
    """a is b"""
    if isinstance(a, SOpt) and b is None:
        return a.isnone
    if isinstance(b, SOpt) and a is None:
        return b.isnone
    if a is None or b is None:
        return a is None and b is None
    for x, y in ((a, b), (b, a)):
        if isinstance(y, bool):
            # `x is True` / `x is False`
            if isinstance(x, bool):
                return x is y
            if isinstance(x, SBool):
                return x.t if y else z3.Not(x.t)
            if isinstance(x, SOpt):
                inner = values_is(x.val, y, st)
                return z3.And(z3.Not(bool_term(x.isnone)), bool_term(inner))
            return False
    if isinstance(a, (ClassRef, SType)) and isinstance(b, (ClassRef, SType)):
        return type_is(a, b)
    if isinstance(a, Ref) and isinstance(b, Ref):
        return a.addr == b.addr
    if isinstance(a, Ref) != isinstance(b, Ref):
        return False
    raise Unsupported(f"`is` between {a!r} and {b!r}")


def int_compare(op, a, b):
    if isinstance(a, (int, bool)) and isinstance(b, (int, bool)):
        return {"<": a < b, "<=": a <= b, ">": a > b, ">=": a >= b}[op]
    x, y = int_term(a), int_term(b)
    return {"<": x < y, "<=": x <= y, ">": x > y, ">=": x >= y}[op]


def order_compare(op, a, b, st=None):
    if is_intlike(a) and is_intlike(b):
        return int_compare(op, a, b)
    if isinstance(a, tuple) and isinstance(b, tuple):
        # lexicographic
        strict = op in ("<", ">")
        base = "<" if op in ("<", "<=") else ">"
        n = min(len(a), len(b))
        # result for remaining equal prefixes
        if len(a) == len(b):
            tail = not strict
        else:
            shorter_is_a = len(a) < len(b)
            tail = shorter_is_a if base == "<" else (not shorter_is_a)
        res = bool_term(tail)
        for i in reversed(range(n)):
            lt = bool_term(order_compare(base, a[i], b[i], st))
            eq = bool_term(values_eq(a[i], b[i], st))
            res = z3.Or(lt, z3.And(eq, res))
        return res
    if isinstance(a, str) and isinstance(b, str):
        return {"<": a < b, "<=": a <= b, ">": a > b, ">=": a >= b}[op]
    if is_strlike(a) and is_strlike(b):
        x, y = str_term(a), str_term(b)
        # z3 str.< / str.<= are lexicographic by code point, like Python
        return {"<": x < y, "<=": x <= y, ">": y < x, ">=": y <= x}[op]
    if isinstance(a, SKind) or isinstance(b, SKind):
        raise Unsupported("ordering of kind strings")
    raise Unsupported(f"ordering of {a!r} and {b!r}")


def substring_in_const(v, s):
    """SStrV v  in  constant str s  (python substring semantics)"""
    alts = []
    for L in range(0, len(v.chars) + 1):
        occ = []
        if L == 0:
            alts.append(v.length == 0)
            continue
        seen = set()
        for o in range(0, len(s) - L + 1):
            piece = s[o:o + L]
            if piece in seen:
                continue
            seen.add(piece)
            occ.append(z3.And(*[v.chars[i] == ord(piece[i]) for i in range(L)]))
        if occ:
            alts.append(z3.And(v.length == L, z3.Or(*occ)))
    return z3.Or(*alts) if alts else z3.BoolVal(False)


def contains(container, item, st):
    """item in container"""
    from .values import ListCell, DictCell, IntSetCell
    if isinstance(container, str):
        if isinstance(item, str):
            return item in container
        if isinstance(item, SStrV):
            return substring_in_const(item, container)
        if isinstance(item, SStr):
            return z3.Contains(z3.StringVal(container), item.t)
        if isinstance(item, SOpt):
            raise Unsupported("None-able value `in` str")
        raise Unsupported(f"{item!r} in str")
    if isinstance(container, (SStr, SStrV)):
        return z3.Contains(str_term(container), str_term(item))
    if isinstance(container, tuple):
        parts = [bool_term(values_eq(item, x, st)) for x in container]
        return z3.Or(*parts) if parts else False
    if isinstance(container, SKindSet):
        if isinstance(item, SKind):
            return z3.Select(container.member, item.t)
        if isinstance(item, str):
            return z3.Select(container.member, KINDS.code(item))
        raise Unsupported("membership in a symbolic kind set")
    if isinstance(container, Ref):
        cell = st.heap[container.addr]
        if isinstance(cell, ListCell):
            parts = [bool_term(values_eq(item, x, st)) for x in cell.items]
            return z3.Or(*parts) if parts else False
        if isinstance(cell, DictCell):
            parts = [bool_term(values_eq(item, k, st)) for k in cell.d.keys()]
            return z3.Or(*parts) if parts else False
        if isinstance(cell, IntSetCell):
            return z3.Select(cell.present, int_term(item))
    if container.__class__.__name__ == "SymComp":
        return container.exists(item, st)
    raise Unsupported(f"membership in {container!r}")


def simplify_bool(t):
    if isinstance(t, bool):
        return t
    t = z3.simplify(t)
    if z3.is_true(t):
        return True
    if z3.is_false(t):
        return False
    return t


def arith(op, a, b):
    import ast
    if isinstance(a, (int, bool)) and isinstance(b, (int, bool)):
        if isinstance(op, ast.Add):
            return a + b
        if isinstance(op, ast.Sub):
            return a - b
        if isinstance(op, ast.Mult):
            return a * b
        if isinstance(op, ast.FloorDiv):
            return a // b
        if isinstance(op, ast.Mod):
            return a % b
    if is_intlike(a) and is_intlike(b):
        x, y = int_term(a), int_term(b)
        if isinstance(op, ast.Add):
            return mk_int(x + y)
        if isinstance(op, ast.Sub):
            return mk_int(x - y)
        if isinstance(op, ast.Mult):
            if isinstance(a, (int, bool)) or isinstance(b, (int, bool)):
                return mk_int(x * y)
            raise Unsupported("non-linear multiplication")
        if isinstance(op, ast.Mod):
            if isinstance(b, int) and b > 0:
                return mk_int(x % y)      # z3 mod == python % for a positive divisor
            raise Unsupported("% with a non-constant or non-positive divisor")
        if isinstance(op, ast.FloorDiv):
            if isinstance(b, int) and b > 0:
                return mk_int(x / y)      # z3 int div floors for a positive divisor
            raise Unsupported("// with a non-constant or non-positive divisor")
    if isinstance(op, ast.Add):
        if is_strlike(a) and is_strlike(b):
            if isinstance(a, str) and isinstance(b, str):
                return a + b
            # short strings stay short strings when the left length is a constant
            if isinstance(a, str) and isinstance(b, SStrV):
                a = strv_of_const(a)
            if isinstance(b, str) and isinstance(a, SStrV) and len(b) <= 4:
                b = strv_of_const(b)
            if isinstance(a, SStrV) and isinstance(b, SStrV):
                la = z3.simplify(a.length)
                if z3.is_int_value(la) and len(a.chars) + len(b.chars) <= 12:
                    k = la.as_long()
                    return SStrV(a.chars[:k] + b.chars, z3.simplify(k + b.length))
                if len(a.chars) + len(b.chars) <= 8:
                    ca, cb = len(a.chars), len(b.chars)
                    chars = []
                    for j in range(ca + cb):
                        t = z3.IntVal(0)
                        for k in range(0, ca + 1):
                            if 0 <= j - k < cb:
                                t = z3.If(la == k, b.chars[j - k], t)
                        if j < ca:
                            t = z3.If(la > j, a.chars[j], t)
                        chars.append(t)
                    return SStrV(chars, z3.simplify(la + b.length))
            return SStr(z3.Concat(str_term(a), str_term(b)))
        if isinstance(a, tuple) and isinstance(b, tuple):
            return a + b
    if isinstance(op, ast.Mult):
        if isinstance(a, SStrV) and isinstance(b, int) and not isinstance(b, bool) and 0 <= b <= 3 \
                and z3.is_int_value(z3.simplify(a.length)):
            k = z3.simplify(a.length).as_long()
            return SStrV(a.chars[:k] * b, z3.IntVal(k * b))
        if isinstance(a, SStrV) and isinstance(b, int) and not isinstance(b, bool) and 0 <= b <= 3 \
                and len(a.chars) <= 3:
            cap = len(a.chars)
            chars = []
            for j in range(cap * b):
                t = z3.IntVal(0)
                for la in range(1, cap + 1):
                    t = z3.If(a.length == la, a.chars[j % la], t)
                chars.append(t)
            return SStrV(chars, z3.simplify(a.length * b))
        if isinstance(a, str) and isinstance(b, int):
            return a * b
        if isinstance(b, str) and isinstance(a, int):
            return a * b
        if isinstance(a, tuple) and isinstance(b, int):
            return a * b
    raise Unsupported(f"binary {type(op).__name__} on {a!r}, {b!r}")
