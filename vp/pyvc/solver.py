"""Discharging obligations: z3 (python API) decides; cvc5 cross-checks in the thorough tier."""
import os
import subprocess
import tempfile
import time

import z3


def discharge(ob, timeout_ms=20000):
    s = z3.Solver()
    s.set("timeout", timeout_ms)
    s.add(*ob.pc)
    if ob.axioms:
        s.add(*ob.axioms)
    s.add(z3.Not(ob.goal))
    t0 = time.time()
    r = s.check()
    ob.time = time.time() - t0
    ob.backend = "z3-" + z3.get_version_string()
    if r == z3.unsat:
        ob.result = "discharged"
    elif r == z3.sat:
        ob.result = "failed"
        ob.model = s.model()
    else:
        ob.result = "unknown"
        ob.meta["reason"] = s.reason_unknown()
    return ob.result


def smt2_of(ob):
    s = z3.Solver()
    s.add(*ob.pc)
    if ob.axioms:
        s.add(*ob.axioms)
    s.add(z3.Not(ob.goal))
    return s.to_smt2()


def cvc5_check(ob, timeout_s=60):
    """-> 'unsat' | 'sat' | 'unknown' | 'n/a: <why>'"""
    text = smt2_of(ob)
    if "define-fun-rec" in text or "RecFun" in text:
        pass
    with tempfile.NamedTemporaryFile("w", suffix=".smt2", delete=False, dir=os.environ.get("TMPDIR")) as fh:
        fh.write("(set-logic ALL)\n" + text)
        path = fh.name
    try:
        p = subprocess.run(["/usr/bin/cvc5", "--strings-exp", f"--tlimit={timeout_s * 1000}", path],
                           capture_output=True, text=True, timeout=timeout_s + 10)
        out = (p.stdout + p.stderr).strip().splitlines()
        if not out:
            return "n/a: no output"
        if out[0] in ("unsat", "sat", "unknown"):
            return out[0]
        return "n/a: " + out[0][:120]
    except subprocess.TimeoutExpired:
        return "unknown"
    finally:
        os.unlink(path)


def discharge_all(obs, timeout_ms=20000):
    for ob in obs:
        if ob.result is None:
            discharge(ob, timeout_ms)
    return obs


def _worker(args):
    text, timeout_ms = args
    import z3 as _z3
    s = _z3.Solver()
    s.set("timeout", timeout_ms)
    try:
        s.from_string(text)
    except Exception as e:          # pragma: no cover
        return ("parse-error: " + str(e)[:200], 0.0, "")
    t0 = time.time()
    r = s.check()
    dt = time.time() - t0
    return (str(r), dt, s.reason_unknown() if r == _z3.unknown else "")


_pool = None
NO_POOL = False         # set in processes that are themselves workers of a job pool


def pool(procs=14):
    """worker processes are *spawned*: this process has threads by now (z3's timer thread,
    executor threads), and a forked child can inherit a lock held by one of them"""
    global _pool
    if _pool is None:
        import multiprocessing as mp
        from concurrent.futures import ProcessPoolExecutor
        _pool = ProcessPoolExecutor(max_workers=procs, mp_context=mp.get_context("spawn"))
    return _pool


def shutdown_pool():
    """stop the worker processes for good: they are killed, not waited for (a worker that
    never came up -- fork in a process with threads -- must not block the interpreter's exit,
    which joins every child)"""
    global _pool
    if _pool is not None:
        procs = list(getattr(_pool, "_processes", {}).values())
        _pool.shutdown(wait=False, cancel_futures=True)
        for p in procs:
            try:
                p.kill()
            except Exception:
                pass
        for p in procs:
            try:
                p.join(timeout=2)
            except Exception:
                pass
        _pool = None


def discharge_parallel(obs, timeout_ms=20000, procs=14, min_batch=12):
    """discharge many obligations on all cores: each is shipped as SMT-LIB text to a worker
    process running z3; refuted ones are re-solved locally to obtain a model"""
    todo = [ob for ob in obs if ob.result is None]
    if len(todo) < min_batch or NO_POOL:
        for ob in todo:
            discharge(ob, timeout_ms)
        return obs
    texts = [(smt2_of(ob), timeout_ms) for ob in todo]
    # a worker that never comes up (fork in a process with threads) would block map() for
    # ever: overall time limit, then the remaining obligations are discharged in this process
    import concurrent.futures as _cf
    budget = (len(texts) / max(1, procs) + 2) * (timeout_ms / 1000.0) + 60
    results = []
    try:
        for r in pool(procs).map(_worker, texts, chunksize=max(1, len(texts) // (procs * 4)), timeout=budget):
            results.append(r)
    except (_cf.TimeoutError, _cf.process.BrokenProcessPool):
        shutdown_pool()
        for ob in todo[len(results):]:
            discharge(ob, timeout_ms)
        todo = todo[:len(results)]
    for ob, (r, dt, why) in zip(todo, results):
        ob.time = dt
        ob.backend = "z3-" + z3.get_version_string()
        if r == "unsat":
            ob.result = "discharged"
        elif r == "sat":
            discharge(ob, timeout_ms)           # local re-solve for the model
            if ob.result != "failed":
                ob.result = "failed"
        elif r.startswith("parse-error"):
            discharge(ob, timeout_ms)
        else:
            ob.result = "unknown"
            ob.meta["reason"] = why
    return obs
