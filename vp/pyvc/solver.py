"""Discharging obligations: z3 (python API) decides; cvc5 cross-checks in the thorough tier."""
import os
import subprocess
import tempfile
import time

import z3


def discharge(ob, timeout_ms=20000):
    s = z3.Solver()
    s.set("timeout", timeout_ms)
    s.add(*ob.pc)
    if ob.axioms:
        s.add(*ob.axioms)
    s.add(z3.Not(ob.goal))
    t0 = time.time()
    r = s.check()
    ob.time = time.time() - t0
    ob.backend = "z3-" + z3.get_version_string()
    if r == z3.unsat:
        ob.result = "discharged"
    elif r == z3.sat:
        ob.result = "failed"
        ob.model = s.model()
    else:
        ob.result = "unknown"
        ob.meta["reason"] = s.reason_unknown()
    return ob.result


def smt2_of(ob):
    s = z3.Solver()
    s.add(*ob.pc)
    if ob.axioms:
        s.add(*ob.axioms)
    s.add(z3.Not(ob.goal))
    return s.to_smt2()


def cvc5_check(ob, timeout_s=60):
    """-> 'unsat' | 'sat' | 'unknown' | 'n/a: <why>'"""
    text = smt2_of(ob)
    if "define-fun-rec" in text or "RecFun" in text:
        pass
    with tempfile.NamedTemporaryFile("w", suffix=".smt2", delete=False, dir=os.environ.get("TMPDIR")) as fh:
        fh.write("(set-logic ALL)\n" + text)
        path = fh.name
    try:
        p = subprocess.run(["/usr/bin/cvc5", "--strings-exp", f"--tlimit={timeout_s * 1000}", path],
                           capture_output=True, text=True, timeout=timeout_s + 10)
        out = (p.stdout + p.stderr).strip().splitlines()
        if not out:
            return "n/a: no output"
        if out[0] in ("unsat", "sat", "unknown"):
            return out[0]
        return "n/a: " + out[0][:120]
    except subprocess.TimeoutExpired:
        return "unknown"
    finally:
        os.unlink(path)


def discharge_all(obs, timeout_ms=20000):
    for ob in obs:
        if ob.result is None:
            discharge(ob, timeout_ms)
    return obs
