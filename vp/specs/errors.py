"""L8 contracts: diagnostics, their order and the catalogue (C08)."""
import ast

import z3

from ..pyvc.spec import Contract, SpecError, summarize_bool
from ..pyvc.values import (SInt, SBool, SStr, SKind, SOpt, Ref, ObjCell, ListCell, Builtin, KINDS, int_term,
                           bool_term, mk_int, mk_bool, fresh_name, Raised, ExcVal, Tok)
from ..pyvc.ops import Unsupported, truth
from ..pyvc.builtins_ import norm_index
from ..models import tokens as T

ERR = "norminette/errors.py"
I, B, S = z3.IntSort(), z3.BoolSort(), z3.StringSort()


class HL:
    """a symbolic list of highlights: arrays indexed 0..n-1"""

    def __init__(self, tag):
        self.n = z3.Int(fresh_name(tag + "_n"))
        self.line = z3.Array(fresh_name(tag + "_line"), I, I)
        self.col = z3.Array(fresh_name(tag + "_col"), I, I)
        self.hnone = z3.Array(fresh_name(tag + "_hnone"), I, B)
        self.hint = z3.Array(fresh_name(tag + "_hint"), I, S)


def mk_highlight(E, st, hl, i):
    cls = E.repo.find_class(ERR, "Highlight")
    hv = SOpt(z3.Select(hl.hnone, i), SStr(z3.Select(hl.hint, i)))
    return st.alloc(ObjCell(cls, {"lineno": mk_int(z3.Select(hl.line, i)), "column": mk_int(z3.Select(hl.col, i)),
                                  "length": None, "hint": hv}))


def hlist_obj(E, st, hl):
    st.assume(hl.n >= 0)
    return st.alloc(ObjCell("HList", {"hl": hl, "__len__": SInt(hl.n)}))


def idx_hlist(E, s, base, idx):
    hl = s.cell(base).attrs["hl"]
    out = []
    for s2, eff in norm_index(E, s, idx, SInt(hl.n), "list"):
        if isinstance(eff, Raised):
            out.append((s2, eff))
        else:
            out.append((s2, mk_highlight(E, s2, hl, int_term(eff))))
    return out


def hint_len(hl, i):
    return z3.If(z3.Select(hl.hnone, i), 0, z3.Length(z3.Select(hl.hint, i)))


class Comparator:
    """summaries of the real Highlight.__lt__ and Error.__lt__"""

    def __init__(self, E):
        self.E = E
        self.paths = {}
        # ---- Highlight.__lt__ over (line, col, hint) x 2
        self.hp = [z3.Int("h_l1"), z3.Int("h_c1"), z3.Bool("h_n1"), z3.String("h_s1"),
                   z3.Int("h_l2"), z3.Int("h_c2"), z3.Bool("h_n2"), z3.String("h_s2")]
        cls = E.repo.find_class(ERR, "Highlight")

        def setup(E_, st):
            l1, c1, n1, s1, l2, c2, n2, s2 = self.hp
            a = st.alloc(ObjCell(cls, {"lineno": SInt(l1), "column": SInt(c1), "length": None,
                                       "hint": SOpt(n1, SStr(s1))}))
            b = st.alloc(ObjCell(cls, {"lineno": SInt(l2), "column": SInt(c2), "length": None,
                                       "hint": SOpt(n2, SStr(s2))}))
            return {"self": a, "other": b}
        self.ltH_f, self.ltH_exc, self.paths["Highlight.__lt__"], _ = summarize_bool(E, ERR + ":Highlight.__lt__", setup)

    def ltH(self, l1, c1, n1, s1, l2, c2, n2, s2):
        return z3.substitute(self.ltH_f, *zip(self.hp, [l1, c1, n1, s1, l2, c2, n2, s2]))

    def ltH_idx(self, a, i, b, j):
        return self.ltH(z3.Select(a.line, i), z3.Select(a.col, i), z3.Select(a.hnone, i), z3.Select(a.hint, i),
                        z3.Select(b.line, j), z3.Select(b.col, j), z3.Select(b.hnone, j), z3.Select(b.hint, j))

    def min_model(self):
        """trusted contract of builtin min over a non-empty list whose `<` is a strict weak
        order (proved separately): returns an element no other element is smaller than"""
        comp = self

        def m_min(E, s, args, kw):
            if len(args) == 1 and isinstance(args[0], Ref) and isinstance(s.cell(args[0]), ObjCell) \
                    and s.cell(args[0]).cls == "HList":
                hl = s.cell(args[0]).attrs["hl"]
                out = []
                for s2, empty in E.split(s, hl.n <= 0):
                    if empty:
                        out.extend(E.raise_(s2, "ValueError", "min() arg is an empty sequence"))
                        continue
                    a = z3.Int(fresh_name("argmin"))
                    J = z3.Int(fresh_name("j"))
                    s2.assume(z3.And(a >= 0, a < hl.n))
                    s2.assume(z3.ForAll([J], z3.Implies(z3.And(J >= 0, J < hl.n), z3.Not(comp.ltH_idx(hl, J, hl, a)))))
                    out.append((s2, mk_highlight(E, s2, hl, a)))
                return out
            from ..pyvc.builtins_ import _minmax
            return _minmax("min")(E, s, args, kw)
        return m_min

    def summarize_error_lt(self):
        E = self.E
        cls = E.repo.find_class(ERR, "Error")
        self.A, self.Bq = HL("ha"), HL("hb")
        self.na, self.nb = z3.String("e_name_a"), z3.String("e_name_b")

        def setup(E_, st):
            a = st.alloc(ObjCell(cls, {"name": SStr(self.na), "text": "", "level": "Error",
                                       "highlights": hlist_obj(E_, st, self.A)}))
            b = st.alloc(ObjCell(cls, {"name": SStr(self.nb), "text": "", "level": "Error",
                                       "highlights": hlist_obj(E_, st, self.Bq)}))
            return {"self": a, "other": b}
        saved = E.spec_builtins.get("min")
        E.index_models["HList"] = idx_hlist
        E.spec_builtins["min"] = Builtin("min", self.min_model())
        try:
            f, exc, n, assumptions = summarize_bool(E, ERR + ":Error.__lt__", setup)
        finally:
            if saved is not None:
                E.spec_builtins["min"] = saved
            else:
                E.spec_builtins.pop("min")
        self.paths["Error.__lt__"] = n
        return f, exc, assumptions


def catalogue_scan(repo):
    """every constant that can reach Error.from_name / new_error / new_warning / errors.add
    -> list of (file, line, name or ('fstring', text))"""
    import os
    sites = []
    root = os.path.join(repo.root, "norminette")
    for dp, dn, fn in os.walk(root):
        for f in fn:
            if not f.endswith(".py"):
                continue
            rel = os.path.relpath(os.path.join(dp, f), repo.root)
            tree = repo.module(rel).tree
            for node in ast.walk(tree):
                if not isinstance(node, ast.Call):
                    continue
                fn_ = node.func
                callee = fn_.attr if isinstance(fn_, ast.Attribute) else (fn_.id if isinstance(fn_, ast.Name) else None)
                if callee in ("new_error", "new_warning", "from_name") and node.args:
                    sites.append((rel, node.lineno, callee, node.args[0]))
                elif callee in ("add", "append") and isinstance(fn_, ast.Attribute) and node.args and \
                        isinstance(fn_.value, ast.Attribute) and fn_.value.attr == "errors":
                    sites.append((rel, node.lineno, "errors." + callee, node.args[0]))
                elif callee == "Error" and node.args:
                    sites.append((rel, node.lineno, "Error()", node.args[0]))
    return sites


def dead_branch_contracts():
    """branches that would report a name outside the catalogue are unreachable"""
    from .limits import rule_setup
    R = "norminette/rules/"
    out = []
    # CheckInHeader runs only after the primaries of its own depends_on tuple
    # (Check.register + Registry.run_rules: history[-1] is the primary that just matched)
    c = Contract(R + "check_in_header.py:CheckInHeader.run", setup=rule_setup(R + "check_in_header.py", "CheckInHeader"))
    c.forall_const("M", "kind")
    c.req("hist_len(context) >= 1 and hist_name(context, hist_len(context) - 1) in self.depends_on")
    c.ens("emitted_total(M) == old(emitted_total(M))", "silent")
    # (what a Check returns is ignored by Registry.run_rules: no clause on the result)

    def scope_ty(E, st, name, frame):
        return T.make_scope(E, st, name)
    c.loop(0, invariant=["True"], types={"sc": scope_ty}, pure=True)
    c.assumes.append("termination of the scope-chain walk is not part of this obligation")
    out.append(c)

    def setup(E, st):
        d = rule_setup(R + "check_operators_spacing.py", "CheckOperatorsSpacing")(E, st)
        d["pos"] = E.fresh_value(st, "nat", "pos")
        return d
    c = Contract(R + "check_operators_spacing.py:CheckOperatorsSpacing.check_prefix", setup=setup)
    # the only call site passes the index of a token of kind p_operators = [ELLIPSIS]
    c.req("pos < ntok(context) and kind_in(context, pos, 'ELLIPSIS')")
    c.ens("emitted_total('') == old(emitted_total(''))", "no_empty_name")
    out.append(c)
    return out


# ---------------------------------------------------------------- Context.new_error / new_warning bodies
def m_from_name(E, s, args, kw):
    """Error.from_name(name, **kwargs) -> Error(name, catalogue[name], **kwargs); the text is
    decided by the complete finite evaluation C08.Error.from_name.catalogue_text"""
    cls = E.repo.find_class(ERR, "Error")
    name = args[-1] if args else kw.get("name")
    attrs = {"name": name, "text": "<catalogue text>", "level": kw.get("level", "Error"),
             "highlights": kw.get("highlights") if "highlights" in kw else s.alloc(ListCell(()))}
    return [(s, s.alloc(ObjCell(cls, attrs)))]


def errors_ghost_attr(E, s, ref, attr):
    """file.errors / context.errors: add(error) and append(error) record the diagnostic in
    the ghost log with the position of highlights[0]"""
    if attr not in ("add", "append"):
        return None

    def add(E_, s_, a, k):
        if len(a) != 1 or k:
            raise Unsupported("errors.add with a name instead of an Error object")
        err = a[0]
        cell = s_.cell(err)
        hl = s_.cell(cell.attrs["highlights"])
        if not isinstance(hl, ListCell) or not hl.items:
            raise Unsupported("errors.add of an error without highlights")
        h0 = s_.cell(hl.items[0])
        name, level = cell.attrs["name"], cell.attrs["level"]
        code = z3.IntVal(KINDS.code(name)) if isinstance(name, str) else name.t
        lcode = z3.IntVal(KINDS.code(level)) if isinstance(level, str) else level.t
        T.emit(s_, code, lcode, int_term(h0.attrs["lineno"]), int_term(h0.attrs["column"]))
        return [(s_, None)]
    return [(s, Builtin("errors." + attr, add))]


def new_error_contracts():
    from .context import ctx_setup, P

    def setup(E, st):
        ctx = T.make_context(E, st)
        tl = st.cell(ctx).attrs["tokens"]
        i = z3.Int(fresh_name("ti"))
        return {"self": ctx, "errno": E.fresh_value(st, "kind", "errno"),
                "tkn": SOpt(z3.Bool(fresh_name("tkn_none")), Tok(tl.stream, i))}
    out = []
    for fn, level in (("new_error", "Error"), ("new_warning", "Notice")):
        c = Contract(P + fn, setup=setup)
        c.rais("AttributeError", when="isnone(tkn)")
        c.ens("emitted_n() == old(emitted_n()) + 1", "exactly_one")
        c.ens("emitted_name(old(emitted_n())) == errno", "name")
        c.ens(f"emitted_level(old(emitted_n())) == '{level}'", "level")
        c.ens("emitted_line(old(emitted_n())) == tkn.pos[0] and emitted_col(old(emitted_n())) == tkn.pos[1]",
              "position_of_token")
        c.ens("emitted_total(errno) == old(emitted_total(errno)) + 1", "total")
        c.mustfail("emitted_n() == old(emitted_n())", "silent")
        out.append(c)
    return out


def m_add_highlight(E, s, args, kw):
    """Error.add_highlight(lineno, column, length=None, hint=None) / add_highlight(highlight)"""
    err = args[0]
    rest = args[1:]
    if len(rest) == 1 and not kw:
        h = rest[0]
    else:
        cls = E.repo.find_class(ERR, "Highlight")
        names = ["lineno", "column", "length", "hint"]
        attrs = {"length": None, "hint": None}
        for n, v in zip(names, rest):
            attrs[n] = v
        attrs.update(kw)
        h = s.alloc(ObjCell(cls, attrs))
    cell = s.cell(err)
    hl = cell.attrs["highlights"]
    s.set_cell(hl, ListCell(s.cell(hl).items + (h,)))
    return [(s, None)]


def install(E):
    E.models[ERR + ":Error.add_highlight"] = m_add_highlight
    E.models[ERR + ":Error.from_name"] = m_from_name
    E.attr_models["ErrorsGhost"] = errors_ghost_attr


def status_contract():
    """Errors.status == 'OK' iff no element has level 'Error' (levels are Error | Notice)"""
    class Inner:
        pass
    holder = {}

    def setup(E, st):
        n = z3.Int(fresh_name("ninner"))
        lvl = z3.Function(fresh_name("level"), I, I)
        st.assume(n >= 0)
        K = z3.Int(fresh_name("k"))
        st.assume(z3.ForAll([K], z3.Or(lvl(K) == KINDS.code("Error"), lvl(K) == KINDS.code("Notice"))))
        holder["n"], holder["lvl"] = n, lvl
        cls = E.repo.find_class(ERR, "Errors")
        inner = st.alloc(ObjCell("ErrSeq", {"__len__": SInt(n)}))
        E.seq_models["ErrSeq"] = lambda E_, s, ref: (n, lambda i, s2=None: (s2 if s2 is not None else s).alloc(ObjCell("ErrElem", {"level": SKind(lvl(i))})))
        E.spec_builtins["level_at"] = Builtin("level_at", lambda E_, s, a, k: [(s, SKind(lvl(int_term(a[0]))))])
        E.spec_builtins["ninner"] = Builtin("ninner", lambda E_, s, a, k: [(s, SInt(n))])
        return {"self": st.alloc(ObjCell(cls, {"_inner": inner}))}
    c = Contract(ERR + ":Errors.status", setup=setup)
    c.ens("(result == 'OK') == forall(0, ninner(), lambda k: level_at(k) != 'Error')", "ok_iff_no_error")
    c.ens("result == 'OK' or result == 'Error'", "two_valued")
    c.assumes.append("every diagnostic level is 'Error' or 'Notice' (ErrorLevel literal; call sites pass constants)")
    return c
