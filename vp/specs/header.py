"""C13: the 42 header -- state machine contract and regular-language lemmas."""
import ast
import re

import z3

from ..pyvc.spec import Contract
from ..pyvc.values import (SInt, SBool, SStr, SKind, SOpt, Opaque, Ref, ObjCell, Builtin, KINDS, int_term, bool_term,
                           mk_int, mk_bool, fresh_name)
from ..models import tokens as T
from ..models import lexer as LX
from .. import relang as RL
from .limits import rule_setup

R = "norminette/rules/check_header.py"
HOK = z3.Function("header_regex_matches", z3.StringSort(), z3.BoolSort())


def install(E):
    """re.compile(...).search(header) is abstracted to the uninterpreted predicate
    header_regex_matches(header); which strings it holds for is the business of the
    regular-language lemmas"""
    LX.install_re(E)

    def hook(E_, s, v, attr):
        if isinstance(v, LX.RegexObj) and attr == "search":
            def search(E__, s_, a, k):
                h = a[0]
                mo = s_.alloc(ObjCell("MatchObj", {"_end": SInt(z3.Int(fresh_name("end"))), "groups": ()}))
                return [(s_, SOpt(z3.Not(HOK(h.t)), mo))]
            return [(s, Builtin("regex.search", search))]
        return None
    E.value_attr_hooks.insert(0, hook)
    E.spec_builtins["header_ok"] = Builtin("header_ok", lambda E_, s, a, k: [(s, mk_bool(HOK(a[0].t)))])


INV = "emitted_total('INVALID_HEADER') - old(emitted_total('INVALID_HEADER'))"
P_, S_ = "old(context.header_parsed)", "old(context.header_started)"
C_ = "old(hist_name(context, hist_len(context) - 1) == 'IsComment')"
M_ = "old(kind_in(context, 0, 'MULT_COMMENT'))"


def run_contract():
    c = Contract(R + ":CheckHeader.run", setup=rule_setup(R, "CheckHeader"))
    c.forall_const("M", "kind")
    c.req("hist_len(context) >= 1 and ntok(context) >= 1")
    c.req("implies(kind_in(context, 0, 'MULT_COMMENT'), hasval(context, 0))")
    c.ens(f"implies({P_}, {INV} == 0 and context.header_parsed is True and context.header == old(context.header) "
          f"and context.header_started == {S_})", "frozen_once_parsed")
    c.ens(f"implies(not {P_} and {C_} and {M_}, {INV} == 0 and context.header_started is True and "
          f"context.header_parsed is False and context.header == old(context.header) + old(val(context, 0)) + '\\n')",
          "leading_block_comment_is_accumulated")
    c.ens(f"implies(not {P_} and {C_} and not {M_}, {INV} == 1 and context.header_parsed is True)",
          "leading_comment_that_is_not_a_block_comment")
    c.ens(f"implies(not {P_} and not {C_} and {S_}, {INV} == ite(header_ok(old(context.header)), 0, 1) and "
          f"context.header_parsed is True)", "first_other_statement_after_comments")
    c.ens(f"implies(not {P_} and not {C_} and not {S_}, {INV} == 1 and context.header_parsed is True)",
          "no_leading_comment_at_all")
    c.ens("implies(M != 'INVALID_HEADER', emitted_total(M) == old(emitted_total(M)))", "only")
    c.mustfail(f"{INV} == 0", "never_reports")
    return c


def extract_regex(repo):
    """the pattern and flags of the real re.compile call in CheckHeader.check_header"""
    f = repo.find_function(R + ":CheckHeader.check_header")
    consts = {}
    pattern, flags = None, 0
    method = None
    for node in ast.walk(f.node):
        if isinstance(node, ast.Assign) and isinstance(node.value, ast.Constant) and isinstance(node.value.value, str):
            for t in node.targets:
                if isinstance(t, ast.Name):
                    consts[t.id] = node.value.value
        if isinstance(node, ast.Call) and isinstance(node.func, ast.Attribute) and node.func.attr == "compile":
            a0 = node.args[0]
            pattern = consts.get(a0.id) if isinstance(a0, ast.Name) else (a0.value if isinstance(a0, ast.Constant) else None)
            for a in node.args[1:]:
                for x in ast.walk(a):
                    if isinstance(x, ast.Attribute) and hasattr(re, x.attr):
                        flags |= int(getattr(re, x.attr))
        if isinstance(node, ast.Call) and isinstance(node.func, ast.Attribute) and node.func.attr in ("search", "match", "fullmatch"):
            method = node.func.attr
    return pattern, flags, method


def method_used(repo):
    """search / match / fullmatch as called anywhere in the methods of CheckHeader"""
    cls = repo.find_class(R, "CheckHeader")
    for node in ast.walk(cls.node):
        if isinstance(node, ast.Call) and isinstance(node.func, ast.Attribute) and node.func.attr in ("search", "match", "fullmatch"):
            return node.func.attr
    return None


# ------------------------------------------------------------------ template and mutation languages
FN = "ABCDEFGHIJKLMNOPQRSTUVWXYZabcdefghijklmnopqrstuvwxyz0123456789_.-"
LOGIN = "abcdefghijklmnopqrstuvwxyz0123456789-"
MAIL = "abcdefghijklmnopqrstuvwxyz0123456789.@-"
DIG = "0123456789"


def _f(alpha, lo, hi):
    return z3.Loop(RL.chars_of(alpha), lo, hi)


def _sp(lo=0):
    return z3.Concat(z3.Loop(z3.Re(" "), lo, lo), z3.Star(z3.Re(" "))) if lo else z3.Star(z3.Re(" "))


def _cat(*parts):
    return z3.Concat(*[z3.Re(p) if isinstance(p, str) else p for p in parts])


def date():
    d = RL.chars_of(DIG)
    return _cat(z3.Loop(d, 4, 4), "/", z3.Loop(d, 2, 2), "/", z3.Loop(d, 2, 2), " ", z3.Loop(d, 2, 2), ":",
                z3.Loop(d, 2, 2), ":", z3.Loop(d, 2, 2))


def _login_not_by():
    """login of a stamp whose ' by ' was removed: a login spelled "by" would make the damaged
    line read as a stamp with an empty login, which is a member of the template"""
    return z3.Intersect(_f(LOGIN, 1, 9), z3.Complement(z3.Re("by")))


def template_lines(stars_first=74, stars_last=74, by="By: ", created="Created: ", updated="Updated: ",
                   by_c=" by ", by_u=" by "):
    frame = lambda n: _cat("/* ", z3.Loop(z3.Re("*"), n, n), " */\n")
    blank = _cat("/*", _sp(), "*/\n")
    return [
        frame(stars_first),
        blank,
        _cat("/*", _sp(), ":::      ::::::::   */\n"),
        _cat("/*   ", _f(FN, 1, 41), _sp(1), ":+:      :+:    :+:   */\n"),
        _cat("/*", _sp(), "+:+ +:+         +:+     */\n"),
        _cat("/*   ", by, _f(LOGIN, 1, 9), " <", _f(MAIL, 1, 30), ">", _sp(1), "+#+  +:+       +#+        */\n"),
        _cat("/*", _sp(), "+#+#+#+#+#+   +#+           */\n"),
        _cat("/*   ", created, date(), by_c, _f(LOGIN, 1, 9) if by_c == " by " else _login_not_by(), _sp(1),
             "#+#    #+#             */\n"),
        _cat("/*   ", updated, date(), by_u, _f(LOGIN, 1, 9) if by_u == " by " else _login_not_by(), _sp(1),
             "###   ########.fr       */\n"),
        blank,
        frame(stars_last),
    ]


def lang(lines):
    return z3.Concat(*lines)


def mutation_families():
    fam = {}
    base = template_lines()
    for k in range(11):
        fam[f"line_{k + 1}_removed"] = lang(base[:k] + base[k + 1:])
    fam["first_frame_73_stars"] = lang(template_lines(stars_first=73))
    fam["first_frame_75_stars"] = lang(template_lines(stars_first=75))
    fam["last_frame_73_stars"] = lang(template_lines(stars_last=73))
    fam["last_frame_75_stars"] = lang(template_lines(stars_last=75))
    fam["by_field_missing"] = lang(template_lines(by=""))
    fam["created_field_missing"] = lang(template_lines(created=""))
    fam["updated_field_missing"] = lang(template_lines(updated=""))
    fam["created_without_by"] = lang(template_lines(by_c=" "))
    fam["updated_without_by"] = lang(template_lines(by_u=" "))
    # the whole header written as ONE block comment: a single "/*" in the accumulated text
    no_open = z3.Complement(z3.Concat(z3.Full(RL.RS), z3.Re("/*"), z3.Full(RL.RS)))
    fam["one_block_comment"] = z3.Concat(z3.Re("/*"), no_open)
    return fam


def sample_member(rnd, mutation=None):
    """a concrete header text of the template (or of one mutation family), for validating the
    translation against Python's re and for the bounded pipeline runs"""
    def field(alpha, lo, hi):
        return "".join(rnd.choice(alpha) for _ in range(rnd.randint(lo, hi)))

    def dt():
        return "%04d/%02d/%02d %02d:%02d:%02d" % (rnd.randint(1990, 2099), rnd.randint(1, 12), rnd.randint(1, 28),
                                                  rnd.randint(0, 23), rnd.randint(0, 59), rnd.randint(0, 59))
    login = field(LOGIN, 1, 9)
    if login == "by":
        login = "bx"
    kw = {"stars_first": 74, "stars_last": 74, "by": "By: ", "created": "Created: ", "updated": "Updated: ",
          "by_c": " by ", "by_u": " by "}
    drop = None
    if mutation:
        if mutation.startswith("line_"):
            drop = int(mutation.split("_")[1]) - 1
        elif mutation == "first_frame_73_stars":
            kw["stars_first"] = 73
        elif mutation == "first_frame_75_stars":
            kw["stars_first"] = 75
        elif mutation == "last_frame_73_stars":
            kw["stars_last"] = 73
        elif mutation == "last_frame_75_stars":
            kw["stars_last"] = 75
        elif mutation == "by_field_missing":
            kw["by"] = ""
        elif mutation == "created_field_missing":
            kw["created"] = ""
        elif mutation == "updated_field_missing":
            kw["updated"] = ""
        elif mutation == "created_without_by":
            kw["by_c"] = " "
        elif mutation == "updated_without_by":
            kw["by_u"] = " "

    def padded(left, right):
        n = max(1, 80 - len(left) - len(right))
        return left + " " * n + right
    lines = [
        "/* " + "*" * kw["stars_first"] + " */",
        padded("/*", "*/"),
        padded("/*", ":::      ::::::::   */"),
        padded("/*   " + field(FN, 1, 41), ":+:      :+:    :+:   */"),
        padded("/*", "+:+ +:+         +:+     */"),
        padded("/*   " + kw["by"] + login + " <" + field(MAIL, 1, 30) + ">", "+#+  +:+       +#+        */"),
        padded("/*", "+#+#+#+#+#+   +#+           */"),
        padded("/*   " + kw["created"] + dt() + kw["by_c"] + login, "#+#    #+#             */"),
        padded("/*   " + kw["updated"] + dt() + kw["by_u"] + login, "###   ########.fr       */"),
        padded("/*", "*/"),
        "/* " + "*" * kw["stars_last"] + " */",
    ]
    if drop is not None:
        del lines[drop]
    if mutation == "one_block_comment":
        inner = [ln[2:-2] for ln in lines]
        return "/*" + "\n".join(inner) + "*/\n"
    return "\n".join(lines) + "\n"
