"""C14: include-guard validation (CheckPreprocessorProtection.run)."""
import z3

from ..pyvc.spec import Contract
from ..pyvc.values import Sym, SInt, SBool, SStr, SKind, SOpt, Opaque, Ref, ObjCell, HistList, Builtin
from ..pyvc.values import KINDS, int_term, bool_term, mk_int, mk_bool, fresh_name, str_term, Raised, ExcVal
from ..pyvc.ops import Unsupported, truth
from ..models import tokens as T
from .limits import rule_setup

R = "norminette/rules/check_preprocessor_protection.py"
S = z3.StringSort()
UP = z3.Function("str_upper", S, S)          # trusted: str.upper
DOT2US = z3.Function("str_replace_dot_underscore", S, S)   # trusted: str.replace(".", "_")

TRUSTED = ["str.upper and str.replace('.', '_') are uninterpreted functions (the guard is "
           "replace(upper(basename)), exactly the statement's 'file name upper-cased, dots replaced by underscores'); "
           "constants are upper-cased concretely"]


class FilterFalse(Sym):
    __slots__ = ("pred", "seq")

    def __init__(self, pred, seq):
        self.pred, self.seq = pred, seq


def install(E):
    def m_upper(E_, s, args, kw):
        v = args[0]
        t = UP(str_term(v))
        # upper-casing constants: the two directive names and the idempotence fact the code uses
        for c in ("IFNDEF", "ENDIF"):
            s.assume(UP(z3.StringVal(c)) == z3.StringVal(c))
        return [(s, SStr(t))]
    E.models["str.upper"] = m_upper

    def m_replace(E_, s, args, kw):
        v, a, b = args
        if a == "." and b == "_":
            return [(s, SStr(DOT2US(str_term(v))))]
        raise Unsupported("str.replace other than ('.', '_')")
    E.models["str.replace"] = m_replace

    orig = E.pymodule_attr

    def pymodule_attr(mod, attr):
        if mod.name == "itertools" and attr == "filterfalse":
            return Builtin("itertools.filterfalse", lambda E_, s, a, k: [(s, FilterFalse(a[0], a[1]))])
        return orig(mod, attr)
    E.pymodule_attr = pymodule_attr

    def m_next(E_, s, args, kw):
        """next(filterfalse(pred, history), None): the first entry that does not satisfy pred,
        None when there is none"""
        it = args[0]
        if not isinstance(it, FilterFalse) or not isinstance(it.seq, HistList) or len(args) != 2 or args[1] is not None:
            raise Unsupported("next() on this iterator")
        K = z3.Int(fresh_name("k"))
        res = E_.call_lambda(s.fork(), it.pred, [SKind(it.seq.name(K))], {})
        if len(res) != 1:
            raise Unsupported("filter predicate forks")
        p = bool_term(truth(res[0][1], res[0][0]))
        exists = z3.Exists([K], z3.And(K >= 0, K < int_term(it.seq.length), z3.Not(p)))
        return [(s, SOpt(z3.Not(exists), SKind(z3.Int(fresh_name("first_other")))))]
    E.spec_builtins["next"] = Builtin("next", m_next)

    def sp_guard_of(E_, s, args, kw):
        return [(s, SStr(DOT2US(UP(str_term(args[0])))))]
    E.spec_builtins["guard_of"] = Builtin("guard_of", sp_guard_of)
    E.spec_builtins["upper"] = Builtin("upper", lambda E_, s, a, k: [(s, SStr(UP(str_term(a[0]))))])

    MD = z3.Function("macro_defined", S, z3.BoolSort())
    E.spec_builtins["macro_defined"] = Builtin("macro_defined", lambda E_, s, a, k: [(s, mk_bool(MD(str_term(a[0]))))])

    def macrolist_attr(E_, s, ref, attr):
        return None
    # PreProcessors.has_macro_defined: call-site contract = the ghost predicate (its body is
    # verified separately against the macro list model)
    c = Contract("norminette/context.py:PreProcessors.has_macro_defined", result="bool")
    c.ens("result == macro_defined(name)", "defined_iff_listed")
    E.contracts[c.key] = c


def first_non_ws(var, start, nl=False, comment=False):
    n, cm = ("True" if nl else "False"), ("True" if comment else "False")
    return (f"{var} >= {start} and forall({start}, {var}, lambda k: k < ntok(context) and in_ws(context, k, {n}, {cm})) "
            f"and ({var} >= ntok(context) or not in_ws(context, {var}, {n}, {cm}))")


def contract():
    c = Contract(R + ":CheckPreprocessorProtection.run", setup=rule_setup(R, "CheckPreprocessorProtection"))
    c.forall_const("M", "kind")
    for v in ("h", "d", "m", "e"):
        c.forall_const(v, "int")
    # positions: h = the '#', d = the directive name, m = what follows it, e = first token after
    # the directive that is neither blank, newline nor comment
    c.req(first_non_ws("h", "0", nl=False))
    c.req(first_non_ws("d", "(h + 1)", nl=False))
    c.req(first_non_ws("m", "(d + 1)", nl=False))
    c.req(first_non_ws("e", "(d + 1)", nl=True, comment=True))
    # established by IsPreprocessorStatement (the primary this check depends on)
    c.req("h < ntok(context) and kind_in(context, h, 'HASH') and hist_len(context) >= 1")
    c.req("implies(d < ntok(context) and kind_in(context, d, 'IDENTIFIER'), hasval(context, d))")
    c.req("implies(d < ntok(context) and kind_in(context, d, 'IDENTIFIER') and upper(val(context, d)) == 'IFNDEF', "
          "m < ntok(context) and hasval(context, m))")
    H = "context.file.type == '.h'"
    ISID = "(d < ntok(context) and kind_in(context, d, 'IDENTIFIER'))"
    D = "upper(val(context, d))"
    G = "guard_of(context.file.basename)"
    MAC = "val(context, m)"
    PROT = "old(context.protected)"
    IND = "context.preproc.indent"
    BEFORE = ("exists(0, hist_len(context) - 1, lambda k: hist_name(context, k) not in ('IsComment', 'IsEmptyLine'))")

    def tot(name):
        return f"(emitted_total('{name}') - old(emitted_total('{name}')))"
    NAMES = ("HEADER_PROT_ALL_AF", "HEADER_PROT_NODEF", "HEADER_PROT_UPPER", "HEADER_PROT_NAME", "HEADER_PROT_MULT",
             "HEADER_PROT_ALL")
    silent = " and ".join(f"{tot(n)} == 0" for n in NAMES)
    c.ens(f"implies(not {H}, {silent} and context.protected == {PROT})", "c_files_are_never_checked")
    c.ens(f"implies({H} and not ({ISID} and {D} in ('IFNDEF', 'ENDIF')), {silent} and context.protected == {PROT})",
          "other_directives_ignored")
    ENDIF = f"({H} and {ISID} and {D} == 'ENDIF')"
    CLOSE = f"({ENDIF} and {IND} == 0 and not {PROT})"
    c.ens(f"implies({ENDIF} and not ({IND} == 0 and not {PROT}), {silent} and context.protected == {PROT})",
          "inner_endif_ignored")
    c.ens(f"implies({CLOSE}, context.protected is True and "
          f"{tot('HEADER_PROT_ALL_AF')} == ite(e < ntok(context), 1, 0) and "
          f"{tot('HEADER_PROT_NODEF')} == ite(macro_defined({G}), 0, 1) and "
          f"{tot('HEADER_PROT_UPPER')} == 0 and {tot('HEADER_PROT_NAME')} == 0 and {tot('HEADER_PROT_MULT')} == 0 "
          f"and {tot('HEADER_PROT_ALL')} == 0)", "closing_endif")
    IFN = f"({H} and {ISID} and {D} == 'IFNDEF')"
    c.ens(f"implies({IFN} and {IND} != 1, {silent} and context.protected == {PROT})", "nested_ifndef_ignored")
    TOP = f"({IFN} and {IND} == 1)"
    c.ens(f"implies({TOP}, context.protected == {PROT} and {tot('HEADER_PROT_ALL_AF')} == 0 and "
          f"{tot('HEADER_PROT_NODEF')} == 0)", "ifndef_does_not_close")
    c.ens(f"implies({TOP} and not {PROT}, "
          f"{tot('HEADER_PROT_UPPER')} == ite({MAC} != {G} and upper({MAC}) == {G}, 1, 0) and "
          f"{tot('HEADER_PROT_NAME')} == ite({MAC} != {G} and upper({MAC}) != {G}, 1, 0) and "
          f"{tot('HEADER_PROT_MULT')} == 0 and {tot('HEADER_PROT_ALL')} == ite({BEFORE}, 1, 0))", "first_guard")
    c.ens(f"implies({TOP} and {PROT}, {tot('HEADER_PROT_MULT')} == 1 and {tot('HEADER_PROT_UPPER')} == 0 and "
          f"{tot('HEADER_PROT_NAME')} == 0 and {tot('HEADER_PROT_ALL')} == 0)", "second_guard_is_reported")
    c.ens("implies(M not in " + repr(NAMES) + ", emitted_total(M) == old(emitted_total(M)))", "only_protection_names")
    # (what a Check returns is ignored by Registry.run_rules: no clause on the result)
    c.mustfail(f"{tot('HEADER_PROT_NAME')} == 0", "never_reports_name")
    return c
