"""C11: the numeric constants of C (6.4.4.1 / 6.4.4.2 plus the extensions the statement
names) as families of inputs, with the match the lexer's patterns are expected to return.

A family is a sequence of *segments* (regular languages: the grammar of the constant, cut
where the expected match has its piece boundaries), followed by `rest`: nothing, or text
starting with an ASCII character that cannot continue a preprocessing number.  For every
family the specification says which of the real patterns is applied, that it must not match
(pieces None) or how many pieces of the matching shape each segment fills and which segments
make up each named group.  Nothing here is read from the code: digit classes, suffix
spellings and expected groups come from the C grammar and the statement of the property."""
import z3

from ..relang.priority import Segment

S = z3.StringSort()
RS = z3.ReSort(S)


def U(*rs):
    return rs[0] if len(rs) == 1 else z3.Union(*rs)


def lits(*words):
    return U(*[z3.Re(w) for w in words])


def cat(*rs):
    rs = [z3.Re(r) if isinstance(r, str) else r for r in rs]
    return rs[0] if len(rs) == 1 else z3.Concat(*rs)


EPS = z3.Re("")
D = z3.Range("0", "9")
NZ = z3.Range("1", "9")
OCT = z3.Range("0", "7")
BIN = z3.Range("0", "1")
HEXD = U(D, z3.Range("a", "f"), z3.Range("A", "F"))
HEX_NOT_E = U(D, z3.Range("a", "d"), z3.Re("f"), z3.Range("A", "D"), z3.Re("F"))
E_ = lits("e", "E")
P_ = lits("p", "P")
X_ = lits("x", "X")
B_ = lits("b", "B")
ASCII = z3.Range("\x00", "\x7f")
CONT = U(D, z3.Range("a", "z"), z3.Range("A", "Z"), z3.Re("_"), z3.Re("."))
SIGN = lits("+", "-")

# integer-suffix: unsigned-suffix and one size suffix in either order, or one of them alone
SIZE = lits("l", "L", "ll", "LL", "z", "Z", "wb", "WB", "i64", "I64")
UNS = lits("u", "U")
INT_SUFFIX = U(UNS, SIZE, cat(UNS, SIZE), cat(SIZE, UNS))
# floating-suffix of C (f l F L) plus the extension of the statement (d D)
FLOAT_SUFFIX = lits("f", "F", "l", "L", "d", "D")
OPT_FLOAT_SUFFIX = U(EPS, FLOAT_SUFFIX)


def rest_lang(no_sign=False):
    """nothing, or text starting with an ASCII character that cannot continue the constant"""
    stop = z3.Intersect(ASCII, z3.Complement(U(CONT, SIGN) if no_sign else CONT))
    return U(EPS, cat(stop, z3.Full(RS)))


class Family:
    def __init__(self, name, pattern, segments, rest, groups=None, matches=True, known=None):
        self.name, self.pattern, self.segments, self.rest = name, pattern, segments, rest
        self.known = known                    # id of a listed known finding this family isolates
        self.groups = groups or {}            # group -> (first segment, one past the last)
        self.matches = matches                # False: the pattern must not match any prefix


def seg(lang, npieces=1, name=""):
    return Segment(cat(lang) if isinstance(lang, str) else lang, npieces, name)


def integer_families():
    """valid integer constants against INT_LITERAL_PATTERN: the match ends where the constant
    ends, and Prefix / Constant / Suffix are the parts the parser's checks expect"""
    P = "INT_LITERAL_PATTERN"
    out = []

    def both(name, prefix_segs, const_lang):
        n = len(prefix_segs)
        g = {"Prefix": (0, n), "Constant": (n, n + 1)}
        out.append(Family(f"{name}.plain", P, prefix_segs + [seg(const_lang, 1, "digits")], rest_lang(),
                          dict(g, Suffix=(n + 1, n + 1))))
        # a suffix is one character of class \\w followed by a run (two pieces of the pattern)
        out.append(Family(f"{name}.suffixed", P, prefix_segs + [seg(const_lang, 1, "digits"), seg(INT_SUFFIX, 2, "suffix")],
                          rest_lang(), dict(g, Suffix=(n + 1, n + 2))))
    both("decimal", [], cat(NZ, z3.Star(D)))
    both("zero", [], z3.Re("0"))
    both("octal", [seg("0", 1, "0")], z3.Plus(OCT))
    hexp = [seg("0", 1, "0"), seg(X_, 1, "x")]
    both("hexadecimal", hexp, cat(z3.Star(HEXD), HEX_NOT_E))
    # after a final e / E the pattern takes the look-behind branch of Suffix: one greedy run
    # (empty when nothing follows).  A sign right after the e would belong to the
    # preprocessing number (pp-number rule), so it is not a valid continuation there.
    he = cat(z3.Star(HEXD), E_)
    g = {"Prefix": (0, 2), "Constant": (2, 3)}
    out.append(Family("hexadecimal.ends_in_e.plain", P, hexp + [seg(he, 1, "digits"), seg(EPS, 1, "no suffix")],
                      rest_lang(no_sign=True), dict(g, Suffix=(3, 4))))
    out.append(Family("hexadecimal.ends_in_e.suffixed", P, hexp + [seg(he, 1, "digits"), seg(INT_SUFFIX, 1, "suffix")],
                      rest_lang(no_sign=True), dict(g, Suffix=(3, 4))))
    # ... and the same constants followed by a sign (0xEu+1): two tokens in C, since the sign
    # does not follow the e directly.  Isolated because it is known finding K9.
    out.append(Family("hexadecimal.ends_in_e.suffixed.then_sign", P, hexp + [seg(he, 1, "digits"), seg(INT_SUFFIX, 1, "suffix")],
                      cat(SIGN, z3.Full(RS)), dict(g, Suffix=(3, 4)), known="K9"))
    both("binary", [seg("0", 1, "0"), seg(B_, 1, "b")], z3.Plus(BIN))
    return out


FLOATS = ("FLOAT_EXPONENT_LITERAL_PATTERN", "FLOAT_FRACTIONAL_LITERAL_PATTERN", "FLOAT_HEXADECIMAL_LITERAL_PATTERN")


def short(p):
    return p.split("_")[1].lower()


def float_reject_families():
    """valid integer constants are not taken by the float parser: the exponent and fractional
    patterns match no prefix of them (a hexadecimal integer is matched by the hexadecimal
    pattern with neither '.' nor exponent: the parser returns None there, `# Hexadecimal
    Integer`, see hex_integer_family)"""
    out = []
    anysuf = U(EPS, INT_SUFFIX)
    for pat in FLOATS:
        out.append(Family(f"decimal_or_octal_integer.not_a_float[{short(pat)}]", pat,
                          [seg(z3.Plus(D)), seg(anysuf)], rest_lang(), matches=False))
        out.append(Family(f"binary_integer.not_a_float[{short(pat)}]", pat,
                          [seg("0"), seg(B_), seg(z3.Plus(BIN)), seg(anysuf)], rest_lang(), matches=False))
    for pat in FLOATS[:2]:
        out.append(Family(f"hexadecimal_integer.not_a_float[{short(pat)}]", pat,
                          [seg("0"), seg(X_), seg(z3.Plus(HEXD)), seg(anysuf)], rest_lang(), matches=False))
    return out


def float_families():
    """valid decimal floating constants: which pattern takes them (they are tried in the order
    exponent, fractional, hexadecimal) and with which groups"""
    out = []
    X, F = FLOATS[0], FLOATS[1]
    fs = seg(OPT_FLOAT_SUFFIX, 1, "suffix")
    e, sg, ed = seg(E_, 1, "e"), seg(SIGN, 1, "sign"), seg(z3.Plus(D), 1, "exponent digits")
    ds = seg(z3.Plus(D), 1, "digits")
    # digit-sequence exponent-part suffix?            1e5  12E+3f
    out.append(Family("decimal_exponent.signed", X, [ds, e, sg, ed, fs], rest_lang(),
                      {"Constant": (0, 1), "Exponent": (1, 4), "Suffix": (4, 5)}))
    out.append(Family("decimal_exponent.unsigned", X, [ds, e, ed, fs], rest_lang(),
                      {"Constant": (0, 1), "Exponent": (1, 3), "Suffix": (3, 4)}))
    # fractional-constant exponent-part? suffix?       1.5  .5e-3  1.f
    dot = seg(".", 1, ".")
    forms = [("int.frac", [seg(z3.Plus(D), 1, "integer part"), dot, seg(z3.Plus(D), 1, "fraction")]),
             (".frac", [dot, seg(z3.Plus(D), 1, "fraction")]),
             ("int.", [seg(z3.Plus(D), 1, "integer part"), dot])]
    for nm, cs in forms:
        n = len(cs)
        out.append(Family(f"fractional[{nm}].not_the_exponent_pattern", X, cs + [fs], rest_lang(), matches=False))
        out.append(Family(f"fractional[{nm}].plain", F, cs + [fs], rest_lang(),
                          {"Constant": (0, n), "Exponent": (n, n), "Suffix": (n, n + 1)}))
        out.append(Family(f"fractional[{nm}].exponent_signed", F, cs + [e, sg, ed, fs], rest_lang(),
                          {"Constant": (0, n), "Exponent": (n, n + 3), "Suffix": (n + 3, n + 4)}))
        out.append(Family(f"fractional[{nm}].exponent_unsigned", F, cs + [e, ed, fs], rest_lang(),
                          {"Constant": (0, n), "Exponent": (n, n + 2), "Suffix": (n + 2, n + 3)}))
    return out


def hex_float_families():
    """hexadecimal floating constants (6.4.4.2) against the hexadecimal pattern.  The pattern
    collects the exponent digits with the *hexadecimal* digit class, so a suffix f / F / d / D
    ends up inside the Exponent group; the statement asks for one token spanning the constant,
    so the segments are cut where the pattern's pieces end and only Constant is claimed."""
    out = []
    H = FLOATS[2]
    zero, x = seg("0", 1, "0"), seg(X_, 1, "x")
    hx = seg(z3.Plus(HEXD), 1, "hex digits")
    dot = seg(".", 1, ".")
    forms = [("int.frac", [hx, dot, seg(z3.Plus(HEXD), 1, "fraction")]),
             ("int.", [hx, dot, seg(EPS, 1, "empty fraction")]),
             (".frac", [dot, seg(z3.Plus(HEXD), 1, "fraction")]),
             ("int", [hx])]
    p_, sg = seg(P_, 1, "p"), seg(SIGN, 1, "sign")
    tails = [("absorbed_suffix", seg(cat(z3.Plus(D), lits("f", "F", "d", "D")), 1, "exponent digits + f/d"), seg(EPS, 1, "")),
             ("l_or_no_suffix", seg(z3.Plus(D), 1, "exponent digits"), seg(U(EPS, lits("l", "L")), 1, "suffix"))]
    for nm, cs in forms:
        n = 2 + len(cs)
        for tn, ed, sfx in tails:
            out.append(Family(f"hex_float[{nm}].signed.{tn}", H, [zero, x] + cs + [p_, sg, ed, sfx], rest_lang(),
                              {"Constant": (0, n)}))
            out.append(Family(f"hex_float[{nm}].unsigned.{tn}", H, [zero, x] + cs + [p_, ed, sfx], rest_lang(),
                              {"Constant": (0, n)}))
    # a hexadecimal *integer* is matched too, with neither '.' nor exponent: the parser then
    # answers None (`# Hexadecimal Integer`) and the integer parser takes over
    out.append(Family("hexadecimal_integer.matched_without_dot_or_exponent", H,
                      [zero, x, hx, seg(U(EPS, INT_SUFFIX), 1, "integer suffix")], rest_lang(),
                      {"Constant": (0, 3), "Exponent": (3, 3), "Suffix": (3, 4)}))
    return out


def all_families():
    return integer_families() + float_reject_families() + float_families() + hex_float_families()
