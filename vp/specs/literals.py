"""C11: the numeric constants of C (6.4.4.1 / 6.4.4.2 plus the extensions the statement
names) as families of inputs, with the match the lexer's patterns are expected to return.

A family is: z3 string variables with constraints (the grammar of the constant), the input
w = constant . rest where rest is empty or starts with an ASCII character that cannot
continue a preprocessing number, and the *intended* match of one of the real patterns, given
as the text of every piece of the matching shape (see relang/priority.py) and of every named
group.  Nothing here is read from the code: the digit classes, the suffix spellings and the
expected groups come from the C grammar and from the statement of the property."""
import z3

S = z3.StringSort()
RS = z3.ReSort(S)


def U(*rs):
    return rs[0] if len(rs) == 1 else z3.Union(*rs)


def lits(*words):
    return U(*[z3.Re(w) for w in words])


D = z3.Range("0", "9")
NZ = z3.Range("1", "9")
OCT = z3.Range("0", "7")
BIN = z3.Range("0", "1")
HEXD = U(D, z3.Range("a", "f"), z3.Range("A", "F"))
HEX_NOT_E = U(D, z3.Range("a", "d"), z3.Re("f"), z3.Range("A", "D"), z3.Re("F"))
E_ = lits("e", "E")
ASCII = z3.Range("\x00", "\x7f")
CONT = U(D, z3.Range("a", "z"), z3.Range("A", "Z"), z3.Re("_"), z3.Re("."))
SIGN = lits("+", "-")

# integer-suffix: unsigned-suffix and one size suffix in either order, or one of them alone
SIZE = lits("l", "L", "ll", "LL", "z", "Z", "wb", "WB", "i64", "I64")
UNS = lits("u", "U")
INT_SUFFIX = U(UNS, SIZE, z3.Concat(UNS, SIZE), z3.Concat(SIZE, UNS))
# floating-suffix of C (f l F L) plus the extensions of the statement (d D)
FLOAT_SUFFIX = lits("f", "F", "l", "L", "d", "D")


def not_in(r):
    return z3.Intersect(ASCII, z3.Complement(r))


def rest_ok(rest, also_no_sign=False):
    """rest is empty or starts with an ASCII character that cannot continue the constant"""
    stop = not_in(U(CONT, SIGN) if also_no_sign else CONT)
    return z3.Or(rest == z3.StringVal(""), z3.InRe(rest, z3.Concat(stop, z3.Full(RS))))


class Family:
    def __init__(self, name, pattern, w, constraints, pieces, groups, sample_len=(1, 2, 5)):
        self.name, self.pattern, self.w = name, pattern, w
        self.constraints = list(constraints)
        # None: the pattern must not match at all
        self.pieces = None if pieces is None else [z3.StringVal(x) if isinstance(x, str) else x for x in pieces]
        self.groups = groups or {}
        self.sample_len = sample_len


def v(name):
    return z3.String(name)


def cat(*ts):
    ts = [z3.StringVal(t) if isinstance(t, str) else t for t in ts]
    return ts[0] if len(ts) == 1 else z3.Concat(*ts)


EMPTY = z3.StringVal("")


def integer_families():
    """valid integer constants against INT_LITERAL_PATTERN: one token text = the constant,
    groups Prefix / Constant / Suffix as the parser's checks expect them"""
    out = []
    P = "INT_LITERAL_PATTERN"
    rest = v("rest")
    s0, s1 = v("s0"), v("s1")          # a non-empty suffix, split after its first character
    suf = cat(s0, s1)
    suf_ok = [z3.Length(s0) == 1, z3.InRe(suf, INT_SUFFIX)]

    def both(name, prefix_pieces, const, const_cons, prefix_text, ends_in_e=None):
        """with and without suffix"""
        c = list(const_cons)
        if ends_in_e is None:
            # the constant cannot end in e / E
            out.append(Family(f"{name}.plain", P, cat(*prefix_pieces, const, rest), c + [rest_ok(rest)],
                              list(prefix_pieces) + [const], {"Prefix": prefix_text, "Constant": const, "Suffix": EMPTY}))
            out.append(Family(f"{name}.suffixed", P, cat(*prefix_pieces, const, suf, rest), c + suf_ok + [rest_ok(rest)],
                              list(prefix_pieces) + [const, s0, s1], {"Prefix": prefix_text, "Constant": const, "Suffix": suf}))
        else:
            body, last = ends_in_e
            # hexadecimal: after a final e / E the pattern takes the look-behind branch of Suffix
            # (one greedy run, empty when nothing follows); a following sign would belong to the
            # preprocessing number, so it is not a valid continuation (pp-number rule)
            out.append(Family(f"{name}.ends_in_e.plain", P, cat(*prefix_pieces, body, last, rest),
                              c + [z3.InRe(last, E_), rest_ok(rest, also_no_sign=True)],
                              list(prefix_pieces) + [cat(body, last), EMPTY],
                              {"Prefix": prefix_text, "Constant": cat(body, last), "Suffix": EMPTY}))
            out.append(Family(f"{name}.ends_in_e.suffixed", P, cat(*prefix_pieces, body, last, suf, rest),
                              c + [z3.InRe(last, E_)] + suf_ok + [rest_ok(rest)],
                              list(prefix_pieces) + [cat(body, last), suf],
                              {"Prefix": prefix_text, "Constant": cat(body, last), "Suffix": suf}))
    d = v("d")
    both("decimal", [], d, [z3.InRe(d, z3.Concat(NZ, z3.Star(D)))], EMPTY)
    both("zero", [], z3.StringVal("0"), [], EMPTY)
    o = v("o")
    both("octal", ["0"], o, [z3.InRe(o, z3.Plus(OCT))], z3.StringVal("0"))
    x, h = v("x"), v("h")
    xc = [z3.InRe(x, lits("x", "X"))]
    both("hexadecimal", ["0", x], h, xc + [z3.InRe(h, z3.Concat(z3.Star(HEXD), HEX_NOT_E))], cat("0", x))
    hb, hl = v("hb"), v("hl")
    both("hexadecimal", ["0", x], None, xc + [z3.InRe(hb, z3.Star(HEXD))], cat("0", x), ends_in_e=(hb, hl))
    b, bd = v("b"), v("bd")
    both("binary", ["0", b], bd, [z3.InRe(b, lits("b", "B")), z3.InRe(bd, z3.Plus(BIN))], cat("0", b))
    return out


def float_reject_families():
    """valid integer constants are not taken by the float parser: the exponent and fractional
    patterns do not match them, and the hexadecimal pattern matches a hexadecimal integer with
    neither '.' nor exponent (the parser then returns None: `# Hexadecimal Integer`)"""
    out = []
    rest = v("rest")
    s0, s1 = v("s0"), v("s1")
    suf = cat(s0, s1)
    anysuf = z3.Or(suf == EMPTY, z3.And(z3.Length(s0) == 1, z3.InRe(suf, INT_SUFFIX)))
    d = v("d")
    for pat in ("FLOAT_EXPONENT_LITERAL_PATTERN", "FLOAT_FRACTIONAL_LITERAL_PATTERN", "FLOAT_HEXADECIMAL_LITERAL_PATTERN"):
        out.append(Family(f"decimal_or_octal_integer.not_a_float[{pat.split('_')[1].lower()}]", pat,
                          cat(d, suf, rest), [z3.InRe(d, z3.Plus(D)), anysuf, rest_ok(rest)], None, None))
    b, bd = v("b"), v("bd")
    for pat in ("FLOAT_EXPONENT_LITERAL_PATTERN", "FLOAT_FRACTIONAL_LITERAL_PATTERN", "FLOAT_HEXADECIMAL_LITERAL_PATTERN"):
        out.append(Family(f"binary_integer.not_a_float[{pat.split('_')[1].lower()}]", pat,
                          cat("0", b, bd, suf, rest),
                          [z3.InRe(b, lits("b", "B")), z3.InRe(bd, z3.Plus(BIN)), anysuf, rest_ok(rest)], None, None))
    x, h = v("x"), v("h")
    for pat in ("FLOAT_EXPONENT_LITERAL_PATTERN", "FLOAT_FRACTIONAL_LITERAL_PATTERN"):
        out.append(Family(f"hexadecimal_integer.not_a_float[{pat.split('_')[1].lower()}]", pat,
                          cat("0", x, h, suf, rest),
                          [z3.InRe(x, lits("x", "X")), z3.InRe(h, z3.Plus(HEXD)), anysuf, rest_ok(rest)], None, None))
    return out


def float_families():
    """valid floating constants: which of the three patterns takes them (they are tried in the
    order exponent, fractional, hexadecimal) and with which groups"""
    out = []
    rest = v("rest")
    fs = v("fs")                      # optional floating-suffix
    fs_ok = z3.Or(fs == EMPTY, z3.InRe(fs, FLOAT_SUFFIX))
    e, sg, ed = v("e"), v("sg"), v("ed")
    exp_cons = [z3.InRe(e, E_), z3.InRe(ed, z3.Plus(D))]
    d1 = v("d1")
    # digit-sequence exponent-part suffix?           e.g. 1e5, 12E+3f
    X = "FLOAT_EXPONENT_LITERAL_PATTERN"
    out.append(Family("decimal_exponent.signed", X, cat(d1, e, sg, ed, fs, rest),
                      [z3.InRe(d1, z3.Plus(D)), z3.InRe(sg, SIGN), fs_ok, rest_ok(rest)] + exp_cons,
                      [d1, e, sg, ed, fs], {"Constant": d1, "Exponent": cat(e, sg, ed), "Suffix": fs}))
    out.append(Family("decimal_exponent.unsigned", X, cat(d1, e, ed, fs, rest),
                      [z3.InRe(d1, z3.Plus(D)), fs_ok, rest_ok(rest)] + exp_cons,
                      [d1, e, ed, fs], {"Constant": d1, "Exponent": cat(e, ed), "Suffix": fs}))
    # fractional-constant exponent-part? suffix?      e.g. 1.5, .5e-3, 1.f  -- not taken by the exponent pattern
    ip, fp = v("ip"), v("fp")
    frac_forms = [
        ("int.frac", cat(ip, ".", fp), [z3.InRe(ip, z3.Plus(D)), z3.InRe(fp, z3.Plus(D))], [ip, z3.StringVal("."), fp]),
        (".frac", cat(".", fp), [z3.InRe(fp, z3.Plus(D))], [z3.StringVal("."), fp]),
        ("int.", cat(ip, "."), [z3.InRe(ip, z3.Plus(D))], [ip, z3.StringVal(".")]),
    ]
    F = "FLOAT_FRACTIONAL_LITERAL_PATTERN"
    for nm, const, cons, cpieces in frac_forms:
        out.append(Family(f"fractional[{nm}].not_exponent_pattern", X, cat(const, fs, rest),
                          cons + [fs_ok, rest_ok(rest)], None, None))
        out.append(Family(f"fractional[{nm}].plain", F, cat(const, fs, rest), cons + [fs_ok, rest_ok(rest)],
                          cpieces + [fs], {"Constant": const, "Exponent": EMPTY, "Suffix": fs}))
        out.append(Family(f"fractional[{nm}].exponent_signed", F, cat(const, e, sg, ed, fs, rest),
                          cons + exp_cons + [z3.InRe(sg, SIGN), fs_ok, rest_ok(rest)],
                          cpieces + [e, sg, ed, fs], {"Constant": const, "Exponent": cat(e, sg, ed), "Suffix": fs}))
        out.append(Family(f"fractional[{nm}].exponent_unsigned", F, cat(const, e, ed, fs, rest),
                          cons + exp_cons + [fs_ok, rest_ok(rest)],
                          cpieces + [e, ed, fs], {"Constant": const, "Exponent": cat(e, ed), "Suffix": fs}))
    return out
