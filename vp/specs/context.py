"""L4 contracts: cursor helpers of norminette/context.py (DESIGN.md section 5)."""
import z3

from ..pyvc.spec import Contract, SpecError
from ..pyvc.values import (SInt, SBool, SKind, SKindSet, SOpt, Tok, Ref, ListCell, Builtin, KINDS, int_term,
                           bool_term, mk_bool, fresh_name, Raised, ExcVal)
from ..pyvc import ops
from ..pyvc.ops import truth
from ..models import tokens as T

P = "norminette/context.py:Context."


def sp_kind_in(E, s, args, kw):
    """kind_in(ctx, p, value): tokens[p].type == value (str) / in value (list, tuple)"""
    ctx, p, value = args
    tl, cell = T._stream_of(s, ctx)
    k = SKind(z3.Select(cell.kind, int_term(tl.off) + int_term(p)))
    if isinstance(value, (str, SKind)):
        return [(s, mk_bool(bool_term(ops.values_eq(k, value, s))))]
    return [(s, mk_bool(bool_term(ops.contains(value, k, s))))]


def sp_in_ws(E, s, args, kw):
    """in_ws(ctx, p, nl, comment): kind of token p is in the set skip_ws(nl, comment) skips"""
    ctx, p, nl, comment = args
    tl, cell = T._stream_of(s, ctx)
    k = z3.Select(cell.kind, int_term(tl.off) + int_term(p))
    c = KINDS.code
    nl_false = bool_term(ops.values_is(nl, False, s)) if isinstance(nl, (bool, SBool, SOpt)) else z3.BoolVal(False)
    cm = bool_term(truth(comment, s))
    t = z3.Or(k == c("SPACE"), k == c("TAB"), k == c("ESCAPED_NEWLINE"),
              z3.And(z3.Not(nl_false), k == c("NEWLINE")),
              z3.And(cm, z3.Or(k == c("COMMENT"), k == c("MULT_COMMENT"))))
    return [(s, mk_bool(t))]


def opt_tok(E, st, name, frame):
    tl = T._ctx_tokens(st, frame["self"])
    return SOpt(z3.Bool(fresh_name(name + "_none")), Tok(tl.stream, z3.Int(fresh_name(name + "_idx"))))


def ctx_setup(extra):
    def setup(E, st):
        ctx = T.make_context(E, st)
        d = {"self": ctx}
        for k, ty in extra.items():
            d[k] = E.fresh_value(st, ty, k)
        return d
    return setup


def kindset(E, st, name, frame=None):
    return SKindSet(z3.Array(fresh_name(name), z3.IntSort(), z3.BoolSort()))


def new_error_effect(level):
    def eff(E, s, env):
        tkn = env["tkn"]
        if isinstance(tkn, SOpt):
            tkn = tkn.val
        cell = s.cell(tkn.stream)
        name = env["errno"]
        code = z3.IntVal(KINDS.code(name)) if isinstance(name, str) else name.t
        T.emit(s, code, z3.IntVal(KINDS.code(level)), z3.Select(cell.lin, tkn.idx), z3.Select(cell.col, tkn.idx))
    return eff


def contracts():
    out = []
    c = Contract(P + "peek_token", setup=ctx_setup({"pos": "int"}), result=opt_tok)
    c.ens("isnone(result) == (pos >= ntok(self) or pos < -ntok(self))", "none_iff_outside")
    c.ens("implies(pos < ntok(self) and pos >= -ntok(self), is_tok(self, result, wrap(self, pos)))", "is_token_at_pos")
    c.mustfail("isnone(result) == (pos > ntok(self) or pos < -ntok(self))", "off_by_one")
    out.append(c)

    for variant, vty in (("str", "kind"), ("list", kindset)):
        c = Contract(P + "check_token", setup=ctx_setup({"pos": "int", "value": vty}), result="optbool")
        c.variant = variant
        c.ens("isnone(result) == (pos >= ntok(self) or pos < -ntok(self))", "none_iff_outside")
        c.ens("implies(pos < ntok(self) and pos >= -ntok(self), result == kind_in(self, wrap(self, pos), value))",
              "membership")
        c.mustfail("implies(pos < ntok(self) and pos >= -ntok(self), result == True)", "always_true")
        out.append(c)

    # eol / skip_ws are total over int positions: negative positions wrap around in
    # peek_token, so the clauses about the kinds of the skipped tokens are stated for pos >= 0
    c = Contract(P + "eol", setup=ctx_setup({"pos": "int"}), result="int")
    c.ens("pos <= result", "monotone")
    c.ens("result <= max(pos, ntok(self))", "bounded")
    c.ens("implies(pos >= 0, forall(pos, result, lambda k: kind_in(self, k, ('TAB', 'SPACE', 'NEWLINE'))))", "skipped_blank")
    c.ens("implies(pos >= 0, forall(pos, result - 1, lambda k: not kind_in(self, k, 'NEWLINE')))", "one_newline")
    c.ens("implies(pos >= 0, (result > pos and kind_in(self, result - 1, 'NEWLINE')) or result >= ntok(self) "
          "or not kind_in(self, result, ('TAB', 'SPACE', 'NEWLINE')))", "stops")
    c.loop(0, invariant=["old(pos) <= pos and pos <= max(old(pos), ntok(self))",
                         "implies(old(pos) >= 0, forall(old(pos), pos, lambda k: kind_in(self, k, ('TAB', 'SPACE'))))"],
           variant="ntok(self) - pos", pure=True)
    c.mustfail("result > pos", "always_advances")
    out.append(c)

    c = Contract(P + "skip_ws", setup=ctx_setup({"pos": "int", "nl": "bool", "comment": "bool"}), result="int")
    c.ens("pos <= result", "monotone")
    c.ens("result <= max(pos, ntok(self))", "bounded")
    c.ens("implies(pos >= 0, forall(pos, result, lambda k: in_ws(self, k, nl, comment)))", "skipped_ws")
    c.ens("implies(pos >= 0, result >= ntok(self) or not in_ws(self, result, nl, comment))", "stops")
    c.loop(0, invariant=["old(pos) <= pos and pos <= max(old(pos), ntok(self))",
                         "implies(old(pos) >= 0, forall(old(pos), pos, lambda k: in_ws(self, k, nl, comment)))"],
           variant="ntok(self) - pos", pure=True)
    c.mustfail("result > pos", "always_advances")
    out.append(c)

    for fn, level in (("new_error", "Error"), ("new_warning", "Notice")):
        c = Contract(P + fn, setup=None, result=None)
        c.rais("AttributeError", when="isnone(tkn)")
        c.pure = True          # the ghost log is updated exactly by call_effect, not havocked
        c.call_effect = new_error_effect(level)
        c.verified_by = "C08"  # body checked against the Errors model under C08
        out.append(c)
    return out


def install(E):
    E.spec_builtins["kind_in"] = Builtin("kind_in", sp_kind_in)
    E.spec_builtins["in_ws"] = Builtin("in_ws", sp_in_ws)


def skip_nest_contract():
    """skip_nest(pos): index of the bracket that closes the one at pos (or pos itself when
    the token at pos is not an opening bracket); CParsingError when it is never closed or
    when pos is past the end of the token list"""
    c = Contract(P + "skip_nest", setup=ctx_setup({"pos": "int"}), result="int")
    c.rais("CParsingError")
    c.ens("result >= pos and result < ntok(self)", "monotone_and_in_bounds")
    c.ens("implies(pos >= 0 and not kind_in(self, pos, ('LBRACKET', 'LBRACE', 'LPARENTHESIS')), result == pos)", "not_a_bracket")
    c.ens("implies(pos >= 0 and kind_in(self, pos, ('LBRACKET', 'LBRACE', 'LPARENTHESIS')), result > pos)", "closing_is_later")
    c.ens("implies(pos >= 0 and kind_in(self, pos, 'LPARENTHESIS'), kind_in(self, result, 'RPARENTHESIS'))", "closes_a_parenthesis")
    c.ens("implies(pos >= 0 and kind_in(self, pos, 'LBRACKET'), kind_in(self, result, 'RBRACKET'))", "closes_a_bracket")
    c.ens("implies(pos >= 0 and kind_in(self, pos, 'LBRACE'), kind_in(self, result, 'RBRACE'))", "closes_a_brace")
    c.loop(0, invariant=["i > pos"], variant="ntok(self) - i", pure=True)
    c.mustfail("result == pos", "never_moves")
    return c
