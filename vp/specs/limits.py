"""C03 contracts: the numeric limits.  The constants 80 / 25 / 5 / 4 / 5 come from the
statement of the property and appear only here, never read from the code."""
import z3

from ..pyvc.spec import Contract
from ..pyvc.values import ObjCell, SInt, SBool, SKind, KINDS, fresh_name
from ..models import tokens as T

R = "norminette/rules/"
LIMITS = {"COLS": 80, "LINES": 25, "FUNCS": 5, "ARGS": 4, "VARS": 5}


def rule_setup(relpath, clsname, minhist=1, more=None):
    """minhist=1: a check runs after Registry.run_rules appended the matching primary to
    context.history, so the history is never empty when a check runs"""
    def setup(E, st):
        cls = E.repo.find_class(relpath, clsname)
        ctx = T.make_context(E, st, minhist=minhist)
        d = {"self": st.alloc(ObjCell(cls, {})), "context": ctx}
        if more:
            more(E, st, d)
        return d
    return setup


NOTHING_ELSE = "implies(M != {name!r}, emitted_total(M) == old(emitted_total(M)))"


def line_len():
    c = Contract(R + "check_line_len.py:CheckLineLen.run", setup=rule_setup(R + "check_line_len.py", "CheckLineLen"))
    c.env.update(LIMITS)
    c.forall_const("L", "int").forall_const("M", "kind")
    P = "lambda k: lin(context, k) == L and col(context, k) > COLS + 1"
    N = "min(context.tkn_scope, ntok(context))"
    # (what a Check returns is ignored by Registry.run_rules: no clause on the result)
    c.ens(f"emitted_count('LINE_TOO_LONG', L) - old(emitted_count('LINE_TOO_LONG', L)) == "
          f"ite(count(0, {N}, {P}) > 0, 1, 0)", "iff")
    c.ens(NOTHING_ELSE.format(name="LINE_TOO_LONG"), "only")
    c.loop(0, invariant=[
        f"(L in line_too_long) == (count(0, idx, {P}) > 0)",
        f"emitted_count('LINE_TOO_LONG', L) - old(emitted_count('LINE_TOO_LONG', L)) == "
        f"ite(count(0, idx, {P}) > 0, 1, 0)",
        NOTHING_ELSE.format(name="LINE_TOO_LONG"),
    ])
    # vacuity guard: the same contract with the limit off by one must be refuted
    P2 = "lambda k: lin(context, k) == L and col(context, k) > COLS + 2"
    c.mustfail(f"emitted_count('LINE_TOO_LONG', L) - old(emitted_count('LINE_TOO_LONG', L)) == "
               f"ite(count(0, {N}, {P2}) > 0, 1, 0)", "limit_plus_one")
    return c


def functions_count():
    c = Contract(R + "check_functions_count.py:CheckFunctionsCount.run",
                 setup=rule_setup(R + "check_functions_count.py", "CheckFunctionsCount"))
    c.env.update(LIMITS)
    c.forall_const("M", "kind")
    c.req("ntok(context) >= 1")
    # (what a Check returns is ignored by Registry.run_rules: no clause on the result)
    c.ens("emitted_total('TOO_MANY_FUNCS') - old(emitted_total('TOO_MANY_FUNCS')) == "
          "ite(context.scope.name == 'GlobalScope' and context.scope.functions > FUNCS, 1, 0)", "iff")
    c.ens(NOTHING_ELSE.format(name="TOO_MANY_FUNCS"), "only")
    c.mustfail("emitted_total('TOO_MANY_FUNCS') - old(emitted_total('TOO_MANY_FUNCS')) == "
               "ite(context.scope.name == 'GlobalScope' and context.scope.functions > FUNCS + 1, 1, 0)",
               "limit_plus_one")
    return c


def brace():
    c = Contract(R + "check_brace.py:CheckBrace.run", setup=rule_setup(R + "check_brace.py", "CheckBrace"))
    c.env.update(LIMITS)
    c.forall_const("M", "kind").forall_const("b", "nat")
    # established by IsBlockStart / IsBlockEnd (their post-conditions, C07): the statement
    # starts with blanks followed by a brace
    c.req("b < ntok(context) and forall(0, b, lambda k: in_ws(context, k, False, False)) "
          "and kind_in(context, b, ('RBRACE', 'LBRACE'))")
    # (what a Check returns is ignored by Registry.run_rules: no clause on the result)
    c.ens("emitted_total('TOO_MANY_LINES') - old(emitted_total('TOO_MANY_LINES')) == "
          "ite(context.scope.name == 'Function' and context.scope.lines > LINES + 1, 1, 0)", "iff")
    c.ens("implies(M not in ('TOO_MANY_LINES', 'SPC_BEFORE_NL', 'BRACE_SHOULD_EOL'), "
          "emitted_total(M) == old(emitted_total(M)))", "only")
    c.ens("context.scope.lines == old(context.scope.lines)", "frame_lines")
    c.mustfail("emitted_total('TOO_MANY_LINES') - old(emitted_total('TOO_MANY_LINES')) == "
               "ite(context.scope.name == 'Function' and context.scope.lines > LINES, 1, 0)", "limit_minus_one")
    return c


def comment_line_len():
    c = Contract(R + "check_comment_line_len.py:CheckCommentLineLen.run",
                 setup=rule_setup(R + "check_comment_line_len.py", "CheckCommentLineLen"))
    c.env.update(LIMITS)
    c.forall_const("M", "kind").forall_const("b", "nat").forall_const("J", "int")
    # established by IsComment.run (the primary this check depends on): a comment token
    # exists in the statement and nothing but non-comments precedes it; lexer invariants:
    # comment tokens carry their text, columns are >= 1
    c.req("b < ntok(context) and kind_in(context, b, ('COMMENT', 'MULT_COMMENT')) and "
          "forall(0, b, lambda k: not kind_in(context, k, ('COMMENT', 'MULT_COMMENT')))")
    c.req("hasval(context, b) and col(context, b) >= 1")
    LTL = "emitted_count('LINE_TOO_LONG', old(lin(context, b)) + J) - " \
          "old(emitted_count('LINE_TOO_LONG', lin(context, b) + J))"
    V = "old(val(context, b))"
    C = "old(col(context, b))"
    # width of line J of the comment: tabs were expanded by the lexer, one value character
    # per column (C09/C17), the first line starts at column C
    W = f"(split_part_len({V}, J) + ite(J == 0, {C} - 1, 0))"
    c.ens(f"implies(old(kind_in(context, b, 'MULT_COMMENT')), "
          f"{LTL} == ite(0 <= J and J < split_n({V}) and {W} > COLS, 1, 0))", "block_iff")
    c.ens(f"implies(old(kind_in(context, b, 'COMMENT')), "
          f"{LTL} == ite(J == 0 and {C} - 1 + len({V}) > COLS, 1, 0))", "line_iff")
    c.ens(NOTHING_ELSE.format(name="LINE_TOO_LONG"), "only")
    c.loop(0, invariant=["0 <= i and i <= b"], variant="b - i", pure=True)
    c.loop(1, invariant=[
        f"{LTL} == ite(0 <= J and J < idx and {W} > COLS, 1, 0)",
        NOTHING_ELSE.format(name="LINE_TOO_LONG"),
    ], havoc=["stream"])
    c.mustfail(f"implies(old(kind_in(context, b, 'COMMENT')), "
               f"{LTL} == ite(J == 0 and {C} - 1 + len({V}) > COLS + 1, 1, 0))", "limit_plus_one")
    return c


def line_count():
    c = Contract(R + "check_line_count.py:CheckLineCount.run",
                 setup=rule_setup(R + "check_line_count.py", "CheckLineCount"))
    c.env.update(LIMITS)
    c.forall_const("M", "kind")
    # history holds names of primary rules only (Registry.run_rules appends Primary
    # instances only; that no primary is called CheckFuncDeclarations / CheckBrace is a
    # finite check on the registry)
    c.req("forall(0, hist_len(context), lambda k: hist_name(context, k) not in ('CheckFuncDeclarations', 'CheckBrace'))")
    NL = "lambda k: kind_in(context, k, ('NEWLINE', 'ESCAPED_NEWLINE'))"
    # (what a Check returns is ignored by Registry.run_rules: no clause on the result)
    c.ens(f"context.scope.lines == old(context.scope.lines) + count(0, min(context.tkn_scope, ntok(context)), {NL})",
          "counter")
    c.ens("emitted_total(M) == old(emitted_total(M))", "silent")
    c.loop(0, invariant=[f"context.scope.lines == old(context.scope.lines) + count(0, idx, {NL})",
                         "emitted_total(M) == old(emitted_total(M))"],
           havoc=["context.scope.lines"])
    c.mustfail(f"context.scope.lines == old(context.scope.lines) + count(0, min(context.tkn_scope, ntok(context)) - 1, {NL})",
               "one_short")
    return c


def _first_if_slice(stmts):
    import ast
    for k, st in enumerate(stmts):
        if isinstance(st, ast.If):
            return stmts[:k + 1], stmts[k + 1:]
    return stmts, []


def _no_vars_write(dropped):
    import ast
    for st in dropped:
        for x in ast.walk(st):
            if isinstance(x, ast.Attribute) and x.attr == "vars" and isinstance(x.ctx, (ast.Store, ast.Del)):
                return f"write to .vars at line {x.lineno}"
            if isinstance(x, ast.Constant) and x.value == "TOO_MANY_VARS_FUNC":
                return f"TOO_MANY_VARS_FUNC mentioned at line {x.lineno}"
            if isinstance(x, ast.JoinedStr):
                return f"computed diagnostic name at line {x.lineno}"
    return None


def variable_declaration_counter():
    """the counter/limit part of CheckVariableDeclaration.run: the verified text is the
    body up to and including its first top-level `if` (mechanical slice); the statements
    after it are shown by a syntactic scan not to write .vars nor to mention
    TOO_MANY_VARS_FUNC"""
    c = Contract(R + "check_variable_declaration.py:CheckVariableDeclaration.run",
                 setup=rule_setup(R + "check_variable_declaration.py", "CheckVariableDeclaration"))
    c.env.update(LIMITS)
    c.body_slice = _first_if_slice
    c.dropped_scan = _no_vars_write
    # a Function scope is entered through IsFuncDeclaration + IsBlockStart, so two history
    # entries precede the first declaration; the statement has at least one token
    c.req("ntok(context) >= 1 and implies(context.scope.name == 'Function', hist_len(context) >= 2)")
    c.ens("context.scope.vars == old(context.scope.vars) + ite(context.scope.name == 'Function', 1, 0)", "counter")
    c.ens("emitted_total('TOO_MANY_VARS_FUNC') - old(emitted_total('TOO_MANY_VARS_FUNC')) == "
          "ite(context.scope.name == 'Function' and context.scope.vars > VARS, 1, 0)", "iff")
    c.mustfail("emitted_total('TOO_MANY_VARS_FUNC') - old(emitted_total('TOO_MANY_VARS_FUNC')) == "
               "ite(context.scope.name == 'Function' and context.scope.vars > VARS + 1, 1, 0)", "limit_plus_one")
    return c


def contracts():
    return [line_len(), comment_line_len(), functions_count(), brace(), line_count(), variable_declaration_counter()]
