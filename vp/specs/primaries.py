"""Progress contracts of the primaries (C05 / C07) and of the cursor helpers of Context they
call.  What Registry.run needs from a primary (its call-site contract run_rules_callsite):
it returns a pair, a match reports a jump >= 1, and context.tokens is not assigned.

Every contract here is checked against the real body; a helper contract that is only
assumed is marked `assumed` and listed in the evidence."""
import z3

from ..pyvc.spec import Contract
from ..pyvc.values import SOpt, SInt, Tok, Opaque, fresh_name
from ..models import tokens as T
from .context import ctx_setup, P
from .registry import progress_contract, primary_setup, R

# the statement is not an empty line: IsEmptyLine (priority 70, no scope restriction) runs
# before every primary of lower priority and matches blanks followed by a NEWLINE or by the
# end of the token list (its own contract, clause matches_iff_blank_line)
NOT_EMPTY = ("e >= 0 and forall(0, e, lambda k: k < ntok(context) and kind_in(context, k, ('SPACE', 'TAB'))) and "
             "e < ntok(context) and not kind_in(context, e, ('SPACE', 'TAB', 'NEWLINE'))")


# a lexer fact (Lexer.parse_identifier builds Token("IDENTIFIER", pos, <the spelling>)): listed
# as an assumption on the token stream in the evidence
IDENT_HAS_VALUE = "forall(0, ntok(context), lambda k: implies(kind_in(context, k, 'IDENTIFIER'), hasval(context, k)))"


def not_empty_line(c):
    c.forall_const("e", "int")
    c.req(NOT_EMPTY)


def may_raise(c):
    c.rais("CParsingError")


def writes(*paths, emits=False):
    def f(c):
        c.modifies = list(c.modifies) + list(paths)
        if emits:
            c.pure = False
    return f


FUNC_POS = ("context.fname_pos:int", "context.arg_pos:opaque")
VARS_NAME = "context.scope.vars_name:opaque"
SUB = "context.sub:opaque"
PREPROC = tuple(f"context.preproc.{k}:int" for k in ("_indent", "total_ifs", "total_elifs", "total_elses", "total_ifdefs",
                                                     "total_ifndefs"))


def opttok(E, st, name, frame=None):
    tl = T._ctx_tokens(st, st.locals["context"] if "context" in st.locals else st.locals["self"])
    return SOpt(z3.Bool(fresh_name(name + "_none")), Tok(tl.stream, z3.Int(fresh_name(name + "_idx"))))


def optpair(E, st, name, frame=None):
    """None or (token or None, index)"""
    return SOpt(z3.Bool(fresh_name(name + "_none")), (opttok(E, st, name + "_tok"), SInt(z3.Int(fresh_name(name + "_pos")))))


def fwd(var="i", lo="0", **kw):
    d = dict(invariant=[f"{var} >= {lo}"], variant=f"ntok(context) - {var}", pure=True)
    d.update(kw)
    return d


def sfwd(var="i", lo="pos", **kw):
    d = dict(invariant=[f"{var} >= {lo}"], variant=f"ntok(self) - {var}", pure=True)
    d.update(kw)
    return d


# ------------------------------------------------------------------------------ helpers of Context
def helper_contracts():
    out = {}
    c = Contract(P + "skip_misc_specifier", setup=ctx_setup({"pos": "nat", "nl": "bool"}), result="int")
    c.req("pos >= 0")
    c.ens("result >= pos", "monotone")
    c.loop(0, **sfwd("tmp", "i + 1"))
    c.loop(1, **sfwd("i", "pos", types={"tmp": "int"}))
    out["skip_misc_specifier"] = c

    c = Contract(P + "check_identifier", setup=ctx_setup({"pos": "nat", "nl": "bool"}), result=("bool", "int"))
    c.req("pos >= 0")
    c.ens("result[1] >= pos", "monotone")
    c.ens("result[0] is True or result == (False, pos)", "shape")
    c.loop(0, **sfwd("i", "pos", types={"p": "int"}))
    c.loop(1, **sfwd("i", "pos", types={"p": "int"}))
    out["check_identifier"] = c

    c = Contract(P + "check_type_specifier", setup=ctx_setup({"pos": "nat", "user_def_type": "bool", "nl": "bool"}),
                 result=("bool", "int"))
    c.req("pos >= 0")
    c.ens("result[0] is True or result == (False, 0)", "shape")
    # at the end of the token list the answer is (True, pos - 1): a quirk of the real code
    c.ens("implies(result[0] is True, result[1] >= pos - 1)", "monotone_weak")
    c.ens("implies(result[0] is True and pos < ntok(self), result[1] >= pos)", "monotone")
    for k in range(2):
        c.loop(k, **sfwd("i", "pos"))
    # the last loop is entered on a type keyword, so it runs at least once
    c.loop(2, **sfwd("i", "pos", invariant=["i >= pos", "i > pos or i >= ntok(self) or kind_in(self, i, types)"]))
    out["check_type_specifier"] = c

    c = Contract(P + "parenthesis_contain", setup=ctx_setup({"i": "int", "ret_store": "opaque"}),
                 result=("optkind", "int"))
    c.rais("CParsingError")
    c.ens("result[1] >= i", "monotone")
    c.ens("implies(i >= 0 and i < ntok(self) and kind_in(self, i, 'LPARENTHESIS'), result[1] > i and result[1] < ntok(self))",
          "closing_is_later")
    c.loop(0, invariant=["i > start", "start == old(i)"], variant="ntok(self) - i", pure=True,
           types={"deep": "int", "nested_id": "bool", "identifier": "optbool", "pointer": "optbool", "tmp": "int"})
    back = dict(invariant=["True"], variant="tmp + ntok(self) + 1", pure=True)
    c.loop(1, **back)
    c.loop(2, invariant=["tmp > start"], variant="ntok(self) - tmp", pure=True)
    c.loop(3, invariant=["tmp > i"], variant="ntok(self) - tmp", pure=True)
    c.loop(4, **back)
    out["parenthesis_contain"] = c

    c = Contract(P + "skip_nest_reverse", setup=ctx_setup({"pos": "int"}), result="int")
    c.rais("CParsingError")
    c.ens("result <= pos", "never_forward")
    c.loop(0, invariant=["i < pos"], variant="i + ntok(self) + 1", pure=True, types={"c": "kind"})
    out["skip_nest_reverse"] = c

    c = Contract(P + "is_operator", setup=ctx_setup({"pos": "int"}), result="bool")
    c.req("hist_len(self) >= 1")       # reads history[-1]
    c.rais("CParsingError")
    c.ens("result is True or result is False", "returns_bool")
    c.loop(0, invariant=["True"], variant="tmp", pure=True, types={"bracketed": "bool", "right_side": "bool"})
    c.loop(1, invariant=["True"], variant="pos", pure=True, types={"skip": "int", "value_before": "bool"})
    out["is_operator"] = c

    c = Contract(P + "is_glued_operator", setup=ctx_setup({"pos": "int"}), result="bool")
    c.ens("result is True or result is False", "returns_bool")
    c.loop(0, invariant=["True"], variant="pos + ntok(self) + 1", pure=True)
    out["is_glued_operator"] = c

    c = Contract(P + "find_in_scope", setup=ctx_setup({"value": "kind", "nested": "bool"}), result="int")
    c.ens("result >= -1 and result < max(self.tkn_scope, 0)", "an_index_of_the_statement_or_minus_one")
    c.loop(0, invariant=["True"], types={"nests": "int"}, pure=True)
    out["find_in_scope"] = c

    c = Contract(P + "skip_typedef", setup=ctx_setup({"pos": "nat"}), result="int")
    c.req("pos >= 0")
    c.ens("result >= pos", "monotone")
    out["skip_typedef"] = c
    return out


def drop_where(pred, protected, desc):
    """mechanical slice: statements (at any depth) for which pred(source text) holds are
    removed from the verified text; the frame scan checks that they cannot change the
    control flow or the protected locals of the rest"""
    import ast
    import copy

    def slicer(body):
        dropped = []

        def filt(stmts, parent):
            out = []
            for st_ in stmts:
                if pred(ast.unparse(st_)):
                    dropped.append(st_)
                    continue
                s2 = copy.copy(st_)
                for field in ("body", "orelse", "finalbody"):
                    v = getattr(s2, field, None)
                    if isinstance(v, list) and v and isinstance(v[0], ast.stmt):
                        nv = filt(v, s2)
                        if not nv and field == "body":
                            nv = [ast.copy_location(ast.Pass(), v[0])]
                        setattr(s2, field, nv)
                out.append(s2)
            return out
        return filt(body, None), dropped

    def scan(dropped):
        for d in dropped:
            for x in ast.walk(d):
                if isinstance(x, (ast.Return, ast.Break, ast.Continue, ast.Raise, ast.Yield)):
                    return f"dropped statement at line {d.lineno} changes the control flow"
                if isinstance(x, ast.Name) and isinstance(x.ctx, (ast.Store, ast.Del)) and x.id in protected:
                    return f"dropped statement at line {d.lineno} assigns {x.id}"
                if isinstance(x, ast.Attribute) and isinstance(x.ctx, (ast.Store, ast.Del)) and x.attr == "tokens":
                    return f"dropped statement at line {d.lineno} assigns .tokens"
        return None

    def apply(c):
        c.body_slice = slicer
        c.dropped_scan = scan
        c.slice_desc = desc
        return c
    return apply


def method_contract(relpath, cls, meth, params, result):
    """contract of a helper method of a rule class: (self, context, <params>)"""
    base = primary_setup(R + relpath, cls)

    def setup(E, st):
        d = base(E, st)
        for k, ty in params.items():
            d[k] = E.fresh_value(st, ty, k)
        return d
    return Contract(f"{R}{relpath}:{cls}.{meth}", setup=setup, result=result)


def rule_helper_contracts():
    """helpers defined on the primaries themselves"""
    out = {}
    # --- IsAssignation
    c = method_contract("is_assignation.py", "IsAssignation", "check_identifier", {"pos": "nat"}, ("bool", "int"))
    c.rais("CParsingError")
    c.ens("(result[0] is True and result[1] >= pos) or result == (False, 0)", "shape")
    c.loop(0, **fwd("i", "pos"))
    out["IsAssignation.check_identifier"] = c
    c = method_contract("is_assignation.py", "IsAssignation", "parse_assign_right_side", {"i": "nat"}, "int")
    c.rais("CParsingError")
    c.ens("result >= i", "monotone")
    c.loop(0, invariant=["i >= old(i)"], variant="ntok(context) - i", pure=True)
    out["IsAssignation.parse_assign_right_side"] = c
    # --- IsEnumVarDecl
    c = method_contract("is_enum_var_decl.py", "IsEnumVarDecl", "assignment_right_side", {"pos": "nat"}, ("bool", "int"))
    c.rais("CParsingError")
    c.ens("result[0] is True and result[1] >= pos", "monotone")
    c.loop(0, **fwd("i", "pos"))
    out["IsEnumVarDecl.assignment_right_side"] = c
    c = method_contract("is_enum_var_decl.py", "IsEnumVarDecl", "var_declaration", {"pos": "nat"}, ("bool", "int"))
    c.rais("CParsingError")
    c.ens("(result[0] is True and result[1] > pos) or result == (False, pos) or result == (False, 0)", "shape")
    c.ens("implies(result[0] is True, result[1] < ntok(context) and kind_in(context, result[1], ('NEWLINE', 'COMMA')))",
          "stops_on_separator")
    c.loop(0, invariant=["i >= pos", "implies(identifier is True, i > pos)"], variant="ntok(context) - i", pure=True,
           types={"brackets": "int", "parenthesis": "int", "braces": "int", "identifier": "bool", "ret": "bool"})
    out["IsEnumVarDecl.var_declaration"] = c
    # --- IsExpressionStatement
    for meth, loops in (("check_reserved_keywords", 2), ("check_instruction", 0), ("void_identifier", 1)):
        c = method_contract("is_expression_statement.py", "IsExpressionStatement", meth, {"pos": "nat"}, ("bool", "int"))
        c.rais("CParsingError")
        c.ens("(result[0] is True and result[1] > pos) or result == (False, pos)", "shape")
        if meth == "check_reserved_keywords":
            c.req("hist_len(context) >= 1")      # context.is_operator reads history[-1]
        for k in range(loops):
            c.loop(k, **fwd("i", "pos + 1"))
        out["IsExpressionStatement." + meth] = c
    # --- IsFuncPrototype / IsFuncDeclaration: check_func_format
    for rel, cls in (("is_func_prototype.py", "IsFuncPrototype"), ("is_func_declaration.py", "IsFuncDeclaration")):
        c = method_contract(rel, cls, "check_func_format", {}, ("bool", "int"))
        c.rais("CParsingError")
        writes(*FUNC_POS)(c)
        c.ens("(result[0] is True and result[1] >= 1) or result == (False, 0)", "shape")
        c.loop(0, invariant=["i >= 0", "implies(args is True, arg_end >= 1)", "identifier is None or identifier[1] >= 0"],
               variant="ntok(context) - i", pure=True,
               types={"args": "bool", "arg_start": "int", "arg_end": "int", "identifier": optpair, "par": "opaque",
                      "nxt": "int"}, ghost={"i0": "i"})
        c.loop(1, invariant=["i >= __i0"], variant="ntok(context) - i", pure=True)
        lp = dict(invariant=["i >= __i0", "i > __i0 or kind_in(context, i, 'LPARENTHESIS')"],
                  variant="ntok(context) - i", pure=True)
        # the bookkeeping of function names / alignment (scope chain walk, fnames, func_alignment)
        # is not part of the progress argument
        drop_where(lambda src: src.startswith(("sc = ", "while type(sc)", "sc.fnames", "if context.func_alignment")),
                   {"i", "arg_start", "arg_end", "args", "identifier", "type_id"},
                   "the verified text omits the function-name / alignment bookkeeping")(c)
        if cls == "IsFuncPrototype":
            c.loop(2, **lp)
            c.loop(3, **lp)
            c.loop(4, **fwd())
            c.loop(5, **fwd(lo="1"))
            c.loop(6, **fwd(lo="1"))
        else:
            c.loop(2, **lp)
            c.loop(3, invariant=["i > __i0"], variant="ntok(context) - i", pure=True)
            c.loop(4, **fwd())
            for k in (5, 6, 7, 8):
                c.loop(k, **fwd(lo="1"))
        out[cls + ".check_func_format"] = c
    # --- IsPreprocessorStatement: every check_<directive> method and the helpers they end in
    PPF, PPC = "is_preprocessor_statement.py", "IsPreprocessorStatement"
    STEP = "result[0] is True and result[1] >= index"
    for meth, params, loops in (("_just_eol", {"directive": "opaque", "index": "nat"}, {}),
                                ("_just_identifier", {"directive": "opaque", "index": "nat"}, {}),
                                ("_just_token_string", {"directive": "opaque", "index": "nat"},
                                 {0: dict(invariant=["index >= old(index)"], variant="ntok(context) - index", pure=True,
                                          types={"lines": "int", "newline": "bool"})}),
                                ("_just_constant_expression", {"directive": "opaque", "index": "nat"}, {})):
        c = method_contract(PPF, PPC, meth, params, ("bool", "int"))
        c.rais("CParsingError")
        c.ens(STEP, "monotone")
        if meth == "_just_identifier":
            # #ifdef / #ifndef / #undef take a name: the checks that run afterwards (include-guard
            # validation, C14) read its spelling
            c.ens("kind_in(context, index, 'IDENTIFIER')", "argument_is_an_identifier")
        for k, sp in loops.items():
            c.loop(k, **sp)
        out[PPC + "." + meth] = c
    c = method_contract(PPF, PPC, "_check_path", {"index": "nat"}, ("bool", "int"))
    c.ens("(result[0] is True or result[0] is False) and result[1] >= index", "monotone")
    c.loop(0, invariant=["index >= old(index)"], variant="ntok(context) - index", pure=True)
    out[PPC + "._check_path"] = c
    c = method_contract(PPF, PPC, "corresponding_endif", {"index": "nat"}, "bool")
    c.req(IDENT_HAS_VALUE)
    c.ens("result is True or result is False", "returns_bool")
    c.loop(0, invariant=["index >= old(index)"], variant="ntok(context) - index", pure=True,
           types={"depth": "int", "direc": "str", "token": opttok})
    out[PPC + ".corresponding_endif"] = c
    # --- IsVarDeclaration
    c = method_contract("is_var_declaration.py", "IsVarDeclaration", "assignment_right_side", {"pos": "nat"}, ("bool", "int"))
    c.rais("CParsingError")
    c.ens("result[0] is True and result[1] >= pos", "monotone")
    c.loop(0, **fwd("i", "pos"))
    out["IsVarDeclaration.assignment_right_side"] = c
    c = method_contract("is_var_declaration.py", "IsVarDeclaration", "var_declaration", {"pos": "nat"}, ("bool", "int"))
    c.rais("CParsingError")
    # ids[-1]: that the list is non-empty whenever an identifier was seen depends on what
    # parenthesis_contain answers, which this contract does not describe
    c.rais("IndexError")
    c.not_excluded = ["IndexError"]
    writes(VARS_NAME)(c)
    c.ens("(result[0] is True and result[1] > pos) or result == (False, pos) or result == (False, 0)", "shape")
    c.ens("implies(result[0] is True, result[1] <= ntok(context))", "in_bounds")
    c.loop(0, invariant=["i >= pos", "implies(identifier is True, i > pos)"], variant="ntok(context) - i", pure=True,
           types={"brackets": "int", "parenthesis": "int", "braces": "int", "identifier": "bool", "ret": "opaque",
                  "ret_store": "optkind", "tmp": "int", "tmp2": "int", "deep": "int"})
    c.loop(1, invariant=["True"], variant="tmp2", pure=True, types={"deep": "int"})
    out["IsVarDeclaration.var_declaration"] = c
    return out


def parser_contracts():
    """ConstantExpressionParser (recursive descent over the #if expression): the cursor
    self.index never moves backwards"""
    from ..pyvc.values import ObjCell
    PPF = R + "is_preprocessor_statement.py"
    out = {}

    def setup(E, st):
        cls = E.repo.find_class(PPF, "ConstantExpressionParser")
        ctx = T.make_context(E, st, minhist=0)
        idx = z3.Int(fresh_name("index"))
        st.assume(idx >= 0)
        return {"self": st.alloc(ObjCell(cls, {"directive": Opaque("directive"), "context": ctx, "index": SInt(idx)}))}
    for meth in ("parse_constant_expression", "parse_expression", "parse_function_macro",
                 "parse_potential_binary_operator", "skip_ws"):
        c = Contract(f"{PPF}:ConstantExpressionParser.{meth}", setup=setup, result=None)
        c.modifies = ["self.index:int"]
        c.rais("CParsingError")
        c.rais("RecursionError")
        c.ens("self.index >= old(self.index)", "cursor_monotone")
        if meth == "parse_function_macro":
            c.loop(0, invariant=["self.index >= old(self.index)"], havoc=["self.index"], pure=True,
                   variant="ntok(self.context) - self.index")
        out["ConstantExpressionParser." + meth] = c
    c = Contract(f"{PPF}:ConstantExpressionParser.parse", setup=setup, result=("bool", "int"))
    c.modifies = ["self.index:int"]
    c.rais("CParsingError")
    c.ens("result[0] is True and result[1] > old(self.index)", "parsed_something")
    out["ConstantExpressionParser.parse"] = c
    return out


def with_hash(setup):
    """run() stores the '#' token in self.hash before it dispatches"""
    def setup2(E, st):
        d = setup(E, st)
        tl = T._ctx_tokens(st, d["context"])
        st.set_cell(d["self"], st.cell(d["self"]).with_attr("hash", Tok(tl.stream, z3.Int(fresh_name("hash_idx")))))
        return d
    return setup2


def install(E):
    """models of library-like helpers used by the primaries"""
    # Macro.from_token(token, **kwargs): a dataclass instance built from a token (pure)
    E.models["norminette/context.py:Macro.from_token"] = lambda E_, s, args, kw: [(s, Opaque("macro"))]
    prev = E.attr_models.get("MacroList")

    def macrolist_attr(E_, s, v, attr):
        # context.preproc.macros: a list of unknown content; append only grows it
        if attr == "append":
            from ..pyvc.builtins_ import method
            return [(s, method("macros.append", lambda E2, s2, a, k: [(s2, None)]))]
        return prev(E_, s, v, attr) if prev else None
    E.attr_models["MacroList"] = macrolist_attr


def directive_contracts(repo):
    """one contract per check_<directive> method of IsPreprocessorStatement (the targets of
    the computed getattr in run): a match, at an index not before the argument"""
    import ast
    PPF, PPC = "is_preprocessor_statement.py", "IsPreprocessorStatement"
    out = {}
    cls = repo.find_class(R + PPF, PPC)
    for b in cls.node.body:
        if isinstance(b, ast.FunctionDef) and b.name.startswith("check_"):
            params = [a.arg for a in b.args.args][2:]
            c = method_contract(PPF, PPC, b.name, {p: "nat" for p in params}, ("bool", "int"))
            c.setup = with_hash(c.setup)
            c.req(IDENT_HAS_VALUE)
            c.rais("CParsingError")
            c.ens(f"result[0] is True and result[1] >= {params[0]}", "monotone")
            writes(*PREPROC, emits=True)(c)        # may report PREPROC_BAD_*
            if b.name == "check_define":
                c.loop(0, invariant=["index >= old(index)"], variant="ntok(context) - index", pure=True)
                c.ens("kind_in(context, index, 'IDENTIFIER')", "macro_name_is_an_identifier")
            if b.name in ("check_ifdef", "check_ifndef", "check_undef"):
                c.ens("kind_in(context, index, 'IDENTIFIER')", "argument_is_an_identifier")
            out[PPC + "." + b.name] = c
    return out


# ------------------------------------------------------------------------------ primaries
def primary_contracts():
    out = {}
    def control_extra(c):
        not_empty_line(c)
        may_raise(c)
        writes(SUB)(c)
        # a control statement whose body is empty (`while (x) ;`, `else ;`, the semicolon possibly on
        # the next line) is complete: it opens no scope for a body (C07: the nesting depth is back at
        # file level after each function); switch / case / default always open one
        c.forall_const("q", "int")
        # the lexer never produces an ESCAPED_NEWLINE token (finite check on Lexer's Token(...) calls, C07)
        c.req("forall(0, ntok(context), lambda k: not kind_in(context, k, 'ESCAPED_NEWLINE'))")
        c.ens("implies(result[0] is True and not kind_in(context, e, ('SWITCH', 'CASE', 'DEFAULT')) and "
              "q >= 0 and q < result[1] and kind_in(context, q, 'SEMI_COLON') and "
              "forall(q + 1, result[1], lambda j: kind_in(context, j, ('SPACE', 'TAB', 'NEWLINE'))), "
              "implies(isnone(old(context.sub)), isnone(context.sub)))", "empty_body_opens_no_scope")
    out["IsControlStatement"] = progress_contract(
        "is_control_statement.py", "IsControlStatement", control_extra,
        {0: fwd(lo="1"),
         1: fwd(lo="1", invariant=["i >= e + 1", "forall(e + 1, i, lambda k: kind_in(context, k, ('TAB', 'SPACE')))"])})
    out["IsAssignation"] = progress_contract(
        "is_assignation.py", "IsAssignation", may_raise, {0: fwd("tmp"), 1: fwd(lo="1")})
    out["IsEnumVarDecl"] = progress_contract(
        "is_enum_var_decl.py", "IsEnumVarDecl", may_raise,
        {0: dict(invariant=["i >= 0", "ret is False or i <= ntok(context)"],
                 variant="ite(ret is True, ntok(context) - i, -1)", pure=True, types={"ret": "bool"})})
    # scope = (Function, ControlStructure): such a scope only exists after IsFuncDeclaration
    # matched, so the history is not empty (is_operator reads history[-1])
    out["IsExpressionStatement"] = progress_contract(
        "is_expression_statement.py", "IsExpressionStatement",
        lambda c: (may_raise(c), c.req("hist_len(context) >= 1")))
    out["IsFunctionCall"] = progress_contract(
        "is_function_call.py", "IsFunctionCall", may_raise,
        {0: fwd(types={"typ": "optkind"}), 1: fwd(), 2: fwd(), 3: fwd()})
    out["IsFuncPrototype"] = progress_contract(
        "is_func_prototype.py", "IsFuncPrototype", lambda c: (may_raise(c), c.req(IDENT_HAS_VALUE), writes(*FUNC_POS)(c)),
        {0: fwd("read", "1"), 1: fwd("read", "1")})
    out["IsPreprocessorStatement"] = progress_contract(
        "is_preprocessor_statement.py", "IsPreprocessorStatement",
        lambda c: (may_raise(c), c.req(IDENT_HAS_VALUE), writes("self.hash:opaque", *PREPROC, emits=True)(c)))
    out["IsVarDeclaration"] = progress_contract(
        "is_var_declaration.py", "IsVarDeclaration", lambda c: (may_raise(c), c.rais("IndexError"), writes(VARS_NAME)(c)),
        {0: dict(invariant=["tmp <= i - 1"], variant="tmp + ntok(context) + 1", pure=True),
         1: dict(invariant=["ret is False or (i >= 1 and i <= ntok(context))"],
                 variant="ite(ret is True, ntok(context) - i, -1)", pure=True, types={"ret": "bool"},
                 havoc=["context.scope.vars_name:opaque"])})
    out["IsUserDefinedType"] = progress_contract(
        "is_user_defined_type.py", "IsUserDefinedType", lambda c: (may_raise(c), writes(SUB, VARS_NAME)(c)),
        {0: fwd(types={"p": "int"}), 1: fwd(types={"p": "int", "enum": "bool"})})
    out["IsTernary"] = progress_contract("is_ternary.py", "IsTernary", None, {0: fwd(), 1: fwd()})
    out["IsLabel"] = progress_contract("is_label.py", "IsLabel", None, {0: fwd()})
    out["IsDeclaration"] = progress_contract("is_declaration.py", "IsDeclaration", None,
                                             {0: fwd(types={"p": "int", "ident": opttok})})
    out["IsAmbiguousDeclaration"] = progress_contract(
        "is_ambiguous_declaration.py", "IsAmbiguousDeclaration", not_empty_line,
        {0: fwd(invariant=["i >= 0", "i > 0 or i == e"])})
    out["IsCast"] = progress_contract("is_cast.py", "IsCast", may_raise, {0: fwd()})
    return out


# ------------------------------------------------------------------------------ jobs
INSTALLS = ["vp.specs.registry", "vp.specs.primaries"]


def all_contracts(repo):
    """name -> contract, everything in this module that is checked against a real body"""
    out = {}
    out.update(helper_contracts())
    out.update(rule_helper_contracts())
    out.update(directive_contracts(repo))
    out.update(parser_contracts())
    out.update(primary_contracts())
    for c in out.values():
        c.check_frame = True
    return out


def _std(E):
    """call-site contracts: every function is verified against the contracts of the others"""
    from .context import skip_nest_contract
    sn = skip_nest_contract()
    E.contracts[sn.key] = sn
    for n, c in all_contracts(E.repo).items():
        if c.key.endswith("Primary.run") or n in primary_contracts():
            continue            # primaries are not called by each other
        E.contracts[c.key] = c


def job(E, name):
    _std(E)
    return all_contracts(E.repo)[name], None


def jobs(repo):
    return [(n, "vp.specs.primaries", "job", (n,)) for n in all_contracts(repo)]


def covered_loops(repo):
    """(function key, line of the loop) for every loop whose termination is an obligation of a
    contract in this module (a variant that is checked against the real body)"""
    import ast
    out = set()
    for c in all_contracts(repo).values():
        if not any(sp.variant for sp in c.loops.values()):
            continue
        f = repo.find_function(c.key)
        body = list(f.node.body)
        if c.body_slice is not None:
            body, _ = c.body_slice(body)
        loops = [n for st_ in body for n in ast.walk(st_) if isinstance(n, (ast.While, ast.For))]
        loops.sort(key=lambda n: (n.lineno, n.col_offset))
        for k, sp in c.loops.items():
            if sp.variant and k < len(loops):
                out.add((c.key, loops[k].lineno))
    return out
