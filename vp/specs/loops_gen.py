"""C05(b): generated termination obligations for the cursor loops of the rules.

For every `while` loop whose guard reads the token cursor (check_token / peek_token with a
local variable as index) two obligations are generated from the real loop, executed once
by pyvc in isolation over arbitrary values of its free variables:

  exit_at_eof : with the cursor at or past the end of the token list the guard is falsy, or
                the body leaves the loop (break / return / raise);
  progress    : one iteration that continues the loop moves the cursor strictly forward
                (backward for loops that count down).

Forward loops with both obligations run at most len(tokens) iterations; exceptions count as
termination here (which exceptions may escape is another obligation)."""
import ast

import z3

from ..pyvc.values import (SInt, SBool, SKind, SOpt, Opaque, Ref, ObjCell, ListCell, FuncRef, ClassRef, Raised, ExcVal,
                           Undefined, int_term, bool_term, mk_int, fresh_name)
from ..pyvc.state import State
from ..pyvc.ops import Unsupported, truth
from ..pyvc.spec import Contract, SpecError
from ..models import tokens as T
from ..frames import scan

CURSOR_CALLS = ("check_token", "peek_token")


def loop_sites(repo):
    out = []
    for rel, tree in scan.iter_modules(repo):
        if not (rel.startswith("norminette/rules/") or rel in ("norminette/context.py", "norminette/registry.py")):
            continue
        for cls in tree.body:
            if not isinstance(cls, ast.ClassDef):
                continue
            for fn in cls.body:
                if not isinstance(fn, ast.FunctionDef):
                    continue
                loops = [n for n in ast.walk(fn) if isinstance(n, (ast.While, ast.For))]
                loops.sort(key=lambda n: (n.lineno, n.col_offset))
                for k, lp in enumerate(loops):
                    if isinstance(lp, ast.While):
                        out.append({"file": rel, "cls": cls, "fn": fn, "ordinal": k, "node": lp,
                                    "name": f"{cls.name}.{fn.name}.loop{k}"})
    return out


def cursor_of(test):
    """local variable used as index of check_token / peek_token in the guard"""
    for x in ast.walk(test):
        if isinstance(x, ast.Call) and isinstance(x.func, ast.Attribute) and x.func.attr in CURSOR_CALLS and x.args:
            a = x.args[0]
            if isinstance(a, ast.Name):
                return a.id, 0
            if isinstance(a, ast.BinOp) and isinstance(a.left, ast.Name) and isinstance(a.right, ast.Constant) \
                    and isinstance(a.op, (ast.Add, ast.Sub)):
                return a.left.id, (a.right.value if isinstance(a.op, ast.Add) else -a.right.value)
            if isinstance(a, ast.Attribute) and isinstance(a.value, ast.Name) and a.value.id == "self":
                return "self." + a.attr, 0
    return None, 0


def cursor_in_body(node):
    """for a loop whose guard is a counter (`while depth > 0`, `while p`): the local variable that
    the body uses as index of check_token / peek_token and moves itself"""
    moved = {t.id for x in ast.walk(node) for t in ([x.target] if isinstance(x, ast.AugAssign) else
                                                    x.targets if isinstance(x, ast.Assign) else [])
             if isinstance(t, ast.Name)}
    count = {}
    for st in node.body:
        for x in ast.walk(st):
            if isinstance(x, ast.Call) and isinstance(x.func, ast.Attribute) and x.func.attr in CURSOR_CALLS and x.args:
                a = x.args[0]
                if isinstance(a, ast.BinOp) and isinstance(a.left, ast.Name):
                    a = a.left
                if isinstance(a, ast.Name) and a.id in moved:
                    count[a.id] = count.get(a.id, 0) + 1
    if not count:
        return None
    return max(sorted(count), key=lambda k: count[k])


def direction(node, cur):
    dec = inc = False
    for x in ast.walk(node):
        if isinstance(x, ast.AugAssign) and ast.unparse(x.target) == cur:
            if isinstance(x.op, ast.Sub):
                dec = True
            if isinstance(x.op, ast.Add):
                inc = True
        if isinstance(x, ast.Assign) and any(ast.unparse(t) == cur for t in x.targets):
            src = ast.unparse(x.value)
            if "skip_nest_reverse" in src or f"{cur} - " in src:
                dec = True
            else:
                inc = True
    if dec and not inc:
        return "backward"
    return "forward"


def free_names(node):
    """names read in the loop (approximation: every Name that is loaded)"""
    loads, stores = set(), set()
    for x in ast.walk(node):
        if isinstance(x, ast.Name):
            (loads if isinstance(x.ctx, ast.Load) else stores).add(x.id)
    return loads


INDEX_FUNCS = ("check_token", "peek_token", "skip_ws", "skip_nest", "eol", "skip_nest_reverse", "skip_misc_specifier",
               "parenthesis_contain", "is_operator", "is_glued_operator", "check_type_specifier", "check_identifier")


def guess_value(E, st, name, node, fnnode):
    """typed arbitrary value for a free local of the loop, from how the function uses it"""
    as_index = as_kinds = arith = cmp_int = boolish = appended = cmp_str = False
    for x in ast.walk(fnnode):
        if isinstance(x, ast.Call) and isinstance(x.func, ast.Attribute):
            if x.func.attr in INDEX_FUNCS and x.args:
                a0 = x.args[0]
                if any(isinstance(n, ast.Name) and n.id == name for n in ast.walk(a0)):
                    as_index = True
                if x.func.attr == "check_token" and len(x.args) > 1 and isinstance(x.args[1], ast.Name) \
                        and x.args[1].id == name:
                    as_kinds = True
            if x.func.attr in ("append", "extend") and isinstance(x.func.value, ast.Name) and x.func.value.id == name:
                appended = True
        if isinstance(x, ast.AugAssign) and isinstance(x.target, ast.Name) and x.target.id == name \
                and isinstance(x.value, ast.Constant) and isinstance(x.value.value, int):
            arith = True
        if isinstance(x, ast.Compare) and isinstance(x.left, ast.Name) and x.left.id == name:
            for c in x.comparators:
                if isinstance(c, ast.Constant) and isinstance(c.value, int) and not isinstance(c.value, bool):
                    cmp_int = True
                if isinstance(c, ast.Constant) and isinstance(c.value, str):
                    cmp_str = True
        if isinstance(x, ast.Assign) and any(isinstance(t, ast.Name) and t.id == name for t in x.targets) \
                and isinstance(x.value, ast.Constant) and isinstance(x.value.value, bool):
            boolish = True
    if as_kinds and not as_index:
        from ..pyvc.values import SKindSet
        return SKindSet(z3.Array(fresh_name(name), z3.IntSort(), z3.BoolSort()))
    if as_index or arith or cmp_int:
        return SInt(z3.Int(fresh_name(name)))
    if boolish:
        return SOpt(z3.Bool(fresh_name(name + "_none")), SBool(z3.Bool(fresh_name(name))))
    if appended:
        ln = z3.Int(fresh_name(name + "_len"))
        st.assume(ln >= 0)
        return st.alloc(ObjCell("SymList", {"__len__": SInt(ln)}))
    if cmp_str:
        return SOpt(z3.Bool(fresh_name(name + "_none")), SKind(z3.Int(fresh_name(name))))
    return Opaque("free:" + name)


# loops that rely on a witness their primary establishes: a token of the given kind lies
# ahead (the primary raises CParsingError otherwise)
WITNESS = {
    "CheckCommentLineLen.run.loop0": (("COMMENT", "MULT_COMMENT"),
                                      "IsComment.run matched: a comment token exists in the statement"),
    "CheckPreprocessorDefine.run.loop0": (("RPARENTHESIS",),
                                          "IsPreprocessorStatement.check_define raises 'Invalid macro function "
                                          "definition' unless the parameter list is closed"),
    "CheckPreprocessorInclude.run.loop0": (("MORE_THAN",),
                                           "IsPreprocessorStatement.check_include raises 'Invalid file argument' unless "
                                           "the <...> path is closed"),
}


def assumed_helper_contracts():
    """weak call-site contracts of cursor helpers that are not (yet) verified: result is an
    index not before the argument; they are pure.  Listed as assumptions in the evidence."""
    P = "norminette/context.py:Context."
    out = []
    for fn, params, res, ens in (
        ("skip_misc_specifier", "pos", "int", ["result >= pos"]),
        ("skip_typedef", "pos", "int", []),
        ("skip_nest_reverse", "pos", "int", ["result <= pos"]),
        ("check_type_specifier", "pos", ("bool", "int"), []),
        ("check_identifier", "pos", ("bool", "int"), ["result[1] >= pos"]),
        ("parenthesis_contain", "i", ("optkind", "int"), ["result[1] >= i"]),
        ("is_operator", "pos", "bool", []),
        ("is_glued_operator", "pos", "bool", []),
        ("find_in_scope", "value", "int", []),
    ):
        c = Contract(P + fn, result=res)
        for e in ens:
            c.ens(e)
        c.rais("CParsingError")
        c.assumed = True
        out.append(c)
    return out


def analyse(E, site):
    """-> list of (obligation name, status, detail) ; status in discharged/failed/undecided/skipped"""
    node, fn, cls = site["node"], site["fn"], site["cls"]
    cur, off = cursor_of(node.test)
    name = site["name"]
    counter_guard = False
    if cur is None:
        cur, off = cursor_in_body(node), 0
        counter_guard = True
        if cur is not None and any(isinstance(x, ast.Name) and x.id == cur for x in ast.walk(node.test)):
            return [(name, "skipped", {"reason": "the guard compares the cursor with a bound (no counter, no token test)",
                                       "guard": ast.unparse(node.test)[:120]})]
        if cur is None:
            return [(name, "skipped", {"reason": "neither the guard nor the body reads the token list through a cursor the "
                                                 "loop moves", "guard": ast.unparse(node.test)[:120]})]
    dirn = direction(node, cur)
    results = []
    fref = FuncRef(site["file"], f"{cls.name}.{fn.name}", fn, ClassRef(site["file"], cls.name, cls))

    def fresh_state():
        st = State()
        # a check rule runs after Registry.run_rules appended the matching primary to the
        # history; IsExpressionStatement only runs inside a function body (finite checks, C07)
        nonempty_hist = site["file"].startswith("norminette/rules/check_") or cls.name == "IsExpressionStatement"
        ctx = T.make_context(E, st, scope_in_stream=False, minhist=1 if nonempty_hist else 0)
        fr = {}
        params = [a.arg for a in fn.args.args]
        is_ctx_method = site["file"] == "norminette/context.py"
        if is_ctx_method:
            fr["self"] = ctx
        else:
            fr["self"] = st.alloc(ObjCell(ClassRef(site["file"], cls.name, cls), {"context": ctx, "index": SInt(z3.Int(fresh_name("index")))}))
            fr["context"] = ctx
        for nm in sorted(free_names(node)):
            if nm in fr or nm in ("self", "context"):
                continue
            if E.repo.module(site["file"]).top.get(nm) is not None or nm in E.repo.module(site["file"]).imports:
                continue
            if E.builtin(nm) is not None:
                continue
            fr[nm] = guess_value(E, st, nm, node, fn)
        return st, fr, ctx

    def cursor_term(st):
        if cur.startswith("self."):
            return int_term(st.cell(st.locals["self"]).attrs[cur[5:]])
        return int_term(st.locals[cur])

    def auto_inner_specs():
        """nested loops are cut with the invariant 'the cursor has not moved back'"""
        from ..pyvc.loops import LoopSpec
        loops = [n for n in ast.walk(fn) if isinstance(n, (ast.While, ast.For))]
        loops.sort(key=lambda n: (n.lineno, n.col_offset))
        for k, lp in enumerate(loops):
            if lp is node:
                continue
            inside = any(x is lp for x in ast.walk(node))
            if inside and not cur.startswith("self."):
                inv = f"{cur} >= __c0" if dirn == "forward" else f"{cur} <= __c0"
                E.loop_specs[(fref.key, k)] = LoopSpec(invariant=[inv], pure=False)
    saved_specs = dict(E.loop_specs)
    nob0 = len(E.obligations)
    try:
        auto_inner_specs()
        if name in WITNESS:
            kinds, why = WITNESS[name]
            st, fr, ctx = fresh_state()
            st.frames.append(fr)
            E.current_func.append(fref)
            try:
                if cur not in st.locals:
                    st.locals[cur] = SInt(z3.Int(fresh_name(cur)))
                c0 = cursor_term(st)
                tl = st.cell(ctx).attrs["tokens"]
                cell = st.cell(tl.stream)
                n = int_term(tl.length)
                from ..pyvc.values import KINDS
                k = z3.Select(cell.kind, int_term(tl.off) + c0)
                st.assume(z3.And(c0 >= 0, c0 < n))
                st.locals["__c0"] = SInt(c0)
                at_w = z3.Or(*[k == KINDS.code(x) for x in kinds])
                ok_exit, ok_step = True, True
                for s1, g in E.ev(node.test, st):
                    if isinstance(g, Raised):
                        continue
                    for s2, b in E.split(s1, truth(g, s1)):
                        if not b:
                            continue
                        if E.feasible(s2, at_w):
                            ok_exit = False          # the loop does not stop at the witness
                        for s3, fl in E.exec_block(node.body, s2):
                            if fl[0] in ("next", "continue"):
                                sv = z3.Solver()
                                sv.set("timeout", 5000)
                                sv.add(*s3.pc)
                                sv.add(cursor_term(s3) != c0 + 1)
                                if sv.check() != z3.unsat:
                                    ok_step = False
                results.append((name + ".exit_at_witness", "discharged" if ok_exit else "failed",
                                {"witness": list(kinds), "established_by": why}))
                results.append((name + ".step_is_one", "discharged" if ok_step else "failed", {"cursor": cur}))
            finally:
                E.current_func.pop()
            return results
        # ---- exit at end of input
        st, fr, ctx = fresh_state()
        st.frames.append(fr)
        E.current_func.append(fref)
        try:
            n = int_term(st.cell(ctx).attrs["tokens"].length)
            if not cur.startswith("self.") and cur not in st.locals:
                st.locals[cur] = SInt(z3.Int(fresh_name(cur)))
            c0 = cursor_term(st)
            if dirn == "forward":
                st.assume(c0 + off >= n)
                st.assume(c0 >= 0)
            else:
                st.assume(c0 + off < -n)        # below -len: the helpers answer None there
            st.locals["__c0"] = SInt(c0)
            pend = []
            for s1, g in E.ev(node.test, st):
                if isinstance(g, Raised):
                    continue            # raising is a way out
                for s2, b in E.split(s1, truth(g, s1)):
                    if not b:
                        continue
                    for s3, fl in E.exec_block(node.body, s2):
                        if fl[0] in ("next", "continue"):
                            pend.append(s3)
            if counter_guard:
                # the guard is a counter: past the end of the input nothing can change it any more,
                # so an iteration that neither leaves nor makes the guard false repeats for ever
                again = []
                for s3 in pend:
                    for s4, g in E.ev(node.test, s3):
                        if isinstance(g, Raised):
                            continue
                        for s5, b in E.split(s4, truth(g, s4)):
                            if b:
                                again.append(s5)
                pend = again
            ok = True
            for s3 in pend:
                sv = z3.Solver()
                sv.set("timeout", 10000)
                sv.add(*s3.pc)
                r = sv.check()
                if r == z3.sat:
                    ok = False
                elif r == z3.unknown:
                    raise Unsupported("solver unknown on an exit_at_eof obligation")
            results.append((name + ".exit_at_eof", "discharged" if ok else "failed",
                            {"cursor": cur, "direction": dirn, "guard": ast.unparse(node.test)[:100]}))
        finally:
            E.current_func.pop()
        if counter_guard:
            return results          # progress of a counter loop is its exit at the end of the input
        # ---- progress
        st, fr, ctx = fresh_state()
        st.frames.append(fr)
        E.current_func.append(fref)
        try:
            if not cur.startswith("self.") and cur not in st.locals:
                st.locals[cur] = SInt(z3.Int(fresh_name(cur)))
            c0 = cursor_term(st)
            if dirn == "forward":
                st.assume(c0 >= 0)
            st.locals["__c0"] = SInt(c0)
            bad = False
            for s1, g in E.ev(node.test, st):
                if isinstance(g, Raised):
                    continue
                for s2, b in E.split(s1, truth(g, s1)):
                    if not b:
                        continue
                    for s3, fl in E.exec_block(node.body, s2):
                        if fl[0] in ("next", "continue"):
                            c1 = cursor_term(s3)
                            goal = c1 > c0 if dirn == "forward" else c1 < c0
                            s = z3.Solver()
                            s.set("timeout", 5000)
                            s.add(*s3.pc)
                            s.add(z3.Not(goal))
                            r = s.check()
                            if r == z3.sat:
                                bad = True
                            elif r == z3.unknown:
                                raise Unsupported("solver unknown on a progress obligation")
            nested = any(isinstance(x, (ast.While, ast.For)) and x is not node for x in ast.walk(node))
            if bad and nested:
                # the nested loops were cut at the weak auto-invariant: a refutation under that
                # abstraction says nothing about the real loop
                results.append((name + ".progress", "undecided",
                                {"reason": "not provable under the auto-invariant of the nested loops"}))
            else:
                results.append((name + ".progress", "failed" if bad else "discharged",
                                {"cursor": cur, "direction": dirn}))
        finally:
            E.current_func.pop()
        # invariants of nested loops generated on the way have to hold as well
        from ..pyvc.solver import discharge
        for ob in E.obligations[nob0:]:
            if discharge(ob, 5000) != "discharged":
                results = [r for r in results if not r[0].endswith(".progress")]
                why = ("a call-site precondition is not provable in the isolated loop state: " + ob.name
                       if ob.kind == "callsite-pre" else
                       "a nested loop may move the cursor back (auto-invariant not proved)")
                results.append((name + ".progress", "undecided", {"reason": why}))
                break
    except (Unsupported, SpecError) as e:
        results.append((name, "undecided", {"unsupported-construct": str(e)[:200]}))
    except (TypeError, AttributeError, KeyError, IndexError, ValueError, z3.Z3Exception) as e:
        results.append((name, "undecided", {"engine-limitation": f"{type(e).__name__}: {str(e)[:160]}"}))
    finally:
        E.loop_specs = saved_specs
        del E.obligations[nob0:]
    return results
