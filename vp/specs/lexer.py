"""L0-L3 contracts: the lexer (C09, C10, C12, C05c)."""
import z3

from ..pyvc.spec import Contract
from ..pyvc.values import (SInt, SBool, SStr, SStrV, SOpt, Ref, ObjCell, Builtin, int_term, mk_int, fresh_name)
from ..models import lexer as LX

L = LX.LEXER + ":Lexer."


def lexer_setup(extra=None):
    def setup(E, st):
        lx, src = LX.make_lexer(E, st)
        d = {"self": lx}
        for k, ty in (extra or {}).items():
            d[k] = E.fresh_value(st, ty, k) if isinstance(ty, str) else ty
        return d
    return setup


def raw_peek_contract(collect):
    c = Contract(L + "raw_peek", setup=lexer_setup({"offset": "nat", "collect": collect}))
    c.variant = f"collect={collect}"
    c.ens("isnone(result) == (lpos(self) + offset >= srclen(self))", "none_iff_eof")
    c.ens("implies(not isnone(result), len(result) == min(collect, srclen(self) - lpos(self) - offset))", "length")
    for i in range(collect):
        c.ens(f"implies(not isnone(result) and len(result) > {i}, "
              f"ord_at(result, {i}) == ch(self, lpos(self) + offset + {i}))", f"char{i}")
    c.ens("lpos(self) == old(lpos(self)) and lline(self) == old(lline(self)) and lcol(self) == old(lcol(self))",
          "pure")
    c.mustfail("isnone(result)", "always_none")
    return c


def peek_result(E, st, name, frame):
    return SOpt(z3.Bool(fresh_name(name + "_none")),
                (SStrV([z3.Int(fresh_name(name + "_c0")), z3.Int(fresh_name(name + "_c1"))],
                       z3.Int(fresh_name(name + "_len"))), SInt(z3.Int(fresh_name(name + "_size")))))


def peek_contract(times):
    c = Contract(L + "peek", setup=lexer_setup({"offset": "nat", "times": times}), result=peek_result)
    c.variant = f"times={times}"
    P = "(lpos(self) + offset)"
    c.req("offset >= 0 and times >= 1 and times <= 2")
    c.ens(f"isnone(result) == ({P} >= srclen(self))", "none_iff_eof")
    c.ens("lpos(self) == old(lpos(self)) and lline(self) == old(lline(self)) and lcol(self) == old(lcol(self))",
          "pure")
    # one logical character: the respelling map of the statement (C12)
    c.ens(f"implies(not isnone(result) and times == 1, len(result[0]) == 1 and "
          f"ord_at(result[0], 0) == respell_char(self, {P}) and result[1] == respell_size(self, {P}))", "respell1")
    # two logical characters: composition
    P2 = f"({P} + respell_size(self, {P}))"
    c.ens(f"implies(not isnone(result) and times == 2 and {P2} < srclen(self), len(result[0]) == 2 and "
          f"ord_at(result[0], 0) == respell_char(self, {P}) and ord_at(result[0], 1) == respell_char(self, {P2}) "
          f"and result[1] == respell_size(self, {P}) + respell_size(self, {P2}))", "respell2")
    c.ens(f"implies(not isnone(result) and times == 2 and {P2} >= srclen(self), len(result[0]) == 1 and "
          f"ord_at(result[0], 0) == respell_char(self, {P}) and result[1] == respell_size(self, {P}))",
          "respell2_at_eof")
    c.ens("implies(not isnone(result), result[1] >= 1 and lpos(self) + offset + result[1] <= srclen(self))", "size_in_bounds")
    c.mustfail("implies(not isnone(result), result[1] == 1)", "size_always_one")
    return c


def sp_ord_at(E, s, args, kw):
    v, i = args
    if isinstance(v, SOpt):
        v = v.val
    if isinstance(v, str):
        return [(s, ord(v[i]))]
    if isinstance(v, SStr):
        return [(s, mk_int(z3.StrToCode(z3.SubString(v.t, i, 1))))]
    if i >= len(v.chars):
        return [(s, -1)]          # beyond the capacity of a short string: no character
    return [(s, mk_int(v.chars[i]))]


def install(E):
    E.spec_builtins["ord_at"] = Builtin("ord_at", sp_ord_at)


F_POS, F_LINE, F_COL = "self._Lexer__pos", "self._Lexer__line", "self._Lexer__line_pos"


def pop_contract(use_escape, times="nat"):
    c = Contract(L + "pop", setup=lexer_setup({"times": times, "use_spaces": "bool", "use_escape": use_escape}),
                 result="str")
    c.variant = f"use_escape={use_escape}"
    c.req("Pos(self) and times >= 0")
    if use_escape:
        # known-finding class K7 (excluded, replayed natively): the character after a
        # backslash is a tab, or is itself spelled as a digraph / trigraph
        c.req("forall(0, srclen(self), lambda p: implies(respell_char(self, p) == 92 and "
              "p + respell_size(self, p) < srclen(self), "
              "ch(self, p + respell_size(self, p)) != 9 and respell_size(self, p + respell_size(self, p)) == 1))")
    c.rais("UnexpectedEOF")
    c.rais("MaybeInfiniteLoop")
    c.ens_exc("UnexpectedEOF", "Pos(self)", "position_kept")
    c.ens_exc("UnexpectedEOF", "lpos(self) == srclen(self)", "only_at_end_of_input")
    c.ens("Pos(self)", "position_kept")
    c.ens("lpos(self) >= old(lpos(self)) + times and lpos(self) <= srclen(self)", "progress")
    c.modifies = [F_POS + ":int", F_LINE + ":int", F_COL + ":int"]
    c.pure = False
    c.loop(0, index="it0", invariant=["Pos(self)", "lpos(self) >= old(lpos(self)) + it0"],
           havoc=[F_POS, F_LINE, F_COL], types={"result": "str", "char": "str", "size": "int"})
    c.loop(1, index="it1", invariant=["Pos(self)", "lpos(self) >= old(lpos(self)) + __it0"],
           havoc=[F_POS, F_LINE, F_COL], types={"char": "str", "size": "int"})
    SZ = "(lpos(self) + size)"
    c.loop(3, invariant=[f"rawcol(self, {SZ}) == rawcol(self, lpos(self)) + size and "
                         f"rawline(self, {SZ}) == rawline(self, lpos(self)) and size >= 1 and {SZ} <= srclen(self)",
                         "len(char) >= 1 and ord_at(char, 0) == 92"],
           variant=f"srclen(self) - {SZ}", types={"char": "str", "temp": "optstr"})
    c.mustfail("lpos(self) == old(lpos(self))", "never_advances")
    return c


# ------------------------------------------------------------------ call-site contract of pop
def pop_result(E, st, name, frame):
    t, us, ue = frame.get("times"), frame.get("use_spaces"), frame.get("use_escape")
    if isinstance(t, int) and not isinstance(t, bool) and 1 <= t <= 3 and us is False and ue is False:
        return SStrV([z3.Int(fresh_name(f"{name}_c{i}")) for i in range(t)], z3.IntVal(t))
    return SStr(z3.String(fresh_name(name)))


def logical_offsets(k):
    """spec expressions of the raw offsets of the first k logical characters from p0"""
    offs = ["old(lpos(self))"]
    for i in range(1, k + 1):
        offs.append(f"({offs[-1]} + respell_size(self, {offs[-1]}))")
    return offs


def pop_callsite_contract():
    c = Contract(L + "pop", result=pop_result)
    c.req("Pos(self) and times >= 0")
    # case A: the first `times` (1..3) logical characters exist and none is a backslash --
    # then pop cannot run out of input nor loop over splices
    caseA = []
    for k in (1, 2, 3):
        offs = ["lpos(self)"]
        for i in range(1, k + 1):
            offs.append(f"({offs[-1]} + respell_size(self, {offs[-1]}))")
        caseA.append(f"(times == {k} and {offs[k - 1]} < srclen(self) and "
                     + " and ".join(f"respell_char(self, {offs[i]}) != 92" for i in range(k)) + ")")
    notA = "not (" + " or ".join(caseA) + ")"
    c.rais("UnexpectedEOF", only_if=notA)
    c.rais("MaybeInfiniteLoop", only_if=notA)
    c.ens_exc("UnexpectedEOF", "Pos(self) and lpos(self) == srclen(self)", "at_end_of_input")
    c.modifies = [F_POS + ":int", F_LINE + ":int", F_COL + ":int"]
    c.pure = False
    c.ens("Pos(self)", "position_kept")
    c.ens("lpos(self) >= old(lpos(self)) + times and lpos(self) <= srclen(self)", "progress")
    c.ens("implies(not use_spaces and not use_escape, len(result) == times)", "one_char_per_step")
    for k in (1, 2, 3):
        offs = logical_offsets(k)
        nobs = " and ".join(f"respell_char(self, {offs[i]}) != 92" for i in range(k))
        inb = f"{offs[k - 1]} < srclen(self)"
        chars = " and ".join(f"ord_at(result, {i}) == respell_char(self, {offs[i]})" for i in range(k))
        c.ens(f"implies(times == {k} and not use_spaces and not use_escape and {inb} and {nobs}, "
              f"lpos(self) == {offs[k]} and {chars})", f"functional{k}")
    # use_escape with a non-backslash first character behaves like the plain case
    c.ens("implies(times == 1 and not use_spaces and use_escape and respell_char(self, old(lpos(self))) != 92, "
          "lpos(self) == old(lpos(self)) + respell_size(self, old(lpos(self))) and len(result) == 1 and "
          "ord_at(result, 0) == respell_char(self, old(lpos(self))))", "functional1_escape_mode")
    return c


def pop_functional_variant(k):
    """case A of the call-site contract: concrete times = k, no flags, no backslash among the
    first k logical characters; verified with the outer loop unrolled"""
    c = Contract(L + "pop", setup=lexer_setup({"times": k, "use_spaces": False, "use_escape": False}))
    c.variant = f"functional,times={k}"
    offs = ["lpos(self)"]
    for i in range(1, k + 1):
        offs.append(f"({offs[-1]} + respell_size(self, {offs[-1]}))")
    c.req("Pos(self)")
    c.req(" and ".join(f"respell_char(self, {offs[i]}) != 92" for i in range(k)) + f" and {offs[k - 1]} < srclen(self)")
    full = pop_callsite_contract()
    for name, e in full.ensures:
        if name in ("position_kept", "progress", "one_char_per_step", f"functional{k}"):
            c.ens(e, name)
    c.rais("UnexpectedEOF", when="False")
    # the outer loop is unrolled (times is the constant k); its iteration number is visible to
    # the invariant of the splice loop as __it0: at the head of the splice loop of iteration i
    # the cursor is at the i-th logical character
    if k > 1:
        c.loop(0, index="it0", unroll=k)
        at = " and ".join(f"implies(__it0 == {i}, lpos(self) == {logical_offsets(k)[i]})" for i in range(k))
    else:
        at = "lpos(self) == old(lpos(self))"
    c.loop(1, index="it1", invariant=["Pos(self)", "it1 == 0", at],
           havoc=[F_POS, F_LINE, F_COL], types={"char": "str", "size": "int"}, unroll=None)
    c.mustfail("ord_at(result, 0) == 65", "always_A")
    return c


# ------------------------------------------------------------------ sub-parsers (L2)
TOKEN = "norminette/lexer/tokens.py"


def token_result(E, st, name, frame):
    from ..pyvc.values import SKind, Opaque
    cls = E.repo.find_class(TOKEN, "Token")
    tok = st.alloc(ObjCell(cls, {"type": SKind(z3.Int(fresh_name(name + "_type"))),
                                 "pos": (SInt(z3.Int(fresh_name(name + "_line"))), SInt(z3.Int(fresh_name(name + "_col")))),
                                 "value": Opaque("token value")}))
    return SOpt(z3.Bool(fresh_name(name + "_none")), tok)


NO_K7 = ("forall(0, srclen(self), lambda p: implies(respell_char(self, p) == 92 and "
         "p + respell_size(self, p) < srclen(self), "
         "ch(self, p + respell_size(self, p)) != 9 and respell_size(self, p + respell_size(self, p)) == 1))")

P0 = "old(lpos(self))"
UNTOUCHED = "lpos(self) == old(lpos(self)) and lline(self) == old(lline(self)) and lcol(self) == old(lcol(self))"


def parser_contract(name, escape=False):
    c = Contract(L + name, setup=lexer_setup(), result=token_result)
    c.req("Pos(self)")
    if escape:
        c.req(NO_K7)
    c.ens(f"implies(isnone(result), {UNTOUCHED})", "none_means_untouched")
    c.ens("implies(isnone(result), emitted_n() == old(emitted_n()))", "none_means_silent")
    c.ens(f"implies(not isnone(result), result.pos == (rawline(self, {P0}), rawcol(self, {P0})))", "token_position")
    c.ens(f"implies(not isnone(result), Pos(self) and lpos(self) > {P0} and lpos(self) <= srclen(self))", "advances")
    c.modifies = [F_POS + ":int", F_LINE + ":int", F_COL + ":int"]
    c.pure = False
    c.mustfail("isnone(result)", "never_matches")
    return c


LOOP_INV = ["Pos(self)", f"lpos(self) > {P0}"]
HAV = [F_POS, F_LINE, F_COL]


def parser_contracts():
    out = {}
    c = parser_contract("parse_whitespace")
    # completeness: a blank character is always taken (needed by the bad-lexeme branch)
    c.ens("implies(isnone(result) and lpos(self) < srclen(self), ch(self, lpos(self)) != 10 and "
          "ch(self, lpos(self)) != 9 and ch(self, lpos(self)) != 32)", "takes_every_blank")
    out["parse_whitespace"] = c
    c = parser_contract("parse_brackets")
    out["parse_brackets"] = c
    c = parser_contract("parse_operator")
    out["parse_operator"] = c
    c = parser_contract("parse_identifier")
    c.loop(0, invariant=LOOP_INV, havoc=HAV, types={"val": "str", "char": "optstr"}, variant="srclen(self) - lpos(self)")
    out["parse_identifier"] = c
    c = parser_contract("parse_line_comment")
    c.loop(0, invariant=LOOP_INV, havoc=HAV, types={"val": "str"}, variant="srclen(self) - lpos(self)")
    out["parse_line_comment"] = c
    c = parser_contract("parse_multi_line_comment")
    c.loop(0, invariant=LOOP_INV, havoc=HAV, types={"val": "str", "eof": "bool"}, variant="srclen(self) - lpos(self)")
    out["parse_multi_line_comment"] = c
    c = parser_contract("parse_string_literal", escape=True)
    c.rais("MaybeInfiniteLoop")
    c.loop(1, invariant=LOOP_INV, havoc=HAV, types={"val": "str", "char": "str"}, variant="srclen(self) - lpos(self)")
    out["parse_string_literal"] = c
    c = parser_contract("parse_char_literal", escape=True)
    c.rais("MaybeInfiniteLoop")
    c.loop(1, index="it1", invariant=LOOP_INV, havoc=HAV, types={"value": "str", "char": "str", "chars": "int"})
    out["parse_char_literal"] = c
    for name in ("parse_integer_literal", "parse_float_literal"):
        c = parser_contract(name)
        c.rais("UnexpectedEOF")
        c.rais("MaybeInfiniteLoop")
        out[name] = c
    for name in ("parse_operator", "parse_brackets", "parse_whitespace", "parse_identifier", "parse_line_comment",
                 "parse_multi_line_comment"):
        out[name].rais("MaybeInfiniteLoop")      # K1: >= 100 consecutive splices inside pop
        if name not in ("parse_line_comment", "parse_multi_line_comment"):
            out[name].rais("UnexpectedEOF")      # K1: a splice as the very last characters
    return out


def get_next_token_contract():
    c = Contract(L + "get_next_token", setup=lexer_setup(), result=token_result)
    c.req("Pos(self)")
    c.req(NO_K7)
    c.rais("UnexpectedEOF")           # K1 (escapes from parse_string_literal / pop)
    c.rais("MaybeInfiniteLoop")       # K1
    c.ens("Pos(self)", "position_kept")
    c.ens("implies(isnone(result), lpos(self) == srclen(self))", "none_only_at_end")
    c.ens(f"implies(not isnone(result), lpos(self) > {P0} and lpos(self) <= srclen(self))", "advances")
    c.ens(f"implies(not isnone(result), pos_of_some_offset(self, result.pos, {P0}, lpos(self)))",
          "token_position_is_a_true_position")
    c.modifies = [F_POS + ":int", F_LINE + ":int", F_COL + ":int"]
    c.pure = False
    # loop0: one round per skipped bad character; loop1: splices between tokens
    c.loop(0, invariant=["Pos(self)", f"lpos(self) >= {P0}", "lpos(self) <= srclen(self)"], havoc=HAV,
           variant="srclen(self) - lpos(self) + 1", types={"result": "opaque", "char": "optstr", "size": "int"},
           ghost={"p_iter": "lpos(self)"})
    c.loop(1, invariant=["Pos(self)", f"lpos(self) >= {P0}", "lpos(self) <= srclen(self)", "lpos(self) >= __p_iter"],
           havoc=HAV,
           variant="srclen(self) - lpos(self)", types={"size": "int"})
    c.mustfail("isnone(result)", "never_a_token")
    return c


# ------------------------------------------------------------------ job builders for parallel runs
def _std(E):
    """call-site contracts every lexer function is verified against"""
    E.contracts[L + "peek"] = peek_contract(1)
    E.contracts[L + "pop"] = pop_callsite_contract()
    for n, c in parser_contracts().items():
        E.contracts[c.key] = c
    g = get_next_token_contract()
    E.contracts[g.key] = g


def job_raw_peek(E, k):
    c = raw_peek_contract(k)
    return c, c.variant


def job_peek(E, k):
    c = peek_contract(k)
    return c, c.variant


def job_pop(E, which):
    E.contracts[L + "peek"] = peek_contract(1)
    if which == "plain":
        c = pop_contract(False)
    elif which == "escape":
        c = pop_contract(True)
    else:
        c = pop_functional_variant(int(which[len("functional"):]))
    return c, c.variant


def job_parser(E, name):
    _std(E)
    return parser_contracts()[name], None


def job_get_next_token(E):
    _std(E)
    return get_next_token_contract(), None


def lexer_jobs(tier="quick"):
    mod = "vp.specs.lexer"
    jobs = [(f"raw_peek[{k}]", mod, "job_raw_peek", (k,)) for k in (1, 2, 3, 4)]
    jobs += [(f"peek[{k}]", mod, "job_peek", (k,)) for k in (1, 2)]
    jobs += [(f"pop[{w}]", mod, "job_pop", (w,)) for w in ("plain", "escape", "functional1", "functional2")]
    if tier == "thorough":
        # 27 paths through the unrolled outer loop: about two minutes of z3, thorough tier only
        jobs.append(("pop[functional3]", mod, "job_pop", ("functional3",)))
    jobs += [(n, mod, "job_parser", (n,)) for n in parser_contracts()]
    jobs.append(("get_next_token", mod, "job_get_next_token", ()))
    return jobs


INSTALLS = ["vp.models.lexer", "vp.specs.lexer", "vp.specs.errors"]
