"""L9 contracts: slices of norminette/__main__.py:main (C04, C15, C16)."""
import ast

import z3

from ..pyvc.spec import Contract, SpecError
from ..pyvc.values import (SInt, SBool, SStr, SKind, SOpt, Opaque, Ref, ObjCell, ListCell, Builtin, KINDS, int_term,
                           bool_term, mk_int, mk_bool, fresh_name, Raised, ExcVal, ClassRef, PyModule)
from ..pyvc.ops import Unsupported, truth
from ..pyvc.builtins_ import norm_index

MAIN = "norminette/__main__.py:main"
I, B, S = z3.IntSort(), z3.BoolSort(), z3.StringSort()


class Files:
    """symbolic list of File objects: per index, whether processing it raises the fatal
    CParsingError, its number of diagnostics, whether one of them is Error-level"""

    def __init__(self):
        self.n = z3.Int(fresh_name("nfiles"))
        self.fatal = z3.Array(fresh_name("fatal"), I, B)
        self.nerr = z3.Array(fresh_name("nerr"), I, I)
        self.haserr = z3.Array(fresh_name("haserr"), I, B)
        self.path = z3.Array(fresh_name("path"), I, S)


def file_obj(E, st, fl, i):
    errs = st.alloc(ObjCell("ErrorsOfFile", {
        "__len__": mk_int(z3.Select(fl.nerr, i)),
        "status": SKind(z3.If(z3.Select(fl.haserr, i), KINDS.code("Error"), KINDS.code("OK"))),
    }))
    return st.alloc(ObjCell("FileOfList", {"errors": errs, "path": SStr(z3.Select(fl.path, i)), "index": mk_int(i),
                                           "type": Opaque("file.type"), "source": Opaque("file.source"),
                                           "basename": Opaque("file.basename"), "name": Opaque("file.name")}))


def seq_files(E, s, ref):
    fl = s.cell(ref).attrs["fl"]
    return fl.n, (lambda i, s2=None: file_obj(E, s2 if s2 is not None else s, fl, i))


def is_pipeline_loop(st, stmts):
    """a top-level `for` of main() in which every file goes through the tokenizer: its body, or a
    helper function defined in main() that the body calls, constructs a Lexer"""
    if not isinstance(st, ast.For):
        return False
    helpers = {d.name: d for s_ in stmts for d in ast.walk(s_) if isinstance(d, ast.FunctionDef)}

    def has_lexer(node, depth=0):
        for x in ast.walk(node):
            if isinstance(x, ast.Call):
                nm = ast.unparse(x.func)
                if nm == "Lexer":
                    return True
                if nm in helpers and depth < 3 and has_lexer(helpers[nm], depth + 1):
                    return True
        return False
    return has_lexer(st)


def tail_slice(stmts):
    """mechanical extraction: the first top-level `for` whose iterable is the name `files`
    (the per-file pipeline loop; the --use-gitignore filter is nested in an `if`) and everything
    after it"""
    k = None
    for i, st in enumerate(stmts):
        if k is None and (is_pipeline_loop(st, stmts) or
                          (isinstance(st, ast.For) and isinstance(st.iter, ast.Name) and st.iter.id == "files")):
            k = i
    if k is None:
        raise SpecError("main(): no `for ... in files` loop found")
    return stmts[k:], stmts[:k]


def install(E):
    E.seq_models["FileList"] = seq_files

    # opaque per-file pipeline: Lexer(file), list(lexer), Context(...), registry.run(context)
    def m_lexer(E_, s, args, kw):
        return [(s, s.alloc(ObjCell("LexerOpaque", {"file": args[0]})))]
    E.models["norminette/lexer/lexer.py:Lexer"] = m_lexer

    def m_context(E_, s, args, kw):
        return [(s, s.alloc(ObjCell("ContextOpaque", {"file": args[0]})))]
    E.models["norminette/context.py:Context"] = m_context

    def m_exit(E_, s, args, kw):
        return [(s, Raised(ExcVal("SystemExit", (args[0] if args else None,))))]
    E.spec_builtins["__sys_exit__"] = Builtin("sys.exit", m_exit)

    orig_list = E.builtin("list")

    def m_list(E_, s, args, kw):
        if args and isinstance(args[0], Ref) and isinstance(s.cell(args[0]), ObjCell) \
                and s.cell(args[0]).cls == "LexerOpaque":
            return [(s, Opaque("tokens"))]
        return orig_list.fn(E_, s, args, kw)
    E.spec_builtins["list"] = Builtin("list", m_list)


def registry_run_model(fl):
    def attr(E, s, ref, name):
        if name != "run":
            return None

        def run(E_, s_, a, k):
            ctx = a[0]
            f = s_.cell(s_.cell(ctx).attrs["file"])
            i = int_term(f.attrs["index"])
            out = []
            for s2, fatal in E_.split(s_, z3.Select(fl.fatal, i)):
                if fatal:
                    out.append((s2, Raised(ExcVal("CParsingError", (Opaque("msg"),)))))
                else:
                    out.append((s2, None))
            return out
        return [(s, Builtin("registry.run", run))]
    return attr


def main_tail():
    c = Contract(MAIN)
    c.body_slice = tail_slice
    holder = {}

    def setup(E, st):
        fl = Files()
        holder["fl"] = fl
        st.assume(fl.n >= 0)
        K = z3.Int(fresh_name("k"))
        # a file with an Error-level diagnostic has at least one diagnostic
        st.assume(z3.ForAll([K], z3.Implies(z3.Select(fl.haserr, K), z3.Select(fl.nerr, K) > 0)))
        st.assume(z3.ForAll([K], z3.Select(fl.nerr, K) >= 0))
        E.attr_models["RegistryOpaque"] = registry_run_model(fl)
        args = st.alloc(ObjCell("Args", {"no_colors": E.fresh_value(st, "bool", "no_colors"),
                                         "R": Opaque("R")}))
        return {"files": st.alloc(ObjCell("FileList", {"fl": fl, "__len__": SInt(fl.n)})),
                "registry": st.alloc(ObjCell("RegistryOpaque", {})),
                "debug": E.fresh_value(st, "int", "debug"), "args": args,
                "format": Builtin("format", lambda E_, s, a, k: [(s, Opaque("formatted"))])}
    c.setup = setup

    def sp(name):
        def f(E, s, args, kw):
            fl = holder["fl"]
            if name == "nfiles":
                return [(s, mk_int(fl.n))]
            arr = getattr(fl, name)
            return [(s, mk_bool(z3.Select(arr, int_term(args[0]))))]
        return f
    c.spec_funcs = {"nfiles": sp("nfiles"), "fatal": sp("fatal"), "haserr": sp("haserr")}
    c.rais("SystemExit")
    c.ens("False", "always_exits_via_sys_exit")     # falling off the end would print nothing more; main always calls sys.exit
    c.ens_exc("SystemExit",
              "(exc_arg == 0) == forall(0, nfiles(), lambda k: not fatal(k) and not haserr(k))", "status_iff_all_ok")
    # any non-zero status says "not every file is OK" (the statement asks for 0 iff all OK); it has
    # to survive the operating system, which keeps the low 8 bits
    c.ens_exc("SystemExit", "0 <= exc_arg and exc_arg <= 255", "status_fits_in_a_byte")
    c.loop(0, invariant=["forall(0, idx, lambda k: not fatal(k))"], pure=True)
    return c


# ------------------------------------------------------------------ C15: the discovery slice of main()
def discovery_slice(stmts):
    """mechanical extraction: from the `if args.cfile or args.hfile:` statement up to (not
    including) the per-file pipeline loop (the processing loop, C04)"""
    start = end = None
    for i, st in enumerate(stmts):
        if start is None and isinstance(st, ast.If) and "args.cfile" in ast.unparse(st.test):
            start = i
        if end is None and (is_pipeline_loop(st, stmts) or
                            (isinstance(st, ast.For) and isinstance(st.iter, ast.Name) and st.iter.id == "files")):
            end = i
    if start is None or end is None:
        raise SpecError("main(): discovery part not found")
    return stmts[start:end], stmts[:start] + stmts[end:]


class Work:
    """the work list: argument k (or glob result k) with what pathlib says about it --
    external functions under an assumed contract"""

    def __init__(self):
        self.n = z3.Int(fresh_name("nwork"))
        self.exists = z3.Array(fresh_name("exists"), I, B)
        self.isfile = z3.Array(fresh_name("is_file"), I, B)
        self.isdir = z3.Array(fresh_name("is_dir"), I, B)
        self.suffix = z3.Array(fresh_name("suffix"), I, S)
        self.pstr = z3.Array(fresh_name("pathstr"), I, S)
        self.rc = z3.Array(fresh_name("git_rc"), I, I)


def discovery_contract(inline=False):
    c = Contract(MAIN)
    c.body_slice = discovery_slice
    holder = {}

    def setup(E, st):
        w = Work()
        holder["w"] = w
        st.assume(w.n >= 0)
        K = z3.Int(fresh_name("k"))
        # assumed pathlib contract: a regular file or a directory exists; nothing is both
        st.assume(z3.ForAll([K], z3.And(z3.Implies(z3.Select(w.isfile, K), z3.Select(w.exists, K)),
                                        z3.Implies(z3.Select(w.isdir, K), z3.Select(w.exists, K)),
                                        z3.Not(z3.And(z3.Select(w.isfile, K), z3.Select(w.isdir, K))))))
        st.ghost["glob_calls"] = z3.IntVal(0)
        st.ghost["bad_glob"] = z3.BoolVal(False)

        def seq_work(E_, s, ref):
            return w.n, (lambda i, s2=None: (s2 if s2 is not None else s).alloc(ObjCell("WorkItem", {"index": mk_int(i)})))
        E.seq_models["WorkList"] = seq_work

        def m_path(E_, s, args, kw):
            item = s.cell(args[0])
            i = int_term(item.attrs["index"])
            return [(s, s.alloc(ObjCell("PathObj", {"index": mk_int(i), "suffix": SStr(z3.Select(w.suffix, i)),
                                                      "name": Opaque("path.name")})))]

        def path_attr(E_, s, ref, attr):
            i = int_term(s.cell(ref).attrs["index"])
            table = {"exists": w.exists, "is_file": w.isfile, "is_dir": w.isdir}
            if attr in table:
                return [(s, Builtin("Path." + attr, lambda E__, s_, a, k, arr=table[attr]: [(s_, mk_bool(z3.Select(arr, i)))]))]
            return None
        E.attr_models["PathObj"] = path_attr

        def m_str(E_, s, args, kw):
            v = args[0]
            if isinstance(v, Ref) and isinstance(s.cell(v), ObjCell) and s.cell(v).cls == "PathObj":
                return [(s, SStr(z3.Select(w.pstr, int_term(s.cell(v).attrs["index"]))))]
            return [(s, Opaque("str()"))]
        E.spec_builtins["str"] = Builtin("str", m_str)

        def m_glob(E_, s, args, kw):
            """glob.glob(pattern, recursive=True): assumed to return exactly the non-hidden paths
            under the root whose last component ends in .c / .h; the call must have that shape"""
            pat = args[0]
            rec = kw.get("recursive", False)
            ok_shape = False
            if isinstance(pat, str):
                ok_shape = pat == "**/*.[ch]"
                cond = z3.BoolVal(ok_shape and rec is True)
            else:
                # str(path) + "/**/*.[ch]"
                cond = z3.And(z3.SuffixOf(z3.StringVal("/**/*.[ch]"), pat.t), z3.BoolVal(rec is True))
            s.ghost["bad_glob"] = z3.Or(s.ghost["bad_glob"], z3.Not(cond))
            s.ghost["glob_calls"] = s.ghost["glob_calls"] + 1
            return [(s, s.alloc(ObjCell("GlobResult", {})))]

        orig = E.pymodule_attr

        def pymodule_attr(mod, attr):
            if mod.name == "glob" and attr == "glob":
                return Builtin("glob.glob", m_glob)
            if mod.name == "pathlib" and attr == "Path":
                return Builtin("pathlib.Path", m_path)
            if mod.name == "sys" and attr == "exit":
                return E.spec_builtins["__sys_exit__"]
            return orig(mod, attr)
        E.pymodule_attr = pymodule_attr
        E.augassign_models["WorkList"] = lambda E_, s, cur, op, rhs: [(s, cur)]     # stack += glob(...): already in the list
        E.models["norminette/file.py:File"] = lambda E_, s, a, k: [(s, s.alloc(ObjCell("FileObj", {"item": a[0]})))]
        for nm, arr in (("w_exists", w.exists), ("w_isfile", w.isfile), ("w_isdir", w.isdir)):
            E.spec_builtins[nm] = Builtin(nm, lambda E_, s, a, k, arr=arr: [(s, mk_bool(z3.Select(arr, int_term(a[0]))))])
        E.spec_builtins["w_suffix"] = Builtin("w_suffix", lambda E_, s, a, k: [(s, SStr(z3.Select(w.suffix, int_term(a[0]))))])
        E.spec_builtins["w_n"] = Builtin("w_n", lambda E_, s, a, k: [(s, mk_int(w.n))])
        E.spec_builtins["glob_calls"] = Builtin("glob_calls", lambda E_, s, a, k: [(s, mk_int(s.ghost["glob_calls"]))])
        E.spec_builtins["bad_glob"] = Builtin("bad_glob", lambda E_, s, a, k: [(s, mk_bool(s.ghost["bad_glob"]))])
        argfile = st.alloc(ObjCell("WorkList", {"__len__": SInt(w.n)}))
        st.assume(w.n >= 1)       # at least one argument (the no-argument case is the second variant)
        args = st.alloc(ObjCell("Args", {"cfile": None, "hfile": None, "filename": None, "file": argfile,
                                         "use_gitignore": False}))
        return {"args": args, "files": st.alloc(ListCell(()))}
    c.setup = setup
    ACC = "lambda k: w_isfile(k) and w_suffix(k) in ('.c', '.h')"
    c.rais("SystemExit")
    c.ens_exc("SystemExit", "1 <= exc_arg and exc_arg <= 255 and exists(0, w_n(), lambda k: not w_exists(k))", "missing_path_aborts_with_nonzero_status")
    c.ens(f"len(final('files')) == count(0, w_n(), {ACC})", "exactly_the_c_and_h_files_once_each")
    c.ens("forall(0, w_n(), lambda k: w_exists(k))", "every_path_exists_when_discovery_completes")
    c.ens("glob_calls() == count(0, w_n(), lambda k: w_isdir(k))", "one_glob_per_directory")
    c.ens("not bad_glob()", "glob_pattern_is_recursive_c_and_h")
    c.loop(0, invariant=[f"len(files) == count(0, idx, {ACC})", "forall(0, idx, lambda k: w_exists(k))",
                         "glob_calls() == count(0, idx, lambda k: w_isdir(k))", "not bad_glob()"],
           types={"file": "opaque", "path": "opaque"}, pure=True)
    return c


def discovery_variants():
    """further specification cases of the discovery slice: no argument, inline content,
    --use-gitignore"""
    out = []

    # ---- no path argument: the current directory tree
    base = discovery_contract()
    c = Contract(MAIN)
    c.body_slice = discovery_slice
    c.variant = "no_argument"
    inner_setup = base.setup

    def setup_noarg(E, st):
        d = inner_setup(E, st)
        args = d["args"]
        cell = st.cell(args)
        st.set_cell(args, cell.with_attr("file", st.alloc(ListCell(()))))
        # glob.glob("**/*.[ch]", recursive=True) answers the work list
        w_list = cell.attrs["file"]
        E.seq_models["GlobResult"] = E.seq_models["WorkList"]
        return d
    c.setup = setup_noarg
    c.rais("SystemExit")
    for name, e in base.ensures:
        if name == "one_glob_per_directory":
            c.ens("glob_calls() == 1 + count(0, w_n(), lambda k: w_isdir(k))", "cwd_glob_plus_one_per_directory")
        else:
            c.ens(e, name)
    c.exc_ensures = list(base.exc_ensures)
    ACC = "lambda k: w_isfile(k) and w_suffix(k) in ('.c', '.h')"
    c.loop(0, invariant=[f"len(files) == count(0, idx, {ACC})", "forall(0, idx, lambda k: w_exists(k))",
                         "glob_calls() == 1 + count(0, idx, lambda k: w_isdir(k))", "not bad_glob()"],
           types={"file": "opaque", "path": "opaque"}, pure=True)
    out.append(c)

    # ---- inline content: discovery is bypassed
    c2 = Contract(MAIN)
    c2.body_slice = discovery_slice
    c2.variant = "inline_content"

    def setup_inline(E, st):
        d = inner_setup(E, st)
        args = d["args"]
        cell = st.cell(args)
        which = z3.Bool(fresh_name("is_cfile"))
        data = SStr(z3.String(fresh_name("data")))
        st.assume(z3.Length(data.t) > 0)
        c_ = cell.with_attr("cfile", SOpt(z3.Not(which), data)).with_attr("hfile", SOpt(which, data)) \
            .with_attr("filename", SOpt(z3.Bool(fresh_name("no_filename")), SStr(z3.String(fresh_name("filename")))))
        st.set_cell(args, c_)
        return d
    c2.setup = setup_inline
    c2.ens("len(final('files')) == 1 and glob_calls() == 0", "exactly_one_inline_file_no_discovery")
    out.append(c2)
    return out


def gitignore_variant():
    base = discovery_contract()
    c = Contract(MAIN)
    c.body_slice = discovery_slice
    c.variant = "use_gitignore"
    inner_setup = base.setup
    holder = {}

    def setup(E, st):
        d = inner_setup(E, st)
        args = d["args"]
        st.set_cell(args, st.cell(args).with_attr("use_gitignore", True))
        rc = z3.Array(fresh_name("git_rc"), I, I)
        holder["rc"] = rc
        st.ghost["git_calls"] = z3.IntVal(0)
        E.seq_models["SymList"] = lambda E_, s, ref: (int_term(s.cell(ref).attrs["__len__"]),
                                                      lambda i, s2=None: Opaque("file object"))

        def m_run(E_, s, a, k):
            n = s.ghost["git_calls"]
            s.ghost["git_calls"] = n + 1
            return [(s, s.alloc(ObjCell("Proc", {"returncode": mk_int(z3.Select(rc, n))})))]
        orig = E.pymodule_attr

        def pymodule_attr(mod, attr):
            if mod.name == "subprocess" and attr == "run":
                return Builtin("subprocess.run", m_run)
            return orig(mod, attr)
        E.pymodule_attr = pymodule_attr
        E.spec_builtins["git_rc"] = Builtin("git_rc", lambda E_, s, a, k: [(s, mk_int(z3.Select(rc, int_term(a[0]))))])
        E.spec_builtins["git_calls"] = Builtin("git_calls", lambda E_, s, a, k: [(s, mk_int(s.ghost["git_calls"]))])
        return d
    c.setup = setup
    ACC = "lambda k: w_isfile(k) and w_suffix(k) in ('.c', '.h')"
    NF = f"count(0, w_n(), {ACC})"
    c.rais("SystemExit")
    c.ens(f"len(final('files')) == count(0, {NF}, lambda k: git_rc(k) == 1)", "keeps_exactly_the_files_git_does_not_ignore")
    c.ens(f"git_calls() == {NF}", "one_git_query_per_discovered_file")
    c.ens(f"forall(0, {NF}, lambda k: git_rc(k) != 128)", "no_git_failure_when_it_completes")
    c.loop(0, invariant=[f"len(files) == count(0, idx, {ACC})", "forall(0, idx, lambda k: w_exists(k))",
                         "git_calls() == 0"],
           types={"file": "opaque", "path": "opaque"}, pure=True)
    c.loop(1, invariant=["len(tmp_targets) == count(0, idx, lambda k: git_rc(k) == 1)", "git_calls() == idx",
                         "forall(0, idx, lambda k: git_rc(k) != 128)", f"idx_n == {NF}"],
           types={"target": "opaque", "exit_code": "int", "command": "opaque"}, pure=True)
    return c


# ------------------------------------------------------------------------------ File.source (C16)
DISK = z3.Function("disk_content", S, S)      # what open(path).read() returns: an uninterpreted function of the path


def install_disk(E):
    """`with open(p) as f: ... f.read()`: the file object answers read() with disk_content(p);
    opening may fail with OSError.  Nothing else of the file API is modelled."""
    from ..pyvc.builtins_ import method

    def m_with(E_, stmt, st):
        if len(stmt.items) != 1:
            raise Unsupported("with statement with several items")
        it = stmt.items[0]
        ce = it.context_expr
        if not (isinstance(ce, ast.Call) and isinstance(ce.func, ast.Name) and ce.func.id == "open"
                and len(ce.args) == 1 and not ce.keywords and isinstance(it.optional_vars, ast.Name)):
            raise Unsupported("with statement other than `with open(path) as name`")
        out = []
        for s1, p in E_.ev(ce.args[0], st):
            if isinstance(p, Raised):
                out.append((s1, ("raise", p.exc)))
                continue
            if not isinstance(p, (SStr, str)):
                raise Unsupported("open() of a path that is not a string")
            s_err = s1.fork()
            out.append((s_err, ("raise", ExcVal("OSError", ("open",)))))
            fobj = s1.alloc(ObjCell("DiskFile", {"path": p}))
            s1.locals[it.optional_vars.id] = fobj
            out.extend(E_.exec_block(stmt.body, s1))
        return out
    E.models["with"] = m_with

    def disk_attr(E_, s, v, attr):
        if attr == "read":
            p = s.cell(v).attrs["path"]
            t = p.t if isinstance(p, SStr) else z3.StringVal(p)
            return [(s, method("file.read", lambda E2, s2, a, k: [(s2, SStr(DISK(t)))]))]
        return None
    E.attr_models["DiskFile"] = disk_attr

    def sp_disk(E_, s, args, kw):
        p = args[0]
        return [(s, SStr(DISK(p.t if isinstance(p, SStr) else z3.StringVal(p))))]
    E.spec_builtins["disk"] = Builtin("disk", sp_disk)


def file_source_contract():
    """File.source: the content handed over at construction when there is one (--cfile /
    --hfile), else exactly what is stored under the path -- no transformation on either side"""
    def setup(E, st):
        cls = E.repo.find_class("norminette/file.py", "File")
        attrs = {"path": SStr(z3.String(fresh_name("path"))),
                 "_source": SOpt(z3.Bool(fresh_name("source_none")), SStr(z3.String(fresh_name("source")))),
                 "errors": Opaque("errors"), "basename": Opaque("basename"), "name": Opaque("name"),
                 "type": Opaque("type")}
        return {"self": st.alloc(ObjCell(cls, attrs))}
    c = Contract("norminette/file.py:File.source", setup=setup, result="str")
    c.rais("OSError", only_if="isnone(old(self._source))")
    c.modifies = ["self._source:optstr"]
    c.ens("implies(not isnone(old(self._source)), result == old(self._source))", "inline_content_is_returned_as_given")
    c.ens("implies(isnone(old(self._source)), result == disk(self.path))", "stored_content_is_returned_as_read")
    c.ens("not isnone(self._source) and self._source == result", "cached")
    c.mustfail("result == disk(self.path)", "always_reads_the_disk")
    c.check_frame = True
    return c
