"""L9 contracts: slices of norminette/__main__.py:main (C04, C15, C16)."""
import ast

import z3

from ..pyvc.spec import Contract, SpecError
from ..pyvc.values import (SInt, SBool, SStr, SKind, SOpt, Opaque, Ref, ObjCell, ListCell, Builtin, KINDS, int_term,
                           bool_term, mk_int, mk_bool, fresh_name, Raised, ExcVal, ClassRef, PyModule)
from ..pyvc.ops import Unsupported, truth
from ..pyvc.builtins_ import norm_index

MAIN = "norminette/__main__.py:main"
I, B, S = z3.IntSort(), z3.BoolSort(), z3.StringSort()


class Files:
    """symbolic list of File objects: per index, whether processing it raises the fatal
    CParsingError, its number of diagnostics, whether one of them is Error-level"""

    def __init__(self):
        self.n = z3.Int(fresh_name("nfiles"))
        self.fatal = z3.Array(fresh_name("fatal"), I, B)
        self.nerr = z3.Array(fresh_name("nerr"), I, I)
        self.haserr = z3.Array(fresh_name("haserr"), I, B)
        self.path = z3.Array(fresh_name("path"), I, S)


def file_obj(E, st, fl, i):
    errs = st.alloc(ObjCell("ErrorsOfFile", {
        "__len__": mk_int(z3.Select(fl.nerr, i)),
        "status": SKind(z3.If(z3.Select(fl.haserr, i), KINDS.code("Error"), KINDS.code("OK"))),
    }))
    return st.alloc(ObjCell("FileOfList", {"errors": errs, "path": SStr(z3.Select(fl.path, i)), "index": mk_int(i),
                                           "type": Opaque("file.type"), "source": Opaque("file.source"),
                                           "basename": Opaque("file.basename"), "name": Opaque("file.name")}))


def seq_files(E, s, ref):
    fl = s.cell(ref).attrs["fl"]
    return fl.n, (lambda i, s2=None: file_obj(E, s2 if s2 is not None else s, fl, i))


def tail_slice(stmts):
    """mechanical extraction: the last top-level `for` whose iterable is the name `files`
    and everything after it"""
    k = None
    for i, st in enumerate(stmts):
        if isinstance(st, ast.For) and isinstance(st.iter, ast.Name) and st.iter.id == "files":
            k = i
    if k is None:
        raise SpecError("main(): no `for ... in files` loop found")
    return stmts[k:], stmts[:k]


def install(E):
    E.seq_models["FileList"] = seq_files

    # opaque per-file pipeline: Lexer(file), list(lexer), Context(...), registry.run(context)
    def m_lexer(E_, s, args, kw):
        return [(s, s.alloc(ObjCell("LexerOpaque", {"file": args[0]})))]
    E.models["norminette/lexer/lexer.py:Lexer"] = m_lexer

    def m_context(E_, s, args, kw):
        return [(s, s.alloc(ObjCell("ContextOpaque", {"file": args[0]})))]
    E.models["norminette/context.py:Context"] = m_context

    def m_exit(E_, s, args, kw):
        return [(s, Raised(ExcVal("SystemExit", (args[0] if args else None,))))]
    E.spec_builtins["__sys_exit__"] = Builtin("sys.exit", m_exit)

    orig_list = E.builtin("list")

    def m_list(E_, s, args, kw):
        if args and isinstance(args[0], Ref) and isinstance(s.cell(args[0]), ObjCell) \
                and s.cell(args[0]).cls == "LexerOpaque":
            return [(s, Opaque("tokens"))]
        return orig_list.fn(E_, s, args, kw)
    E.spec_builtins["list"] = Builtin("list", m_list)


def registry_run_model(fl):
    def attr(E, s, ref, name):
        if name != "run":
            return None

        def run(E_, s_, a, k):
            ctx = a[0]
            f = s_.cell(s_.cell(ctx).attrs["file"])
            i = int_term(f.attrs["index"])
            out = []
            for s2, fatal in E_.split(s_, z3.Select(fl.fatal, i)):
                if fatal:
                    out.append((s2, Raised(ExcVal("CParsingError", (Opaque("msg"),)))))
                else:
                    out.append((s2, None))
            return out
        return [(s, Builtin("registry.run", run))]
    return attr


def main_tail():
    c = Contract(MAIN)
    c.body_slice = tail_slice
    holder = {}

    def setup(E, st):
        fl = Files()
        holder["fl"] = fl
        st.assume(fl.n >= 0)
        K = z3.Int(fresh_name("k"))
        # a file with an Error-level diagnostic has at least one diagnostic
        st.assume(z3.ForAll([K], z3.Implies(z3.Select(fl.haserr, K), z3.Select(fl.nerr, K) > 0)))
        st.assume(z3.ForAll([K], z3.Select(fl.nerr, K) >= 0))
        E.attr_models["RegistryOpaque"] = registry_run_model(fl)
        args = st.alloc(ObjCell("Args", {"no_colors": E.fresh_value(st, "bool", "no_colors"),
                                         "R": Opaque("R")}))
        return {"files": st.alloc(ObjCell("FileList", {"fl": fl, "__len__": SInt(fl.n)})),
                "registry": st.alloc(ObjCell("RegistryOpaque", {})),
                "debug": E.fresh_value(st, "int", "debug"), "args": args,
                "format": Builtin("format", lambda E_, s, a, k: [(s, Opaque("formatted"))])}
    c.setup = setup

    def sp(name):
        def f(E, s, args, kw):
            fl = holder["fl"]
            if name == "nfiles":
                return [(s, mk_int(fl.n))]
            arr = getattr(fl, name)
            return [(s, mk_bool(z3.Select(arr, int_term(args[0]))))]
        return f
    c.spec_funcs = {"nfiles": sp("nfiles"), "fatal": sp("fatal"), "haserr": sp("haserr")}
    c.rais("SystemExit")
    c.ens("False", "always_exits_via_sys_exit")     # falling off the end would print nothing more; main always calls sys.exit
    c.ens_exc("SystemExit",
              "(exc_arg == 0) == forall(0, nfiles(), lambda k: not fatal(k) and not haserr(k))", "status_iff_all_ok")
    c.ens_exc("SystemExit", "exc_arg == 0 or exc_arg == 1", "status_is_0_or_1")
    c.loop(0, invariant=["forall(0, idx, lambda k: not fatal(k))"], pure=True)
    return c
