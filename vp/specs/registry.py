"""L7 contracts: the rule engine (C07, C05a, C06)."""
import z3

from ..pyvc.spec import Contract, SpecError
from ..pyvc.values import (Sym, SInt, SBool, SStr, SKind, SOpt, Opaque, Ref, ObjCell, ListCell, TokList, HistList, Builtin,
                           KINDS, int_term, bool_term, mk_int, mk_bool, fresh_name, Raised, ExcVal)
from ..pyvc.ops import Unsupported
from ..models import tokens as T

REG = "norminette/registry.py"
CTX = "norminette/context.py:Context."


class OpaquePred(Sym):
    """a value of which only truthiness and membership tests are observed; each observation
    is an unconstrained boolean (sound for pure observations)"""
    __slots__ = ("tag",)

    def __init__(self, tag):
        self.tag = tag


def install(E):
    import vp.pyvc.ops as ops
    orig_truth, orig_contains = ops.truth, ops.contains
    if not getattr(ops, "_opaquepred_patched", False):
        def truth(v, st=None):
            if isinstance(v, OpaquePred):
                return z3.Bool(fresh_name(v.tag + "_truth"))
            return orig_truth(v, st)

        def contains(container, item, st):
            if isinstance(container, OpaquePred):
                return z3.Bool(fresh_name(container.tag + "_has"))
            return orig_contains(container, item, st)
        ops.truth, ops.contains = truth, contains
        ops._opaquepred_patched = True
        import vp.pyvc.engine as eng
        import vp.pyvc.builtins_ as bi
        import vp.pyvc.loops as lp
        import vp.pyvc.spec as sp
        for m in (eng, bi, lp, sp):
            if hasattr(m, "truth"):
                m.truth = truth

    # rules = Rules(): a sequence of primary rule classes of unknown length
    def m_rules(E_, s, args, kw):
        n = z3.Int(fresh_name("nprimaries"))
        s.assume(n >= 0)
        seq = s.alloc(ObjCell("PrimSeq", {"__len__": SInt(n)}))
        return [(s, s.alloc(ObjCell("RulesOpaque", {"primaries": seq, "checks": Opaque("checks")})))]
    E.models["norminette/rules/__init__.py:Rules"] = m_rules

    def seq_prim(E_, s, ref):
        n = int_term(s.cell(ref).attrs["__len__"])
        return n, (lambda i, s2=None: (s2 if s2 is not None else s).alloc(
            ObjCell("PrimaryCls", {"scope": OpaquePred("rule_scope"), "name": SKind(z3.Int(fresh_name("rule_name")))})))
    E.seq_models["PrimSeq"] = seq_prim

    def idx_deps(E_, s, base, idx):
        n = z3.Int(fresh_name("ndeps"))
        s.assume(n >= 0)
        return [(s, s.alloc(ObjCell("RuleSeq", {"__len__": SInt(n)})))]
    E.index_models["Deps"] = idx_deps
    E.seq_models["RuleSeq"] = lambda E_, s, ref: (int_term(s.cell(ref).attrs["__len__"]),
                                                  lambda i, s2=None: Opaque("rule class"))

    def idx_symlist(E_, s, base, idx):
        # a list of unknown length and unknown elements: the index is still range-checked
        from ..pyvc.builtins_ import norm_index
        out = []
        for s2, eff in norm_index(E_, s, idx, s.cell(base).attrs["__len__"], "list"):
            out.append((s2, eff if isinstance(eff, Raised) else Opaque("element")))
        return out
    E.index_models["SymList"] = idx_symlist

    def havoc_tokens(E_, st, frame):
        env = frame if frame is not None else st.locals
        ctx = env["context"]
        cell = st.cell(ctx)
        tl = cell.attrs["tokens"]
        off, ln = z3.Int(fresh_name("tok_off")), z3.Int(fresh_name("tok_len"))
        st.assume(z3.And(ln >= 0))
        st.set_cell(ctx, cell.with_attr("tokens", TokList(tl.stream, off, ln)))
    E.havoc_models["context.tokens"] = havoc_tokens

    def havoc_history(E_, st, frame):
        env = frame if frame is not None else st.locals
        ctx = env["context"]
        cell = st.cell(ctx)
        st.set_cell(ctx, cell.with_attr("history", T.make_history(E_, st)))
    E.havoc_models["context.history"] = havoc_history

    def havoc_scope_fields(E_, st, frame):
        env = frame if frame is not None else st.locals
        ctx = env["context"]
        sc = st.cell(ctx).attrs["scope"]
        cell = st.cell(sc)
        new = T.make_scope(E_, st, "scope_h")
        ncell = st.cell(new)
        attrs = dict(ncell.attrs)
        attrs["name"] = cell.attrs["name"]
        st.set_cell(sc, ObjCell(cell.cls, attrs))
    E.havoc_models["context.scope.*"] = havoc_scope_fields

    def havoc_scope(E_, st, frame):
        env = frame if frame is not None else st.locals
        ctx = env["context"]
        cell = st.cell(ctx)
        st.set_cell(ctx, cell.with_attr("scope", T.make_scope(E_, st, "scope_u")))
    E.havoc_models["context.scope"] = havoc_scope

    def sp_tok_off(E_, s, args, kw):
        tl = T._ctx_tokens(s, args[0])
        return [(s, mk_int(int_term(tl.off)))]
    E.spec_builtins["tok_off"] = Builtin("tok_off", sp_tok_off)

    E.value_types["scope"] = lambda E_, st, name: T.make_scope(E_, st, name)

    def sp_chain_lines(E_, s, args, kw):
        """sum of .lines over a scope and its modelled ancestors"""
        sc = args[1]
        total = z3.IntVal(0)
        cond = z3.BoolVal(True)
        for _ in range(4):
            if isinstance(sc, SOpt):
                cond = z3.And(cond, z3.Not(bool_term(sc.isnone)))
                sc = sc.val
            if not isinstance(sc, Ref):
                break
            cell = s.cell(sc)
            total = total + z3.If(cond, int_term(cell.attrs["lines"]), 0)
            sc = cell.attrs.get("parent")
        return [(s, mk_int(total))]
    E.spec_builtins["chain_lines"] = Builtin("chain_lines", sp_chain_lines)
    # dprint only prints (debug >= 2) -- assumed, reported
    E.models[CTX + "dprint"] = lambda E_, s, a, k: [(s, None)]


def registry_setup(E, st):
    cls = E.repo.find_class(REG, "Registry")
    ctx = T.make_context(E, st, scope_in_stream=False)
    reg = st.alloc(ObjCell(cls, {"dependencies": st.alloc(ObjCell("Deps", {}))}))
    return {"self": reg, "context": ctx}


def run_rules_callsite():
    """what Registry.run relies on: a matching primary reports a jump >= 1 (one obligation
    per primary under C05), context.tokens is not written (only Context.pop_tokens assigns
    it and only Registry.run calls that: finite AST obligation)"""
    c = Contract(REG + ":Registry.run_rules", result=("optbool", "int"))
    c.modifies = ["context.tkn_scope:int", "context.history", "context.scope.*", "context.sub:opaque"]
    c.pure = False
    c.ens("implies(result[0] is True, result[1] >= 1)", "match_means_progress")
    c.rais("CParsingError")
    return c


def update_callsite():
    c = Contract(CTX + "update")
    c.modifies = ["self.scope:scope", "self.sub:opaque", "self.arg_pos:opaque"]

    def scope_havoc(E, st, frame):
        ctx = frame["self"]
        cell = st.cell(ctx)
        st.set_cell(ctx, cell.with_attr("scope", T.make_scope(E, st, "scope_u")))
    c.call_effect = lambda E, s, env: None
    return c


def registry_run():
    c = Contract(REG + ":Registry.run", setup=registry_setup)
    END = "(tok_off(context) + ntok(context))"
    c.rais("CParsingError")
    # tiling: what is left is always a suffix of the original stream, it shrinks by at least
    # one token per iteration, nothing is left at a normal return
    c.ens("ntok(context) == 0", "whole_stream_consumed")
    c.ens(f"{END} == old({END})", "suffix")
    # no silent drop: in normal mode a run that returns normally has dropped nothing
    c.ens("implies(context.debug == 0, len(final('unrecognized_tkns')) == 0)", "nothing_dropped_silently")
    c.loop(0, invariant=["True"], types={"rule": "opaque"},
           havoc=["context.tkn_scope:int", "context.history", "context.scope.*", "context.sub:opaque"])
    c.loop(1, invariant=[f"{END} == old({END})", "tok_off(context) >= old(tok_off(context))", "ntok(context) >= 0"],
           variant="ntok(context)", havoc=["context.tokens", "context.tkn_scope:int", "context.history",
                                          "context.scope", "context.scope.*", "context.sub:opaque",
                                          "context.arg_pos:opaque"],
           types={"ret": "optbool", "jump": "int", "rule": "opaque"})
    c.loop(2, invariant=["True"], havoc=["context.tkn_scope:int", "context.history", "context.scope.*",
                                         "context.sub:opaque"],
           types={"ret": "optbool", "jump": "int", "rule": "opaque"})
    c.loop(3, invariant=["True"], types={"rule": "opaque"},
           havoc=["context.tkn_scope:int", "context.history", "context.scope.*", "context.sub:opaque"])
    c.mustfail("ntok(context) == 1", "one_token_left")
    return c


# ------------------------------------------------------------------ scope bookkeeping
TRANSPARENT = ("(hist_len(self) >= 1 and hist_name(self, hist_len(self) - 1) in "
               "('IsEmptyLine', 'IsComment', 'IsPreprocessorStatement'))")


def ctx_only_setup(E, st):
    return {"self": T.make_context(E, st)}


def update_contract():
    c = Contract(CTX + "update", setup=ctx_only_setup)
    T_ = TRANSPARENT
    OT = "old(" + T_ + ")"
    c.ens(f"implies({OT}, self.scope is old(self.scope) and self.scope.lines == old(self.scope.lines) and "
          f"self.arg_pos is old(self.arg_pos) and isnone(self.sub) == old(isnone(self.sub)))", "transparent_after_comment")
    c.ens(f"implies(not {OT}, isnone(self.sub))", "sub_installed")
    c.ens(f"implies(not {OT}, not (self.scope.name == 'ControlStructure' and self.scope.multiline is False "
          f"and self.scope.instructions > 0))", "single_line_control_left")
    c.ens(f"implies(not {OT} and isnone(old(self.sub)) and not (old(self.scope.name) == 'ControlStructure' and "
          f"old(self.scope.multiline) is False and old(self.scope.instructions) > 0), self.scope is old(self.scope))",
          "scope_kept_otherwise")
    # lines are never lost: leaving a scope adds its lines to the parent, so the total over the
    # chain of enclosing scopes is preserved (this is what makes scope.lines of a Function the
    # number of lines of its body, C03)
    c.ens(f"implies(isnone(old(self.sub)), chain_lines(self, self.scope) == old(chain_lines(self, self.scope)))",
          "lines_of_left_scopes_go_to_the_parent")
    c.modifies = ["self.scope:scope", "self.sub:optscope", "self.arg_pos:opaque"]
    c.mustfail("self.scope is old(self.scope)", "never_changes_scope")
    return c


def scope_setup(E, st):
    return {"self": T.make_scope(E, st, "sc", depth=1)}


def outer_contract():
    c = Contract("norminette/scope.py:Scope.outer", setup=scope_setup)
    c.ens("implies(not isnone(self.parent), self.parent.lines == old(self.parent.lines) + self.lines)", "lines_added")
    c.ens("isnone(result) == isnone(self.parent)", "returns_parent")
    c.ens("self.lines == old(self.lines)", "own_lines_kept")
    return c


def primary_setup(relpath, clsname):
    from .limits import rule_setup
    return rule_setup(relpath, clsname, minhist=0)      # a primary may run on the very first statement


R = "norminette/rules/"


def progress_contract(relpath, clsname, extra=None, loops=None):
    """what Registry.run needs from a primary: it returns a pair, a match consumes at least
    one token, and it never assigns context.tokens"""
    c = Contract(f"{R}{relpath}:{clsname}.run", setup=primary_setup(R + relpath, clsname))
    # Registry.run only tries primaries while tokens are left (call-site obligation there)
    c.req("ntok(context) >= 1")
    c.ens("result[0] is True or result[0] is False", "returns_a_pair_with_bool")
    c.ens("implies(result[0] is True, result[1] >= 1)", "match_means_progress")
    c.ens("implies(result[0] is False, result[1] == 0)", "no_match_means_zero")
    c.ens("ntok(context) == old(ntok(context)) and tok_off(context) == old(tok_off(context))", "tokens_not_assigned")
    for k, spec in (loops or {}).items():
        c.loop(k, **spec)
    if extra:
        extra(c)
    return c


FIRST = ("b >= 0 and forall(0, b, lambda k: k < ntok(context) and in_ws(context, k, False, False)) and "
         "(b >= ntok(context) or not in_ws(context, b, False, False))")
ALL_TRANSPARENT = ("forall(0, hist_len(context), lambda k: hist_name(context, k) in "
                   "('IsEmptyLine', 'IsComment', 'IsPreprocessorStatement'))")


def block_start():
    def extra(c):
        # b is the index of the first token that is not a blank (unique by FIRST)
        c.forall_const("b", "int")
        c.req(FIRST)
        # an all-blank remainder never reaches this primary: IsEmptyLine has a higher
        # priority (finite check on the registry) and matches it (its clause all_blank_matches)
        c.req("b < ntok(context)")
        c.ens("implies(result[0] is True, b < ntok(context) and kind_in(context, b, 'LBRACE'))",
              "statement_starts_with_lbrace")
        c.ens(f"implies(result[0] is True, not isnone(context.sub) or context.scope.multiline is True or "
              f"{ALL_TRANSPARENT})", "scope_handed_over")
    return progress_contract("is_block_start.py", "IsBlockStart", extra,
                             {0: dict(invariant=[f"forall(hist_len(context) - idx, hist_len(context), lambda k: "
                                                 f"hist_name(context, k) in ('IsEmptyLine', 'IsComment', "
                                                 f"'IsPreprocessorStatement'))",
                                                 "isnone(context.sub) == old(isnone(context.sub))"],
                                      types={"lines": "int", "item": "kind"}, pure=True)})


def block_end():
    def extra(c):
        c.forall_const("b", "int")
        c.req(FIRST)
        c.req("b < ntok(context)")
        c.ens("implies(result[0] is True, b < ntok(context) and kind_in(context, b, 'RBRACE'))",
              "statement_starts_with_rbrace")
        c.ensures = [e for e in c.ensures if e[0] != "no_match_means_zero"]
    return progress_contract("is_block_end.py", "IsBlockEnd", extra)


def udef_typedef():
    def setup(E, st):
        d = primary_setup(R + "is_block_end.py", "IsBlockEnd")(E, st)
        d["pos"] = E.fresh_value(st, "nat", "pos")
        return d
    c = Contract(f"{R}is_block_end.py:IsBlockEnd.check_udef_typedef", setup=setup, result=("bool", "int"))
    c.req("pos >= 0")
    c.ens("implies(result[0] is True, result[1] > pos)", "progress")
    c.ens("result[0] is True or result == (False, 0)", "shape")
    c.loop(0, invariant=["i >= pos"], variant="ntok(context) - i", pure=True)
    return c


def simple_primaries():
    def empty_extra(c):
        c.forall_const("b", "int")
        c.req(FIRST)
        # the lexer never produces an ESCAPED_NEWLINE token (finite check on Lexer's Token(...) calls)
        c.req("forall(0, ntok(context), lambda k: not kind_in(context, k, 'ESCAPED_NEWLINE'))")
        c.ens("implies(b >= ntok(context), result[0] is True)", "all_blank_matches")
        # exactly the blank lines match: this is the precondition NOT_EMPTY of the primaries
        # of lower priority (specs/primaries.py)
        c.ens("(result[0] is True) == (b >= ntok(context) or kind_in(context, b, 'NEWLINE'))", "matches_iff_blank_line")
    return [progress_contract("is_comment.py", "IsComment"),
            progress_contract("is_empty_line.py", "IsEmptyLine", empty_extra,
                              {0: dict(invariant=["i >= 0", "forall(0, i, lambda k: kind_in(context, k, ('SPACE', 'TAB')))"],
                                       variant="ntok(context) - i", pure=True)})]


def func_declaration():
    """IsFuncDeclaration.run: the functions counter (C03) and progress (C05a / C07).
    check_func_format is used through its call-site contract (verified against its body in
    specs/primaries.py): a match reports a position >= 1 and the writes are fname_pos / arg_pos."""
    key = f"{R}is_func_declaration.py:IsFuncDeclaration."
    from .primaries import rule_helper_contracts
    cff = rule_helper_contracts()["IsFuncDeclaration.check_func_format"]
    c = Contract(key + "run", setup=primary_setup(R + "is_func_declaration.py", "IsFuncDeclaration"))
    c.req("ntok(context) >= 1")
    c.rais("CParsingError")
    c.ens("result[0] is True or result[0] is False", "returns_a_pair_with_bool")
    c.ens("implies(result[0] is True, result[1] >= 1)", "match_means_progress")
    c.ens("implies(result[0] is True, context.scope.functions == old(context.scope.functions) + 1)",
          "a_match_counts_one_function")
    c.ens("implies(result[0] is False, context.scope.functions == old(context.scope.functions))",
          "no_match_counts_nothing")
    c.ens("ntok(context) == old(ntok(context)) and tok_off(context) == old(tok_off(context))", "tokens_not_assigned")
    c.loop(0, invariant=["read >= 1"], variant="ntok(context) - read", pure=True)
    c.mustfail("context.scope.functions == old(context.scope.functions)", "never_counts")
    return c, cff
