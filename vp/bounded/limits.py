"""Bounded stand-in for the composition assumptions of C03 (DESIGN.md 4.3, A3.1-A3.3):
the statement's iff evaluated on the real pipeline over an enumerated small scope.
Labelled bounded; never counted as proved."""
import itertools
import random


def width(line):
    col = 1
    for ch in line:
        if ch == "\t":
            col += 4 - (col - 1) % 4
        else:
            col += 1
    return col - 1


def pad_to(prefix, target, fill="x"):
    """extend prefix with fill characters until its displayed width is `target`"""
    w = width(prefix)
    if w > target:
        return None
    return prefix + fill * (target - w)


FUNC = "int\tmain(void)\n{\n\treturn (0);\n}\n"


def line_cases(widths, seed, thorough):
    rnd = random.Random(seed)
    cases = []
    prefixes_code = ["int\tg_", "\tint\tg_", "int\t\tg_", "static int\tg_", "int \t g_"]
    prefixes_cmt = ["// ", "\t// ", "\t\t//\t", " //", "int\tg_a;\t// "]
    blk_first = ["/* ", "\t/* ", "int\tg_a; /* "]
    inner = ["", "** ", "\t", " \t ", "\t\t* "]
    if not thorough:
        prefixes_code, prefixes_cmt, inner = prefixes_code[:3], prefixes_cmt[:3], inner[:3]
    positions = ["start", "middle", "end"]
    for w in widths:
        for pos in positions:
            for p in prefixes_code:
                body = pad_to(p, w - 1, "a")
                if body is not None:
                    cases.append(("code", pos, w, body + ";"))
            for p in prefixes_cmt:
                body = pad_to(p, w, "c")
                if body is not None:
                    cases.append(("line-comment", pos, w, body))
            # alternative spellings count as many columns as they have characters
            for tail in ("<:1:> = <%1%>;", "??(1??);", "%:"):
                body = pad_to("int\tg_", w - len(tail), "a")
                if body is not None and pos != "start":
                    cases.append(("code-alternative-spelling", pos, w, body + tail))
            # a form feed / vertical tab / other control character inside a comment is not a line end
            for ctl in ("\x0c", "\x0b", "\x1c", "\x85", "\u2028"):
                mid = pad_to("** ", w, "m")
                if mid is not None and pos == "middle":
                    cases.append(("block-interior-after-control-char", pos, w, "/*\n** a" + ctl + "b\n" + mid + "\nlast */"))
            for p in blk_first:
                first = pad_to(p, w, "f")
                if first is not None:
                    cases.append(("block-first", pos, w, first + "\nsecond\n*/"))
            for p in inner:
                mid = pad_to(p, w, "m")
                if mid is not None:
                    cases.append(("block-interior", pos, w, "/*\n" + mid + "\nlast */"))
                last = pad_to(p, w - 2, "l")
                if last is not None:
                    cases.append(("block-last", pos, w, "/*\nfirst\n" + last + "*/"))
    out = []
    for kind, pos, w, frag in cases:
        if pos == "start":
            text = frag + "\n" + FUNC
        elif pos == "middle":
            text = FUNC + "\n" + frag + "\n\n" + FUNC.replace("main", "other")
        else:
            text = FUNC + "\n" + frag + "\n"
        out.append({"kind": kind, "pos": pos, "w": w, "text": text})
    return out


def check_line_case(case, res):
    """the iff of the statement: a line is reported too long iff its width exceeds 80"""
    if res.get("exc") or res.get("fatal"):
        return None            # no verdict was reached: nothing is claimed for this input
    lines = case["text"].split("\n")
    if lines and lines[-1] == "":
        lines = lines[:-1]
    expected = {i + 1 for i, ln in enumerate(lines) if width(ln) > 80}
    got = {h[0] for e in res["errors"] if e["name"] == "LINE_TOO_LONG" for h in e["highlights"][:1]}
    if expected != got:
        return f"LINE_TOO_LONG expected on lines {sorted(expected)} (width > 80), reported on {sorted(got)}"
    return None


def gen_function(name, nargs, nvars, nbody, shape=0):
    """a function whose body (between the braces) has exactly nbody lines"""
    args = ", ".join(f"int a{i}" for i in range(nargs)) or "void"
    lines = []
    for i in range(nvars):
        lines.append(f"\tint\tv{i};")
    if nvars:
        lines.append("")
    stmts = []
    k = 0
    filler = nbody - len(lines) - 1         # keep one line for the return
    while len(stmts) < filler:
        rem = filler - len(stmts)
        if shape == 1 and rem >= 2:
            stmts += [f"\tif (a{k % max(nargs, 1)} > {k})" if nargs else f"\tif ({k} > 0)", f"\t\tft_f({k});"]
        elif shape == 2 and rem >= 4:
            stmts += ["\twhile (g_x)", "\t{", f"\t\tft_f({k});", "\t}"]
        elif shape == 3 and rem >= 6:
            stmts += ["\tif (g_x)", "\t{", "\t\tif (g_y)", f"\t\t\tft_f({k});", "\t}", f"\tft_g({k});"]
        elif shape == 4 and rem >= 3:
            stmts += ["\tif (g_x)", "\t\twhile (g_y)", f"\t\t\tft_f({k});"]
        elif shape == 5 and rem >= 4:
            stmts += ["\twhile (g_x)", "\t\tif (g_y)", "\t\t\twhile (g_z)", f"\t\t\t\tft_f({k});"]
        elif shape == 6 and rem >= 5:
            stmts += ["\tif (g_x)", "\t\twhile (g_y)", "\t\t{", f"\t\t\tft_f({k});", "\t\t}"]
        else:
            stmts.append(f"\tft_f({k});")
        k += 1
    lines += stmts
    lines.append("\treturn (0);")
    if len(lines) != nbody:
        return None
    return f"int\t{name}({args})\n{{\n" + "\n".join(lines) + "\n}\n"


def counter_cases(thorough):
    cases = []
    shapes = [0, 1, 2, 3, 4, 5, 6]
    for nbody in range(22, 32):
        for shape in shapes:
            for nvars in (0, 2):
                f = gen_function("f_a", 1, nvars, nbody, shape)
                if f:
                    for pos in ("only", "second"):
                        text = (gen_function("f_z", 0, 0, 3) + "\n" if pos == "second" else "") + f
                        cases.append({"kind": "lines", "n": nbody, "text": text,
                                      "expect": {"TOO_MANY_LINES": 1 if nbody > 25 else 0}})
    for nf in range(1, 9):
        text = "\n".join(gen_function(f"f_{chr(97 + i)}", i % 3, i % 2, 3 + i % 3, 0) for i in range(nf))
        cases.append({"kind": "functions", "n": nf, "text": text,
                      "expect": {"TOO_MANY_FUNCS": max(0, nf - 5)}})
    for na in range(0, 9):
        for proto in (False, True):
            f = gen_function("f_a", na, 1, 4)
            text = (f.split("\n")[0] + ";\n\n" if proto else "") + f
            cases.append({"kind": "args", "n": na, "text": text,
                          "expect": {"TOO_MANY_ARGS": (2 if proto else 1) if na > 4 else 0}})
    # parameters that contain commas of their own (a function pointer) count once each
    for na in range(2, 7):
        for k in (0, na - 1):
            args = [f"int a{i}" for i in range(na)]
            args[k] = "int (*fn)(int, int, char *)"
            f = gen_function("f_a", na, 1, 4)
            head = f.split("\n")[0]
            head2 = head[:head.index("(")] + "(" + ", ".join(args) + ")"
            body = f.replace(head, head2, 1).replace(f"a{k}", "a%d" % ((k + 1) % na))
            for proto in (False, True):
                text = (head2 + ";\n\n" if proto else "") + body
                cases.append({"kind": "args-with-function-pointer", "n": na, "text": text,
                              "expect": {"TOO_MANY_ARGS": (2 if proto else 1) if na > 4 else 0}})
    for nv in range(0, 10):
        for shape in (0, 1):
            f = gen_function("f_a", 1, nv, nv + 6, shape)
            if f:
                cases.append({"kind": "vars", "n": nv, "text": f,
                              "expect": {"TOO_MANY_VARS_FUNC": max(0, nv - 5)}})
    return cases


def check_counter_case(case, res):
    if res.get("exc") or res.get("fatal"):
        return f"no verdict: exc={res.get('exc')} fatal={res.get('fatal')}"
    for name, n in case["expect"].items():
        got = sum(1 for e in res["errors"] if e["name"] == name)
        if (got > 0) != (n > 0):
            return f"{name}: expected {'some' if n else 'none'} for {case['kind']}={case['n']}, got {got}"
        if got != n:
            return f"{name}: expected {n} for {case['kind']}={case['n']}, got {got}"
    return None
