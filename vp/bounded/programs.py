"""Small generators of conforming and damaged C files used by the bounded stand-ins.
Everything here is test-side input generation; oracles live next to the checks."""
import random

HEADER = """/* ************************************************************************** */
/*                                                                            */
/*                                                        :::      ::::::::   */
/*   {name:<51.51}:+:      :+:    :+:   */
/*                                                    +:+ +:+         +:+     */
/*   By: {login} <{mail}>{pad1}+#+  +:+       +#+        */
/*                                                +#+#+#+#+#+   +#+           */
/*   Created: {created} by {login}{pad2}#+#    #+#             */
/*   Updated: {updated} by {login}{pad3}###   ########.fr       */
/*                                                                            */
/* ************************************************************************** */
"""


def header(name="a.c", login="marvin", mail="marvin@student.42.fr", created="2020/01/01 00:00:00",
           updated="2020/01/01 00:00:00"):
    by = f"/*   By: {login} <{mail}>"
    pad1 = " " * max(1, 51 - len(by))
    cr = f"/*   Created: {created} by {login}"
    pad2 = " " * max(1, 54 - len(cr))
    up = f"/*   Updated: {updated} by {login}"
    pad3 = " " * max(1, 53 - len(up))
    return HEADER.format(name=name, login=login, mail=mail, created=created, updated=updated, pad1=pad1, pad2=pad2,
                         pad3=pad3)


STATEMENTS = [
    "\tg_x = a + 1;",
    "\tft_putnbr(a, b);",
    "\tb = (int)a * -1;",
    "\ta[b] = sizeof(int);",
    "\tptr->next = &a;",
    "\ta++;",
]

BLOCKS = [
    ["\tif (a > 0)", "\t\ta = b;"],
    ["\tif (a == b && b != 0)", "\t{", "\t\ta = 0;", "\t\tb = 1;", "\t}", "\telse", "\t\tb = 2;"],
    ["\twhile (a < 10)", "\t\ta++;"],
    ["\twhile (a)", "\t{", "\t\tif (b)", "\t\t\tbreak ;", "\t\ta--;", "\t}"],
    ["\tif (a)", "\t\treturn (1);", "\telse if (b)", "\t\treturn (2);"],
]


def function(name, rnd, nstmt=3, ret="int"):
    body = ["\tint\ta;", "\tint\tb;", "", "\ta = 0;", "\tb = 0;"]
    for _ in range(nstmt):
        if rnd.random() < 0.5:
            body.append(rnd.choice(STATEMENTS))
        else:
            body += rnd.choice(BLOCKS)
    body.append("\treturn (a + b);")
    return [f"{ret}\t{name}(int c, char **d)", "{"] + body + ["}"]


def conforming_c(rnd, nfunc=2, name="a.c"):
    """-> (text, list of 1-based line numbers where a top-level statement may be inserted)"""
    lines = header(name).rstrip("\n").split("\n")
    lines += ["", "#include <unistd.h>", "", "int\tg_x = 0;"]
    for i in range(nfunc):
        lines.append("")
        lines += function(f"ft_f{chr(97 + i)}", rnd, nstmt=rnd.randint(1, 3))
    text = "\n".join(lines) + "\n"
    return text


def conforming_h(name="a.h"):
    guard = name.upper().replace(".", "_")
    lines = header(name).rstrip("\n").split("\n")
    lines += ["", f"#ifndef {guard}", f"# define {guard}", "", "# include <unistd.h>", "", "typedef struct s_a",
              "{", "\tint\ta;", "}\tt_a;", "", "int\tft_fa(int c, char **d);", "", "#endif"]
    return "\n".join(lines) + "\n"


GARBAGE = ["@", "]", "'x'", "42", "$$", ")", "\"s\""]
# statements no primary rule recognises, wherever they stand (fatal at every statement boundary)
UNRECOGNISABLE = ["42;", "= 3;", "+ 1;"]


# body shapes for the statement-partition oracle: (lines, number of statements).  One
# statement per line except where a control statement and its empty body share a statement.
SHAPES = {
    "else_empty_last": (["\tif (a)", "\t\tb = 1;", "\telse ;"], 3),
    "else_empty_mid": (["\tif (a)", "\t\tb = 1;", "\telse ;", "\tb = 2;"], 4),
    "else_semi_glued": (["\tif (a)", "\t\tb = 1;", "\telse;", "\tb = 2;"], 4),
    "while_empty": (["\twhile (a--) ;", "\tb = 3;"], 2),
    "while_empty_nextline": (["\twhile (a--)", "\t\t;", "\tb = 3;"], 2),
    "while_empty_alone": (["\twhile (a--) ;"], 1),
    "while_empty_nextline_alone": (["\twhile (a--)", "\t\t;"], 1),
    "if_empty_nextline_alone": (["\tif (a)", "\t\t;"], 1),
    "return_void": (["\tif (a)", "\t\treturn ;"], 2),
    "else_if_chain": (["\tif (a)", "\t\tb = 1;", "\telse if (b)", "\t\tb = 2;", "\telse", "\t\tb = 3;"], 6),
    "nested_braces": (["\tif (a)", "\t{", "\t\twhile (b)", "\t\t{", "\t\t\tb--;", "\t\t}", "\t}"], 7),
    "if_in_else_block": (["\tif (a)", "\t\tb = 1;", "\telse", "\t{", "\t\tif (b)", "\t\t\tb = 2;", "\t}"], 7),
    "break_continue": (["\twhile (a)", "\t{", "\t\tif (b)", "\t\t\tbreak ;", "\t\tcontinue ;", "\t}"], 6),
    "plain": (["\ta = b + 1;", "\tft_putnbr(a, b);"], 2),
}


def shaped_program(shape_names, name="a.c", tail_return=True):
    """two functions; the first one's body is the concatenation of the named shapes.
    -> (text, expected number of statements)"""
    body, nst = [], 0
    for sn in shape_names:
        lines, k = SHAPES[sn]
        body += lines
        nst += k
    if tail_return:
        body.append("\treturn (b);")
        nst += 1
    hdr = header(name).rstrip("\n").split("\n")
    lines = hdr + ["", "int\tft_fa(int a, int b)", "{"] + body + ["}", "", "int\tft_fb(void)", "{", "\treturn (0);", "}"]
    # statements: 11 header comments + empty + prototype line + '{' + body + '}' + empty + 4 lines of ft_fb
    expected = 11 + 1 + 1 + 1 + nst + 1 + 1 + 4
    return "\n".join(lines) + "\n", expected
