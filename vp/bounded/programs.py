"""Small generators of conforming and damaged C files used by the bounded stand-ins.
Everything here is test-side input generation; oracles live next to the checks."""
import random

HEADER = """/* ************************************************************************** */
/*                                                                            */
/*                                                        :::      ::::::::   */
/*   {name:<51.51}:+:      :+:    :+:   */
/*                                                    +:+ +:+         +:+     */
/*   By: {login} <{mail}>{pad1}+#+  +:+       +#+        */
/*                                                +#+#+#+#+#+   +#+           */
/*   Created: {created} by {login}{pad2}#+#    #+#             */
/*   Updated: {updated} by {login}{pad3}###   ########.fr       */
/*                                                                            */
/* ************************************************************************** */
"""


def header(name="a.c", login="marvin", mail="marvin@student.42.fr", created="2020/01/01 00:00:00",
           updated="2020/01/01 00:00:00"):
    by = f"/*   By: {login} <{mail}>"
    pad1 = " " * max(1, 51 - len(by))
    cr = f"/*   Created: {created} by {login}"
    pad2 = " " * max(1, 54 - len(cr))
    up = f"/*   Updated: {updated} by {login}"
    pad3 = " " * max(1, 53 - len(up))
    return HEADER.format(name=name, login=login, mail=mail, created=created, updated=updated, pad1=pad1, pad2=pad2,
                         pad3=pad3)


STATEMENTS = [
    "\tg_x = a + 1;",
    "\tft_putnbr(a, b);",
    "\tb = (int)a * -1;",
    "\ta[b] = sizeof(int);",
    "\tptr->next = &a;",
    "\ta++;",
]

BLOCKS = [
    ["\tif (a > 0)", "\t\ta = b;"],
    ["\tif (a == b && b != 0)", "\t{", "\t\ta = 0;", "\t\tb = 1;", "\t}", "\telse", "\t\tb = 2;"],
    ["\twhile (a < 10)", "\t\ta++;"],
    ["\twhile (a)", "\t{", "\t\tif (b)", "\t\t\tbreak ;", "\t\ta--;", "\t}"],
    ["\tif (a)", "\t\treturn (1);", "\telse if (b)", "\t\treturn (2);"],
]


def function(name, rnd, nstmt=3, ret="int"):
    body = ["\tint\ta;", "\tint\tb;", "", "\ta = 0;", "\tb = 0;"]
    for _ in range(nstmt):
        if rnd.random() < 0.5:
            body.append(rnd.choice(STATEMENTS))
        else:
            body += rnd.choice(BLOCKS)
    body.append("\treturn (a + b);")
    return [f"{ret}\t{name}(int c, char **d)", "{"] + body + ["}"]


def conforming_c(rnd, nfunc=2, name="a.c"):
    """-> (text, list of 1-based line numbers where a top-level statement may be inserted)"""
    lines = header(name).rstrip("\n").split("\n")
    lines += ["", "#include <unistd.h>", "", "int\tg_x = 0;"]
    for i in range(nfunc):
        lines.append("")
        lines += function(f"ft_f{chr(97 + i)}", rnd, nstmt=rnd.randint(1, 3))
    text = "\n".join(lines) + "\n"
    return text


def conforming_h(name="a.h"):
    guard = name.upper().replace(".", "_")
    lines = header(name).rstrip("\n").split("\n")
    lines += ["", f"#ifndef {guard}", f"# define {guard}", "", "# include <unistd.h>", "", "typedef struct s_a",
              "{", "\tint\ta;", "}\tt_a;", "", "int\tft_fa(int c, char **d);", "", "#endif"]
    return "\n".join(lines) + "\n"


GARBAGE = ["@", "]", "'x'", "42", "$$", ")", "\"s\""]
# statements no primary rule recognises, wherever they stand (fatal at every statement boundary)
UNRECOGNISABLE = ["42;", "= 3;", "+ 1;"]


# body shapes for the statement-partition oracle: (lines, number of statements).  One
# statement per line except where a control statement and its empty body share a statement.
SHAPES = {
    "else_empty_last": (["\tif (a)", "\t\tb = 1;", "\telse ;"], 3),
    "else_empty_mid": (["\tif (a)", "\t\tb = 1;", "\telse ;", "\tb = 2;"], 4),
    "else_semi_glued": (["\tif (a)", "\t\tb = 1;", "\telse;", "\tb = 2;"], 4),
    "while_empty": (["\twhile (a--) ;", "\tb = 3;"], 2),
    "while_empty_nextline": (["\twhile (a--)", "\t\t;", "\tb = 3;"], 2),
    "while_empty_alone": (["\twhile (a--) ;"], 1),
    "while_empty_nextline_alone": (["\twhile (a--)", "\t\t;"], 1),
    "if_empty_nextline_alone": (["\tif (a)", "\t\t;"], 1),
    "return_void": (["\tif (a)", "\t\treturn ;"], 2),
    "else_if_chain": (["\tif (a)", "\t\tb = 1;", "\telse if (b)", "\t\tb = 2;", "\telse", "\t\tb = 3;"], 6),
    "nested_braces": (["\tif (a)", "\t{", "\t\twhile (b)", "\t\t{", "\t\t\tb--;", "\t\t}", "\t}"], 7),
    "if_in_else_block": (["\tif (a)", "\t\tb = 1;", "\telse", "\t{", "\t\tif (b)", "\t\t\tb = 2;", "\t}"], 7),
    "break_continue": (["\twhile (a)", "\t{", "\t\tif (b)", "\t\t\tbreak ;", "\t\tcontinue ;", "\t}"], 6),
    "plain": (["\ta = b + 1;", "\tft_putnbr(a, b);"], 2),
}


def shaped_program(shape_names, name="a.c", tail_return=True):
    """two functions; the first one's body is the concatenation of the named shapes.
    -> (text, expected number of statements)"""
    body, nst = [], 0
    for sn in shape_names:
        lines, k = SHAPES[sn]
        body += lines
        nst += k
    if tail_return:
        body.append("\treturn (b);")
        nst += 1
    hdr = header(name).rstrip("\n").split("\n")
    lines = hdr + ["", "int\tft_fa(int a, int b)", "{"] + body + ["}", "", "int\tft_fb(void)", "{", "\treturn (0);", "}"]
    # statements: 11 header comments + empty + prototype line + '{' + body + '}' + empty + 4 lines of ft_fb
    expected = 11 + 1 + 1 + 1 + nst + 1 + 1 + 4
    return "\n".join(lines) + "\n", expected


# legal but less common C (C99 / C11 / GNU spellings): every one is a complete translation unit
# when put after the 42 header.  Used by C05: whatever the verdict, the run has to end with one.
RARE_C = [
    "int\t__attribute__((unused))\tg_counter;\n",
    "static __attribute__((unused)) int\tg_b = 3;\n",
    "int\tg_c __attribute__((aligned(8)));\n",
    "__attribute__((noreturn)) void\tft_die(void);\n",
    "void\tft_die(void) __attribute__((noreturn));\n",
    "int\tft_fa(int a __attribute__((unused)))\n{\n\treturn (0);\n}\n",
    "_Static_assert(sizeof(int) == 4, \"int\");\n",
    "static_assert(1, \"x\");\n",
    "_Noreturn void\tft_exit(void);\n",
    "static inline int\tft_min(int a, int b)\n{\n\treturn (a);\n}\n",
    "extern int\tg_tab[];\n",
    "int\tg_tab[3] = {1, 2, 3};\n",
    "int\tg_mat[2][2] = {{1, 2}, {3, 4}};\n",
    "struct s_pt\tg_pt = {.x = 1, .y = 2};\n",
    "int\tg_arr[] = {[0] = 1, [2] = 3};\n",
    "char\tg_s[] = \"abc\" \"def\";\n",
    "const char\t*const g_names[] = {\"a\", \"b\", 0};\n",
    "int\t(*g_fp)(int, char **);\n",
    "int\t(*g_fps[3])(void);\n",
    "void\t(*ft_signal(int sig, void (*handler)(int)))(int);\n",
    "typedef int\t(*t_cmp)(const void *, const void *);\n",
    "typedef struct s_node\tt_node;\n",
    "struct s_bits\n{\n\tunsigned int\ta : 3;\n\tunsigned int\tb : 5;\n};\n",
    "union u_val\n{\n\tint\t\ti;\n\tfloat\tf;\n};\n",
    "struct s_outer\n{\n\tstruct\n\t{\n\t\tint\tx;\n\t}\tinner;\n};\n",
    "enum e_col\n{\n\tRED = 1 << 0,\n\tGREEN = 1 << 1\n};\n",
    "typedef enum e_bool\n{\n\tFALSE,\n\tTRUE\n}\tt_bool;\n",
    "int\tft_fa(int n, int tab[n])\n{\n\treturn (tab[0]);\n}\n",
    "int\tft_fa(int tab[static 3])\n{\n\treturn (tab[0]);\n}\n",
    "int\tft_fa(char *restrict dst, const char *restrict src)\n{\n\treturn (0);\n}\n",
    "int\tft_fa(void)\n{\n\tint\ta;\n\n\ta = (int){3};\n\treturn (a);\n}\n",
    "int\tft_fa(void)\n{\n\tint\ta;\n\n\ta = sizeof(int[3]);\n\treturn (a);\n}\n",
    "int\tft_fa(int a)\n{\n\treturn (a ? a : -a);\n}\n",
    "int\tft_fa(int a)\n{\n\treturn (a ?: 1);\n}\n",
    "int\tft_fa(int a)\n{\n\tdo\n\t{\n\t\ta--;\n\t} while (a);\n\treturn (a);\n}\n",
    "int\tft_fa(int a)\n{\n\tfor (int i = 0; i < a; i++)\n\t\ta--;\n\treturn (a);\n}\n",
    "int\tft_fa(int a)\n{\n\tswitch (a)\n\t{\n\t\tcase 1:\n\t\t\treturn (1);\n\t\tdefault:\n\t\t\tbreak ;\n\t}\n\treturn (0);\n}\n",
    "int\tft_fa(int a)\n{\n\tgoto end;\nend:\n\treturn (a);\n}\n",
    "int\tft_fa(int a)\n{\n\treturn (a, 1);\n}\n",
    "int\tft_fa(int *p)\n{\n\treturn (*p++ + ++*p - -*p);\n}\n",
    "int\tft_fa(int a)\n{\n\treturn (a >> 1 << 2 ^ ~a | !a & a % 3);\n}\n",
    "int\tft_fa(int a)\n{\n\ta <<= 1;\n\ta >>= 1;\n\ta ^= 1;\n\ta |= 1;\n\ta &= 1;\n\ta %= 2;\n\treturn (a);\n}\n",
    "int\tft_fa(struct s_pt *p)\n{\n\treturn (p->x + (*p).y);\n}\n",
    "int\tft_fa(void)\n{\n\treturn (L'a' + u'b' + U'c' + '\\x41' + '\\101' + '\\'');\n}\n",
    "char\t*ft_fa(void)\n{\n\treturn (u8\"x\" \"y\");\n}\n",
    "double\tft_fa(void)\n{\n\treturn (1e10 + 0x1p-3 + .5f + 1.L + 0b101 + 017 + 0xFFul);\n}\n",
    "int\tft_fa(void)\n{\n\treturn (__LINE__ + sizeof(__FILE__) + sizeof(__func__));\n}\n",
    "int\tft_fa(void)\n{\n\t__asm__(\"nop\");\n\treturn (0);\n}\n",
    "int\tft_fa(int a)\n{\n\treturn (__builtin_expect(a, 0));\n}\n",
    "int\tft_fa(int a, ...)\n{\n\treturn (a);\n}\n",
    "int\tft_fa(a, b)\nint\ta;\nint\tb;\n{\n\treturn (a + b);\n}\n",
    "int\tft_fa(void)\n{\n\tint\ta = 1, b = 2, *c = &a;\n\n\treturn (a + b + *c);\n}\n",
    "int\tft_fa(void)\n{\n\tstatic int\tcalls;\n\tregister int\ti;\n\tvolatile int\tv;\n\n\ti = 0;\n\tv = i;\n\treturn (calls++ + v);\n}\n",
    "int\tft_fa(void)\n{\n\t;\n\t;;\n\treturn (0);\n}\n",
    "int\tft_fa(void)\n{\n\t{\n\t\t{\n\t\t}\n\t}\n\treturn (0);\n}\n",
    "int\tft_fa(int a)\n{\n\tif (a)\n\t\tif (a > 1)\n\t\t\treturn (2);\n\t\telse\n\t\t\treturn (1);\n\treturn (0);\n}\n",
    "int\tft_fa(int a)\n{\n\twhile (a--)\n\t\t;\n\treturn (a);\n}\n",
    "# define MAX(a, b) ((a) > (b) ? (a) : (b))\n# define STR(x) #x\n# define CAT(a, b) a##b\n# define LOG(fmt, ...) printf(fmt, __VA_ARGS__)\n",
    "#if defined(__GNUC__) && (__GNUC__ >= 4) || !defined(X)\n# define A 1\n#elif 0\n# define A 2\n#else\n# define A 3\n#endif\n",
    "#ifdef __cplusplus\nextern \"C\" {\n#endif\n\nint\tft_fa(void);\n\n#ifdef __cplusplus\n}\n#endif\n",
    "#pragma once\n#pragma pack(push, 1)\n#line 42 \"x.c\"\n#error \"no\"\n#warning \"hm\"\n#undef X\n#\n",
    "#include <stdio.h>\n#include \"libft.h\"\n# include <sys/types.h>\n#include<unistd.h>\n",
    "# define MULTI(a) \\\n\tdo \\\n\t{ \\\n\t\ta; \\\n\t} while (0)\n",
    "int\tmain(int argc, char **argv, char **envp)\n{\n\t(void)argc;\n\t(void)argv;\n\t(void)envp;\n\treturn (0);\n}\n",
    "int\tft_fa(void)\n{\n\treturn ((int)(long)(void *)0);\n}\n",
    "int\tft_fa(int x)\n{\n\treturn (x <: 0 :> + x);\n}\n",
    "%:define A 1\n??=define B 2\nint\tg_t<:2:> = <%1, 2%>;\n",
    "int\tg_a = 1 +\\\n\t2;\nchar\t*g_s = \"a\\\nb\";\n",
    "long long unsigned int\tg_x;\nunsigned\tg_y;\nshort int\tg_z;\nsigned char\tg_w;\nlong double\tg_v;\n",
    "_Bool\tg_b;\n_Complex double\tg_c;\n_Atomic int\tg_a;\n_Alignas(16) int\tg_al;\n_Thread_local int\tg_t;\n",
    "int\tft_fa(void)\n{\n\treturn (_Generic(1, int: 1, default: 0) + _Alignof(int));\n}\n",
    "typeof(int)\tg_t;\n__typeof__(g_t)\tg_u;\n__extension__ long long\tg_v;\n",
    "int\tft_fa(void)\n{\n\tint\ta;\n\n\ta = ({ 1; });\n\treturn (a);\n}\n",
    "int\tg_a;;\n;\nint\tg_b;\n",
]


def unbalanced_units():
    """statements whose parenthesis / bracket / brace is never closed, inside and outside a
    function body, FOLLOWED by further lines (a prefix family never has anything after the cut):
    every scan that counts nesting has to stop at the end of the input"""
    heads = ["if (a", "while (a", "else if (a", "else\twhile (a", "else while (a", "return (a", "a = (b", "f(a, (b",
             "a[b", "a = b[c", "for (i = 0; i < n", "switch (a", "do\twhile (a", "x = sizeof(a", "if ((a) && (b",
             "while (f(a", "default:\twhile (a", "case 1:\tif (a", "int\tb = (1", "char\tc[3", "g = (t_x){1"]
    tails = ["\n}\n", "\n\treturn (0);\n}\n", ";\n}\n", "\n}\n\nint\tg(void)\n{\n\treturn (1);\n}\n"]
    out = []
    for h in heads:
        for t in tails:
            out.append("int\tf(int a, int b)\n{\n\t" + h + t)
    for h in ("int\tg_a = (1", "int\tg_t[2", "int\tf(int a", "typedef struct s_a\n{\n\tint\ta", "enum e_a\n{\n\tA = (1",
              "#define X (1", "#if (A", "#if defined(A"):
        for t in ("\n", "\n\nint\tg(void)\n{\n\treturn (1);\n}\n"):
            out.append(h + t)
    return out
