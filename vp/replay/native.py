"""Native runner: executes the REAL code of the tree under verification (PYTHONPATH
points at it) under the interpreter the test-suite uses.  Reads one JSON request on
stdin, writes one JSON answer on stdout.  No z3 here."""
import contextlib
import io
import json
import os
import signal
import sys
import traceback


class Timeout(Exception):
    pass


def _alarm(signum, frame):
    raise Timeout()


class TooManyHangs(BaseException):
    """the code under test gave no answer on several inputs: going on through thousands of
    inputs at one time limit each would only delay the report"""


HANG_LIMIT = 3
_hangs = []
_current = [None]


def note_input(desc):
    """what the code under test is about to be run on (kept for the report of a hang)"""
    _current[0] = desc


def record_hang(desc, decisive=False):
    _hangs.append(desc)
    if decisive or len(_hangs) >= HANG_LIMIT:
        raise TooManyHangs()


def with_timeout(fn, seconds):
    signal.signal(signal.SIGALRM, _alarm)
    signal.setitimer(signal.ITIMER_REAL, seconds)
    try:
        return fn()
    except Timeout:
        signal.setitimer(signal.ITIMER_REAL, 0)
        record_hang(dict(_current[0] or {"kind": "unknown"}, seconds=seconds))
        raise
    finally:
        signal.setitimer(signal.ITIMER_REAL, 0)


def cli_timed_out(args, cwd, seconds):
    """a command-line run that did not end: one is decisive (each costs a full time limit)"""
    files = {}
    try:
        for root, _, names in os.walk(cwd):
            for n in names:
                full = os.path.join(root, n)
                rel = os.path.relpath(full, cwd)
                if ".git" + os.sep in rel or rel.startswith(".git"):
                    continue
                if len(files) < 24 and os.path.isfile(full) and os.path.getsize(full) < 8192:
                    try:
                        files[rel] = open(full, encoding="utf-8", errors="replace").read()
                    except Exception:
                        pass
    except Exception:
        pass
    record_hang({"kind": "cli", "args": list(args), "files": files, "seconds": seconds}, decisive=True)


def guarded_main(fn):
    """entry point of every native harness: a run cut short by hangs answers with the inputs
    that hung instead of a result"""
    try:
        fn()
    except TooManyHangs:
        sys.stdout.write(json.dumps({"aborted_after_hangs": _hangs}))


_registry = None


def registry():
    global _registry
    if _registry is None:
        from norminette.registry import Registry
        _registry = Registry()
    return _registry


def err_tuple(e):
    hs = [(h.lineno, h.column, h.length, h.hint) for h in e.highlights]
    return {"name": e.name, "level": e.level, "text": e.text, "highlights": hs}


def lex(text, name="a.c"):
    from norminette.file import File
    from norminette.lexer import Lexer
    f = File(name, text)
    note_input({"kind": "lex", "text": text, "name": name})
    out = {"tokens": None, "errors": None, "exc": None}
    try:
        toks = with_timeout(lambda: list(Lexer(f)), 10)
        out["tokens"] = [(t.type, t.pos[0], t.pos[1], t.value) for t in toks]
    except Timeout:
        out["exc"] = "TIMEOUT"
    except RecursionError:
        out["exc"] = "RecursionError"
    except Exception as e:
        out["exc"] = type(e).__name__
    out["errors"] = [err_tuple(e) for e in f.errors._inner]
    return out


def pipeline(text, name="a.c", debug=0, R=None, timeout=10, sorted_errors=True, restore_limit=True):
    """Lexer + Context + Registry.run on one in-memory file, as main() does it"""
    from norminette.file import File
    from norminette.lexer import Lexer
    from norminette.context import Context
    from norminette.exceptions import CParsingError
    f = File(name, text)
    note_input({"kind": "pipeline", "text": text, "name": name})
    out = {"status": None, "errors": [], "fatal": None, "exc": None, "stdout": ""}
    buf = io.StringIO()
    rl = sys.getrecursionlimit()
    try:
        with contextlib.redirect_stdout(buf):
            def go():
                toks = list(Lexer(f))
                ctx = Context(f, toks, debug, R)
                registry().run(ctx)
            with_timeout(go, timeout)
    except CParsingError as e:
        out["fatal"] = str(e.msg)
    except Timeout:
        out["exc"] = "TIMEOUT"
    except RecursionError:
        out["exc"] = "RecursionError"
    except Exception as e:
        tb = traceback.extract_tb(e.__traceback__)
        fr = tb[-1]
        # the site is the innermost frame inside a rule (what the finding is about); helper
        # frames below it (new_error, from_token, peek_token ...) are shared by many callers
        for cand in reversed(tb):
            if os.sep + "rules" + os.sep in cand.filename and not cand.filename.endswith("rule.py"):
                fr = cand
                break
        out["exc"] = type(e).__name__
        out["exc_site"] = f"{os.path.basename(fr.filename)}:{fr.name}"
        out["exc_line"] = fr.line
    out["reclimit_after"] = sys.getrecursionlimit()
    if restore_limit:
        sys.setrecursionlimit(rl)
    out["stdout"] = buf.getvalue()[-2000:]
    try:
        errs = list(f.errors) if sorted_errors else list(f.errors._inner)
    except Exception as e:
        errs = list(f.errors._inner)
        out["sort_exc"] = type(e).__name__
    out["errors"] = [err_tuple(e) for e in errs]
    out["status"] = f.errors.status
    return out


def rule_run(spec):
    """run one real rule method on a hand-built token list inside a real Context.
    spec: {module, cls, tokens:[(type,line,col,value)], name, history:[names], scope:{cls, attrs},
           ctx:{attr:value}, method}"""
    import importlib
    from norminette.file import File
    from norminette.lexer import Token
    from norminette.context import Context
    from norminette import scope as scope_mod
    toks = [Token(t[0], (t[1], t[2]), t[3]) for t in spec["tokens"]]
    note_input({"kind": "rule", "spec": spec})
    f = File(spec.get("name", "a.c"), "")
    ctx = Context(f, toks, spec.get("debug", 0))
    mod = importlib.import_module(spec["module"])
    cls = getattr(mod, spec["cls"])
    # history entries are rule instances in the real engine; Rule.__eq__ compares names
    from norminette.rules import Rule

    class _H(Rule):
        pass
    hist = []
    for n in spec.get("history", []):
        h = object.__new__(type(n, (Rule,), {"__slots__": ()}))
        type(h).name = n
        hist.append(h)
    ctx.history = hist
    sc = spec.get("scope")
    if sc:
        chain = sc if isinstance(sc, list) else [sc]
        cur = None
        for lvl in chain:
            k = getattr(scope_mod, lvl["cls"])
            cur = k() if lvl["cls"] == "GlobalScope" else k(cur)
            for a, v in lvl.get("attrs", {}).items():
                setattr(cur, a, v)
        ctx.scope = cur
    for a, v in spec.get("ctx", {}).items():
        if a == "preproc":
            for a2, v2 in v.items():
                if a2 == "macros":
                    from norminette.context import Macro
                    ctx.preproc.macros = [Macro(m) for m in v2]
                else:
                    setattr(ctx.preproc, a2, v2)
        else:
            setattr(ctx, a, v)
    if "tkn_scope" in spec:
        ctx.tkn_scope = spec["tkn_scope"]
    out = {"result": None, "exc": None, "errors": None}
    try:
        inst = cls(ctx)
        meth = getattr(inst, spec.get("method", "run"))
        r = with_timeout(lambda: meth(ctx, *spec.get("args", [])), 5)
        out["result"] = list(r) if isinstance(r, tuple) else r
    except Timeout:
        out["exc"] = "TIMEOUT"
    except Exception as e:
        out["exc"] = type(e).__name__
    out["errors"] = [err_tuple(e) for e in f.errors._inner]
    out["scope"] = {k: getattr(ctx.scope, k, None) for k in ("name", "lines", "vars", "functions", "multiline")} \
        if ctx.scope is not None else None
    out["ctx"] = {k: getattr(ctx, k, None) for k in ("header_started", "header_parsed", "protected", "header")}
    out["tokens_after"] = [(t.type, t.pos[0], t.pos[1]) for t in toks]
    return out


def segments(text, name="a.c", debug=0, timeout=10):
    """whole pipeline with an observing wrapper around Context.pop_tokens (test-side, no
    source change): the list of (tokens left before, stop) of every call"""
    from norminette.file import File
    from norminette.lexer import Lexer
    from norminette.context import Context
    from norminette.exceptions import CParsingError
    f = File(name, text)
    note_input({"kind": "pipeline", "text": text, "name": name})
    out = {"n0": None, "pops": [], "fatal": None, "exc": None, "status": None, "scope_end": None, "segs": [], "depth": []}
    orig = Context.pop_tokens

    def wrapper(self, stop):
        toks = self.tokens
        out["pops"].append((len(toks), stop))
        seg = toks[:stop]
        if seg:
            first, last = seg[0], seg[-1]
            # the scope after this statement (Context.update ran before pop_tokens); a statement
            # made of a '}' at column 1 closes a function
            closes_function = first.type == "RBRACE" and first.pos[1] == 1
            out["segs"].append((first.pos[0], first.pos[1], last.type, last.pos[0],
                                self.history[-1].name if self.history else None))
            out["depth"].append((first.pos[0], self.scope.name, closes_function))
        return orig(self, stop)
    Context.pop_tokens = wrapper
    buf = io.StringIO()
    try:
        with contextlib.redirect_stdout(buf):
            def go():
                toks = list(Lexer(f))
                out["n0"] = len(toks)
                ctx = Context(f, toks, debug)
                try:
                    registry().run(ctx)
                finally:
                    out["scope_end"] = ctx.scope.name if ctx.scope is not None else None
            with_timeout(go, timeout)
    except CParsingError as e:
        out["fatal"] = str(e.msg)
    except Timeout:
        out["exc"] = "TIMEOUT"
    except RecursionError:
        out["exc"] = "RecursionError"
    except Exception as e:
        out["exc"] = type(e).__name__
    finally:
        Context.pop_tokens = orig
    out["stdout"] = buf.getvalue()[-500:]
    out["status"] = f.errors.status
    out["errors"] = [e.name for e in f.errors._inner]
    return out


OPS = {"segments": lambda r: segments(r["text"], r.get("name", "a.c"), r.get("debug", 0)),
       "lex": lambda r: lex(r["text"], r.get("name", "a.c")),
       "pipeline": lambda r: pipeline(r["text"], r.get("name", "a.c"), r.get("debug", 0), r.get("R"),
                                      r.get("timeout", 10)),
       "rule": rule_run}


def main():
    req = json.load(sys.stdin)
    out = []
    for r in req["tasks"]:
        try:
            out.append(OPS[r["op"]](r))
        except Exception as e:
            out.append({"harness_error": repr(e), "tb": traceback.format_exc()[-1500:]})
    json.dump({"results": out}, sys.stdout)


if __name__ == "__main__":
    guarded_main(main)
