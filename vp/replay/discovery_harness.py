"""Native harness for C15: the real command line on generated directory trees."""
import json
import os
import random
import re
import shutil
import subprocess
import sys
import tempfile

from vp.replay.cli_harness import content, ANSI, run_cli, json_report

GOOD = (".c", ".h")
LOOKALIKE = (".cc", ".hh", ".C", ".c.bak", ".txt", "")


def make_tree(root, rnd, depth=0):
    """-> list of relative paths of regular files created (all of them)"""
    files = []
    for _ in range(rnd.randint(1, 4)):
        stem = rnd.choice(["a", "ft_x", "my file", "lib.ft", "x9", "Makefile", "b_b"])
        suf = rnd.choice(GOOD + GOOD + LOOKALIKE)
        name = stem + suf
        p = os.path.join(root, name)
        if os.path.exists(p) or not name:
            continue
        with open(p, "w") as fh:
            fh.write(content(rnd.choice(["clean", "error"]), name) if suf in GOOD else "not C\n")
        files.append(p)
    if depth < 3:
        for _ in range(rnd.randint(0, 2)):
            d = os.path.join(root, rnd.choice(["src", "inc", "sub dir", "v1.2", "empty"]) + str(rnd.randint(0, 9)))
            if os.path.exists(d):
                continue
            os.makedirs(d)
            if "empty" not in d:
                files += make_tree(d, rnd, depth + 1)
    return files


def verdicts(out):
    res = []
    for line in ANSI.sub("", out).split("\n"):
        m = re.match(r"^(.*): (OK|Error)!$", line)
        if m:
            res.append(m.group(1))
    return res


def check_tree(seed, use_git):
    rnd = random.Random(seed)
    d = tempfile.mkdtemp(prefix="c15_")
    try:
        allfiles = make_tree(d, rnd)
        # always: a file with a non-ASCII name, and a directory reached through a symbolic link
        # (found recursively like any other directory)
        os.makedirs(os.path.join(d, "real lib"), exist_ok=True)
        os.makedirs(os.path.join(d, "proj"), exist_ok=True)
        for e in ("real lib/ft_len.c", "real lib/lib.h", "proj/main.c", "proj/liste_cha\u00een\u00e9e.c"):
            if not os.path.exists(os.path.join(d, e)):
                with open(os.path.join(d, e), "w") as fh:
                    fh.write(content("clean", os.path.basename(e)))
                allfiles.append(os.path.join(d, e))
        # (not in git trees: `git check-ignore` refuses paths beyond a symbolic link and the run is
        # abandoned with status 0 -- known finding K10, witnessed separately)
        if not use_git and not os.path.lexists(os.path.join(d, "proj", "lnk")):
            os.symlink(os.path.join("..", "real lib"), os.path.join(d, "proj", "lnk"))
        rel = [os.path.relpath(p, d) for p in allfiles]
        dirs = sorted({os.path.dirname(r) for r in rel if os.path.dirname(r)})
        ignored = set()
        if use_git:
            subprocess.run(["git", "init", "-q", d], capture_output=True)
            pats = rnd.sample(rel, min(2, len(rel)))
            # always: an ignored directory whose name and files contain spaces, and a kept file whose
            # name is a fragment of an ignored path
            os.makedirs(os.path.join(d, "ig dir"), exist_ok=True)
            extra = ["ig dir/gen out.c", "ig dir/gen.c", "out.c", "gen.c", "proj/x_g\u00e9n\u00e9r\u00e9.c"]
            for e in extra:
                if not os.path.exists(os.path.join(d, e)):
                    with open(os.path.join(d, e), "w") as fh:
                        fh.write(content("clean", os.path.basename(e)))
                    allfiles.append(os.path.join(d, e))
            rel = [os.path.relpath(p, d) for p in allfiles]
            dirs = sorted({os.path.dirname(r) for r in rel if os.path.dirname(r)})
            with open(os.path.join(d, ".gitignore"), "w") as fh:
                for p in pats:
                    fh.write("/" + p + "\n")
                fh.write("/ig dir/\n")
                fh.write("*_g\u00e9n\u00e9r\u00e9.c\n")
            ignored = set(pats) | {"ig dir/gen out.c", "ig dir/gen.c", "proj/x_g\u00e9n\u00e9r\u00e9.c"}
        # argument lists: files, directories, both, none, with a missing path
        arglists = [[], ["."]]
        if rel:
            arglists.append(rnd.sample(rel, min(3, len(rel))))
            arglists.append([rel[0], rel[0]])
        if dirs:
            arglists.append([rnd.choice(dirs)])
            arglists.append([rnd.choice(dirs)] + (rel[:1]))
        arglists.append((rel[:1]) + ["no_such_path.c"])
        arglists.append(["proj"])
        problems = []
        for args in arglists:
            cli = (["--use-gitignore"] if use_git else []) + args
            rc, out, err = run_cli(cli, d)
            if "Traceback" in err:
                problems.append((args, "internal exception: " + err.strip().split("\n")[-1]))
                continue
            got = sorted(verdicts(out))
            # expected: once per mention
            want = []
            missing = False
            rejected = []
            for a in (args or ["."]):
                p = os.path.normpath(os.path.join(d, a))
                if not os.path.exists(p):
                    missing = True
                    break
                if os.path.isfile(p):
                    if p.endswith(GOOD) and os.path.splitext(p)[1] in GOOD:
                        if a not in ignored:
                            want.append(os.path.basename(p))
                    else:
                        rejected.append(os.path.basename(p))
                else:
                    for dp, dn, fn in os.walk(p, followlinks=True):
                        dn[:] = [x for x in dn if not x.startswith(".")]
                        for f in fn:
                            full = os.path.join(dp, f)
                            r_ = os.path.relpath(full, d)
                            if os.path.splitext(f)[1] in GOOD and not f.startswith(".") and r_ not in ignored:
                                want.append(f)
            if missing:
                if rc == 0:
                    problems.append((args, "a nonexistent path was given but the exit status is 0"))
                # (the statement asks for the non-zero status only; a message naming the path is not required)
                continue
            if sorted(want) != got:
                problems.append((args, f"checked files {got}, expected {sorted(want)}"))
            for r_ in rejected:
                if r_ not in out or f"{r_}: OK!" in out or f"{r_}: Error!" in out:
                    problems.append((args, f"{r_} (not a .c/.h file) is not rejected with a message"))
        return problems
    finally:
        shutil.rmtree(d, ignore_errors=True)


def dotdot_scenario():
    """two different files whose relative paths differ only by leading ./ and ../ characters, in
    one invocation: both are checked, each on its own content (the second one lacks its header)"""
    viol, unreadable = [], []
    d = tempfile.mkdtemp(prefix="c15d_")
    try:
        os.makedirs(os.path.join(d, "libft", "src"))
        os.makedirs(os.path.join(d, "src"))
        with open(os.path.join(d, "libft", "src", "ft_util.c"), "w") as fh:
            fh.write(content("clean", "ft_util.c"))
        with open(os.path.join(d, "src", "ft_util.c"), "w") as fh:
            fh.write("int\tft_other(void)\n{\n\treturn (1);\n}\n")      # no 42 header
        for args in (["src/ft_util.c", "../src/ft_util.c"], ["./src/ft_util.c", "../src/ft_util.c"], ["../src/ft_util.c", "src/ft_util.c"]):
            rc, out, err = run_cli(["-f", "json"] + args, os.path.join(d, "libft"))
            data = json_report(out)
            if data is None:
                unreadable.append(f"arguments {args}: no JSON report")
                continue
            paths = [f["path"] for f in data["files"]]
            if len(paths) != 2:
                viol.append(f"arguments {args}: {len(paths)} files reported ({[os.path.relpath(p, d) for p in paths]}), 2 mentioned")
                continue
            for f in data["files"]:
                n = sum(1 for e in f["errors"] if e["name"] == "INVALID_HEADER")
                headerless = os.path.relpath(f["path"], d) == os.path.join("src", "ft_util.c")
                if n != (1 if headerless else 0):
                    viol.append(f"arguments {args}: {os.path.relpath(f['path'], d)} gets INVALID_HEADER {n} time(s)")
    finally:
        shutil.rmtree(d, ignore_errors=True)
    return {"cases": 3, "violations": viol, "unreadable": unreadable}


def k10_witness():
    """--use-gitignore with a directory reached through a symbolic link"""
    d = tempfile.mkdtemp(prefix="c15k_")
    try:
        subprocess.run(["git", "init", "-q", d], capture_output=True)
        os.makedirs(os.path.join(d, "real lib"))
        os.makedirs(os.path.join(d, "proj"))
        for e in ("real lib/ft_len.c", "proj/main.c"):
            with open(os.path.join(d, e), "w") as fh:
                fh.write(content("clean", os.path.basename(e)))
        os.symlink(os.path.join("..", "real lib"), os.path.join(d, "proj", "lnk"))
        rc, out, err = run_cli(["--use-gitignore", "proj"], d)
        got = sorted(verdicts(out))
        return {"still_fails": got != ["ft_len.c", "main.c"], "checked": got, "rc": rc, "out": out[-200:]}
    finally:
        shutil.rmtree(d, ignore_errors=True)


def main():
    task = json.load(sys.stdin)
    if task["op"] == "dotdot":
        json.dump(dotdot_scenario(), sys.stdout)
        return
    if task["op"] == "k10":
        json.dump(k10_witness(), sys.stdout)
        return
    if task["op"] == "one":
        pr = check_tree(task["seed"], task["use_git"])
        json.dump({"violations": [f"{a}: {m}" for a, m in pr]}, sys.stdout)
        return
    from concurrent.futures import ThreadPoolExecutor
    seeds = [(task.get("seed", 0) * 1000 + i, bool(i % 3 == 0)) for i in range(task.get("trees", 12))]
    viol, cases = [], 0
    with ThreadPoolExecutor(max_workers=8) as ex:
        for (sd, ug), pr in zip(seeds, ex.map(lambda x: check_tree(*x), seeds)):
            cases += 8
            for a, m in pr:
                viol.append({"what": f"arguments {a} (tree seed {sd}, gitignore={ug}): {m}",
                             "task": {"op": "one", "seed": sd, "use_git": ug}})
    json.dump({"cases": cases, "nontrivial": len(seeds), "violations": viol[:5],
               "samples": [{"tree_seed": s, "gitignore": g} for s, g in seeds[:3]],
               "bound": f"{len(seeds)} seeded trees (nesting <= 3, names with spaces and inner dots, suffixes .cc .hh .C "
                        ".c.bak .txt and none, empty directories, a third of them with a git repository and a "
                        ".gitignore) x up to 7 argument lists (none, '.', files, a file twice, a directory, directory + "
                        "file, a missing path)"}, sys.stdout)


if __name__ == "__main__":
    from vp.replay.native import guarded_main
    guarded_main(main)
