"""Native harness for C06: diagnostics of a file must not depend on what was processed
before it in the same process, nor on the order in which the rules directory is listed."""
import json
import os
import random
import subprocess
import sys

from vp.replay.native import pipeline


def key(res):
    if res.get("exc"):
        return ["exc", res["exc"]]
    if res.get("fatal"):
        return ["fatal", res["fatal"]]
    return [[e["name"], e["level"], e["highlights"][0][0], e["highlights"][0][1]] for e in res["errors"]]


def alone(name, text):
    """a fresh process per file"""
    code = ("import json,sys; from vp.replay.native import pipeline; from vp.replay.history_harness import key;"
            "d=json.load(sys.stdin); print(json.dumps(key(pipeline(d['text'], d['name'], restore_limit=False))))")
    p = subprocess.run([sys.executable, "-c", code], input=json.dumps({"name": name, "text": text}), text=True,
                       capture_output=True, env=dict(os.environ), timeout=120)
    if p.returncode != 0:
        return ["harness-error", p.stderr[-300:]]
    return json.loads(p.stdout)


def rule_order(shuffle_seed):
    code = ("import os, random, json\n"
            "seed = %d\n"
            "orig = os.listdir\n"
            "def listdir(p='.'):\n"
            "    r = sorted(orig(p))\n"
            "    if seed >= 0:\n"
            "        random.Random(seed).shuffle(r)\n"
            "    else:\n"
            "        r.reverse()\n"
            "    return r\n"
            "os.listdir = listdir\n"
            "from norminette.registry import Registry, rules\n"
            "reg = Registry()\n"
            "print(json.dumps({'primaries': [r.__name__ for r in rules.primaries],\n"
            "                  'deps': {k: [c.__name__ for c in v] for k, v in sorted(reg.dependencies.items())}}))\n"
            % shuffle_seed)
    p = subprocess.run([sys.executable, "-c", code], text=True, capture_output=True, env=dict(os.environ), timeout=120)
    if p.returncode != 0:
        return {"error": p.stderr[-400:]}
    return json.loads(p.stdout)


def main():
    task = json.load(sys.stdin)
    files = task["files"]
    rnd = random.Random(task.get("seed", 0))
    viol, cases = [], 0
    base = {}
    for name, text in files:
        base[name] = alone(name, text)
        cases += 1
    # same process: each file twice in a row, and after every other file of a few seeded orders
    for name, text in files:
        a = key(pipeline(text, name, restore_limit=False))
        b = key(pipeline(text, name, restore_limit=False))
        cases += 2
        if a != base[name] or b != base[name]:
            viol.append({"what": f"{name}: diagnostics differ between a fresh process and a process that already "
                                 f"checked other files (or the same file before)",
                         "task": {"files": [[name, text]], "seed": 0, "orders": 1}})
    for _ in range(task.get("orders", 3)):
        order = files[:]
        rnd.shuffle(order)
        for name, text in order:
            r = key(pipeline(text, name, restore_limit=False))
            cases += 1
            if r != base[name]:
                prev = order[max(0, order.index((name, text)) - 1)][0] if isinstance(order[0], tuple) else "?"
                viol.append({"what": f"{name}: diagnostics after other files in the same process differ from a fresh "
                                     f"process (alone: {str(base[name])[:120]}, here: {str(r)[:120]})",
                             "task": {"files": [list(x) for x in order], "seed": 0, "orders": 1}})
                break
    ref = rule_order(-2 ** 31) if False else None
    orders = [rule_order(s) for s in (-1, 1, 2)]
    cases += len(orders)
    for o in orders[1:]:
        if o != orders[0]:
            viol.append({"what": "the order of primaries / dependent checks depends on the directory listing order: "
                                 + str({k: (orders[0].get(k), o.get(k)) for k in o if o.get(k) != orders[0].get(k)})[:300],
                         "task": {"files": [], "seed": 0, "orders": 0}})
            break
    json.dump({"cases": cases, "nontrivial": len(files), "violations": viol[:5],
               "samples": [f[0] for f in files[:4]],
               "bound": f"{len(files)} files (repository samples, generated files, two fatal files, a deep #if) each "
                        f"alone in a fresh process, twice in one process, and inside {task.get('orders', 3)} seeded "
                        "orders of all files in one process; rule registry built under 3 directory-listing orders"},
              sys.stdout)


if __name__ == "__main__":
    from vp.replay.native import guarded_main
    guarded_main(main)
