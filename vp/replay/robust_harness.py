"""Native harness for C05: every input gets an answer.  Runs the real tokenizer / pipeline on
damaged inputs (token prefixes, token edits, garbage runs) with a watchdog; outcomes other
than a verdict or a CParsingError are reported with the raising site."""
import glob
import json
import os
import random
import sys

from vp.replay.native import pipeline, lex


def token_boundaries(text):
    """raw offsets where a token of the real lexer starts (positions -> offsets)"""
    r = lex(text)
    if r["exc"] or r["tokens"] is None:
        return []
    offs = {}
    line, col, out = 1, 1, {}
    for i, ch in enumerate(text):
        out[(line, col)] = i
        if ch == "\n":
            line, col = line + 1, 1
        elif ch == "\t":
            col += 4 - (col - 1) % 4
        else:
            col += 1
    return sorted({out[(t[1], t[2])] for t in r["tokens"] if (t[1], t[2]) in out})


def outcome(res):
    if res.get("exc"):
        return "exc:" + res["exc"] + "@" + str(res.get("exc_site"))
    if res.get("fatal"):
        return "fatal"
    return "verdict"


def op_lexer(task):
    """tokenizer totality: all strings up to a length over a reduced alphabet, long runs"""
    import itertools
    alphabet = task.get("alphabet", ["a", "0", " ", "\n", "\\", "\"", "'", "/", "*", "?", ".", "=", "@", "#", "<", "%", ":", "x", "+", "e"])
    maxlen = task.get("maxlen", 3)
    viol, cases = [], 0
    seen = {}
    for n in range(1, maxlen + 1):
        for combo in itertools.product(alphabet, repeat=n):
            text = "".join(combo)
            cases += 1
            r = lex(text)
            if r["exc"]:
                seen.setdefault(r["exc"], text)
    for ch in ("@", "$", "`", "\x01"):
        for n in (50, 999, 1001, 3000):
            cases += 1
            r = lex(ch * n)
            if r["exc"]:
                seen.setdefault(r["exc"] + ":long-run", ch * n)
    for text in ("'" + "a" * 150 + "'", "\"abc\\\n", "a" + "\\\n" * 150 + "b", "// x" + "\\\n" * 120 + "y\n"):
        cases += 1
        r = lex(text)
        if r["exc"]:
            seen.setdefault(r["exc"] + ":special", text)
    # every proper prefix of one lexeme of every kind (what an editor sees while it is typed),
    # alone, after other tokens, and with each alternative spelling of its special characters
    lexemes = ['"abc"', '"a\\n\\t\\\\b"', '"\\x41z"', '"\\x4"', '"\\101"', '"\\7"', '"\\q"', 'L"w"', 'u8"s"', "'a'", "'\\x7f'",
               "'\\0'", "'\\''", "L'a'", "''", "/* c */", "/* a\n b */", "// line\n", "//\\\nx\n", "0x1F", "0x1.8p+3f",
               "0b101", "017", "1.5e-3L", "0xe+1", "0x1E-2u", "1e+", "12lL", "0778", "0b12", "1.2.3", "0xx1.0p1", "'ab'", "12ull", ".5f", "1e", "0x", "1..2", "abc_1", "__attribute__", ">>=", "->", "...",
               "??=", "??/\nx", "<%", "%:%:", "#include <a.h>\n", "a\\\nb", "@", "\\"]
    pre = ["", "x = ", "\t"]
    fam = 0
    for lx in lexemes:
        variants = {lx, lx.replace("\\", "??/"), lx.replace("#", "%:").replace("[", "<:")}
        for v in variants:
            for k in range(1, len(v) + 1):
                for p in pre:
                    for tail in ("", "\n") if k == len(v) else ("",):
                        text = p + v[:k] + tail
                        cases += 1
                        fam += 1
                        r = lex(text)
                        if r["exc"]:
                            seen.setdefault(r["exc"] + ":prefix", text)
    # long tokens of every kind, each in its own process with a hard time limit: a regular
    # expression that backtracks exponentially cannot be interrupted from inside the interpreter
    longs = []
    for n in (40, 400):
        longs += ["1" * n + ";", "0" * n + ";", "0x" + "f" * n + ";", "0b" + "01" * (n // 2) + ";", "1." + "0" * n + ";",
                  "." + "9" * n + "f;", "1e+" + "0" * n + ";", "0x1p" + "7" * n + ";", "1" * n + "u" * 3 + ";",
                  "a" * n + ";", "_" * n + ";", "\"" + "a" * n + "\";", "/*" + "x" * n + "*/", "//" + "y" * n + "\n",
                  " " * n + "a", "\t" * n + "a", "+" * n, "(" * n, "1" * n + "." * 3 + "e" * 3 + ";"]
    import multiprocessing as mp

    def child(text, q):
        q.put(lex(text)["exc"])
    ctx = mp.get_context("fork")
    for text in longs:
        cases += 1
        q = ctx.Queue()
        pr = ctx.Process(target=child, args=(text, q))
        pr.start()
        pr.join(task.get("long_timeout", 8))
        if pr.is_alive():
            pr.kill()
            pr.join()
            seen.setdefault("TIMEOUT:long-token", text)
        else:
            try:
                e = q.get(timeout=2)
            except Exception:
                e = "no-answer"
            if e:
                seen.setdefault(str(e) + ":long-token", text)
    return {"cases": cases, "exceptions": seen, "prefix_family": fam, "long_tokens": len(longs)}


def op_prefixes(task):
    rnd = random.Random(task.get("seed", 0))
    files = task["files"]
    per_file = task.get("per_file", 25)
    viol, cases = {}, 0
    outcomes = {}
    for name, text in files:
        bounds = token_boundaries(text)
        if not bounds:
            continue
        if task.get("every"):
            picks = set(bounds[::task["every"]])
        else:
            picks = set(rnd.sample(bounds, min(per_file, len(bounds))))
        picks |= {b for b in bounds if b > 0 and text[b - 1] == "\n"} if task.get("line_ends") else set()
        for b in sorted(picks):
            for variant in (text[:b], text[:b].rstrip("\n")):
                cases += 1
                r = pipeline(variant, name, timeout=task.get("timeout", 5))
                o = outcome(r)
                outcomes[o.split("@")[0]] = outcomes.get(o.split("@")[0], 0) + 1
                if o.startswith("exc:"):
                    key = o
                    if key not in viol:
                        viol[key] = {"what": f"{name} cut after {b} characters: {o} ({r.get('exc_line')})",
                                     "task": {"op": "one", "text": variant, "name": name}, "site": r.get("exc_site"),
                                     "exc": r["exc"]}
        # single token edits: delete / duplicate one token
        for _ in range(task.get("edits", 6)):
            if len(bounds) < 3:
                break
            k = rnd.randrange(len(bounds) - 1)
            a, b2 = bounds[k], bounds[k + 1]
            for variant in (text[:a] + text[b2:], text[:b2] + text[a:b2] + text[b2:]):
                cases += 1
                r = pipeline(variant, name, timeout=task.get("timeout", 5))
                o = outcome(r)
                if o.startswith("exc:") and o not in viol:
                    viol[o] = {"what": f"{name} with one token edited: {o} ({r.get('exc_line')})",
                               "task": {"op": "one", "text": variant, "name": name}, "site": r.get("exc_site"),
                               "exc": r["exc"]}
    return {"cases": cases, "violations": list(viol.values()), "outcomes": outcomes}


def op_one(task):
    r = pipeline(task["text"], task.get("name", "a.c"), timeout=10)
    return {"outcome": outcome(r), "violations": [outcome(r)] if outcome(r).startswith("exc:") else []}


def main():
    task = json.load(sys.stdin)
    json.dump({"lexer": op_lexer, "prefixes": op_prefixes, "one": op_one}[task["op"]](task), sys.stdout)


if __name__ == "__main__":
    from vp.replay.native import guarded_main
    guarded_main(main)
