"""Native harness for C12 and C11: respelling / splice invariance of the token sequence,
longest-match operators, classification of C literals."""
import itertools
import json
import random
import sys

from vp.replay.native import lex, pipeline

TRI = {"{": "??<", "}": "??>", "[": "??(", "]": "??)", "#": "??=", "\\": "??/", "^": "??'", "|": "??!", "~": "??-"}
DI = {"{": "<%", "}": "%>", "[": "<:", "]": ":>", "#": "%:"}
OPCHARS = "+-*/,<>^&|!=%;:.~?#"


def kinds(text):
    r = lex(text)
    if r["exc"]:
        return ("exc", r["exc"])
    return [(t[0], t[3]) for t in r["tokens"]], [e["name"] for e in r["errors"]]


def op_operators(task):
    """complete evaluation: every string of <= 3 operator characters (plus one neutral
    character) lexes to the longest operator that is a prefix, then the rest; in every spelling"""
    from norminette.lexer.dictionary import operators
    keys = sorted(operators, key=len, reverse=True)
    viol, cases = [], 0
    alphabet = OPCHARS + "a"
    for n in (1, 2, 3):
        for combo in itertools.product(alphabet, repeat=n):
            s = "".join(combo)
            if s[0] == "a" or "//" in s or "/*" in s or s in ("?", ) or "??" in s or "<%" in s or "%>" in s \
                    or "<:" in s or ":>" in s or "%:" in s:
                continue              # comments and the alternative spellings themselves are other lexemes
            cases += 1
            # expected first token: longest key that is a prefix (from the statement)
            first = next((k for k in keys if s.startswith(k)), None)
            r = kinds(s + " ")
            if r[0] == "exc":
                viol.append({"what": f"{s!r}: tokenizer raises {r[1]}", "text": s})
                continue
            toks = r[0]
            if first is None or not toks or toks[0][0] != operators[first]:
                viol.append({"what": f"{s!r}: first token {toks[:1]}, longest operator prefix is {first!r} "
                                     f"({operators.get(first)})", "text": s})
                continue
            # every respelling of the characters that have one gives the same kinds
            variants = [s]
            choices = [[ch] + [t[ch] for t in (TRI, DI) if ch in t] for ch in s]
            for combo2 in itertools.product(*choices):
                v = "".join(combo2)
                if v != s:
                    variants.append(v)
            from vp.replay.lexpos import logical
            for v in variants[1:]:
                if "".join(ch for ch, _o, _z in logical(v)) != s:
                    continue          # the respelled characters combine with a neighbour into another spelling
                cases += 1
                r2 = kinds(v + " ")
                if r2[0] == "exc" or [k for k, _ in r2[0]] != [k for k, _ in toks]:
                    viol.append({"what": f"{s!r} respelled {v!r}: kinds {r2[0] if r2[0] != 'exc' else r2} vs {toks}",
                                 "text": v})
    return {"cases": cases, "violations": viol[:200]}


def respell(text, rnd, table):
    out = []
    for ch in text:
        if ch in table and rnd.random() < 0.6:
            out.append(table[ch])
        else:
            out.append(ch)
    return "".join(out)


def op_programs(task):
    """token kinds and values are unchanged by respelling braces / brackets / '#' / operators
    and by a splice at token boundaries; for braces and brackets the diagnostics keep their
    names and lines"""
    rnd = random.Random(task.get("seed", 0))
    viol, cases = [], 0
    for name, text in task["files"]:
        base = lex(text)
        if base["exc"] or any(e for e in base["errors"]):
            continue
        # alternative spellings outside comments and literals
        import re
        spans = [(m.start(), m.end()) for m in re.finditer(r"/\*.*?\*/|//[^\n]*|\"(\\.|[^\"\\])*\"|'(\\.|[^'\\])*'", text, flags=re.S)]

        def outside(i):
            return not any(a <= i < b for a, b in spans)
        for table, tname, chars in ((DI, "digraph", "{}[]#"), (TRI, "trigraph", "{}[]#^|~"), (DI, "digraph", "{}[]"),
                                    (TRI, "trigraph", "{}[]")):
            out = []
            for i, ch in enumerate(text):
                if ch in table and ch in chars and outside(i) and rnd.random() < 0.7:
                    out.append(table[ch])
                else:
                    out.append(ch)
            t2 = "".join(out)
            from vp.replay.lexpos import logical
            if t2 == text or "".join(c for c, _o, _z in logical(t2) if True) != "".join(c for c, _o, _z in logical(text)):
                continue
            cases += 1
            r2 = lex(t2)
            k1 = [(t[0], t[3]) for t in base["tokens"]]
            k2 = [(t[0], t[3]) for t in r2["tokens"]] if not r2["exc"] else r2["exc"]
            if k1 != k2:
                viol.append({"what": f"{name}: token kinds/values change when punctuators are written as {tname}s",
                             "a": text, "b": t2, "name": name})
                continue
            if chars != "{}[]":
                continue              # the diagnostics claim is about braces and brackets only
            p1, p2 = pipeline(text, name), pipeline(t2, name)
            d1 = sorted((e["name"], e["highlights"][0][0]) for e in p1["errors"]) if not (p1["exc"] or p1["fatal"]) else None
            d2 = sorted((e["name"], e["highlights"][0][0]) for e in p2["errors"]) if not (p2["exc"] or p2["fatal"]) else None
            # line-length diagnostics legitimately change: the spelling is wider
            strip = lambda d: [x for x in d if x[0] != "LINE_TOO_LONG"] if d is not None else None
            if strip(d1) != strip(d2):
                viol.append({"what": f"{name}: diagnostics (name, line) change under {tname} spelling of braces/brackets: "
                                     f"{sorted(set(map(tuple, strip(d1) or [])) ^ set(map(tuple, strip(d2) or [])))[:4]}",
                             "a": text, "b": t2, "name": name})
        # splices at token boundaries (not after a // comment: known finding K6)
        toks = base["tokens"]
        table_pos = {}
        line, col = 1, 1
        for i, ch in enumerate(text):
            table_pos[(line, col)] = i
            if ch == "\n":
                line, col = line + 1, 1
            elif ch == "\t":
                col += 4 - (col - 1) % 4
            else:
                col += 1
        offs = [table_pos.get((t[1], t[2])) for t in toks]
        for sp in ("\\\n", "??/\n"):
            picks = [k for k in range(1, len(toks)) if toks[k - 1][0] != "COMMENT" and offs[k] is not None
                     and rnd.random() < 0.25]
            if not picks:
                continue
            out, last = [], 0
            for k in picks:
                out.append(text[last:offs[k]])
                out.append(sp)
                last = offs[k]
            out.append(text[last:])
            t2 = "".join(out)
            cases += 1
            r2 = lex(t2)
            k1 = [(t[0], t[3]) for t in toks]
            k2 = [(t[0], t[3]) for t in r2["tokens"]] if not r2["exc"] else r2["exc"]
            if k1 != k2:
                viol.append({"what": f"{name}: token kinds/values change when {len(picks)} line splices ({sp!r}) are "
                                     f"inserted between tokens", "a": text, "b": t2, "name": name})
    return {"cases": cases, "violations": viol[:200]}


# ------------------------------------------------------------------ C11: literals
INT_SUFFIXES = [""] + [s for base in ("u", "l", "ll", "z", "wb", "i64") for s in (base, base.upper())] + \
    [a + b for u in ("u", "U") for base in ("l", "ll", "z", "wb", "i64") for b2 in (base, base.upper())
     for (a, b) in ((u, b2), (b2, u))]
FLOAT_SUFFIXES = ["", "f", "F", "l", "L", "d", "D"]
FOLLOW = ["", " ", ";", ")", "+"]


def digit_strings(digits, maxlen):
    out = []
    for n in range(1, maxlen + 1):
        out += ["".join(c) for c in itertools.product(digits, repeat=n)]
    return out


def valid_constants(maxlen, thorough):
    dec_first = "123456789"
    cases = []
    small = ["0", "1", "9"] if not thorough else list("0123456789")
    # decimal
    for d in digit_strings("059", min(maxlen, 3)):
        if d[0] != "0":
            cases.append(d)
    for f in dec_first:
        cases.append(f + "0")
    cases.append("0")
    # octal, binary, hex with every first digit
    for d in digit_strings("07", min(maxlen, 3)):
        cases.append("0" + d)
    for d in digit_strings("01", min(maxlen, 3)):
        cases += ["0b" + d, "0B" + d]
    for first in "0123456789abcdefABCDEF":
        for rest in ("", "0", "b3", "B", "e1", "f", "3ba", "1c", "9F0"):
            cases += ["0x" + first + rest, "0X" + first + rest]
    ints = []
    for c in cases:
        for s in (INT_SUFFIXES if thorough else INT_SUFFIXES[::3]):
            ints.append(c + s)
    floats = []
    mant = ["1.", ".5", "1.5", "0.0", "12.34", "1"]
    exps = ["", "e1", "E1", "e+1", "e-12", "E+0"]
    for m in mant:
        for e in exps:
            if m == "1" and e == "":
                continue
            for s in FLOAT_SUFFIXES:
                floats.append(m + e + s)
    for h in ("0x1p1", "0x1.8p-2", "0X.8P+3", "0x1.p0", "0xA.Bp10"):
        for s in ("", "f", "L"):
            floats.append(h + s)
    return ints, floats


SIMPLE_ESC = list("abfnrtv\\'\"?")


def char_and_strings():
    out = []
    for pre in ("", "L", "u", "U", "u8"):
        for body in ["a", "\\n", "\\0", "\\12", "\\123", "\\x1", "\\xAf"] + ["\\" + e for e in SIMPLE_ESC]:
            out.append((pre + "'" + body + "'", "CHAR_CONST"))
        for body in ["", "abc", "a\\\"b", "\\\\", "%d\\n", "\\x41\\101"]:
            out.append((pre + '"' + body + '"', "STRING"))
    return out


MALFORMED = [
    ("0b102", "INVALID_BIN_INT"), ("0b2", "INVALID_BIN_INT"), ("089", "INVALID_OCT_INT"), ("0778", "INVALID_OCT_INT"),
    ("1ul1", "INVALID_SUFFIX"), ("1lu2", "INVALID_SUFFIX"), ("10xyz", "INVALID_SUFFIX"), ("1lL", "INVALID_SUFFIX"),
    ("1.0fl", "BAD_FLOAT_SUFFIX"), ("1.5x", "BAD_FLOAT_SUFFIX"), ("1e", "BAD_EXPONENT"), ("1e+", "BAD_EXPONENT"),
    ("1.2.3", "MULTIPLE_DOTS"), ("0xx1.0p1", "MULTIPLE_X"), ("''", "EMPTY_CHAR"), ("'ab'", "CHAR_AS_STRING"),
    ("'a\n", "UNEXPECTED_EOL_CHR"), ("'a", "UNEXPECTED_EOF_CHR"), ("\"abc", "UNEXPECTED_EOF_STR"),
]


LONG_VALID = ["1" + "0" * 90, "0" + "7" * 90, "0x" + "1f" * 45 + "UL", "0b" + "01" * 45, "0." + "0" * 90 + "1", "." + "5" * 90 + "f",
              "1e+" + "0" * 90 + "1", "1." + "2" * 45 + "e-" + "3" * 45 + "L", "0x1." + "8" * 90 + "p3"]
LONG_MALFORMED = [("0b" + "0" * 90 + "2", "INVALID_BIN_INT"), ("0" + "0" * 90 + "8", "INVALID_OCT_INT"),
                  ("1" * 90 + "xyz", "INVALID_SUFFIX"), ("1." + "0" * 90 + "fl", "BAD_FLOAT_SUFFIX")]


def op_literals(task):
    thorough = task.get("thorough")
    ints, floats = valid_constants(task.get("maxlen", 3), thorough)
    ints = ints + LONG_VALID
    viol, cases = [], 0
    for lit in ints + floats:
        for fol in (FOLLOW if thorough else FOLLOW[:3]):
            if fol in ("+", "-") and lit[-1:] in "eEpP":
                continue      # C's pp-number rule: `0xe+` is one (invalid) preprocessing number, MAXIMAL_MUNCH is right
            cases += 1
            r = lex(lit + fol)
            if r["exc"]:
                viol.append({"what": f"valid constant {lit!r}: tokenizer raises {r['exc']}", "text": lit + fol})
                continue
            t0 = r["tokens"][0] if r["tokens"] else None
            if t0 is None or t0[0] != "CONSTANT" or t0[3] != lit or r["errors"]:
                viol.append({"what": f"valid constant {lit!r} lexes to {t0} with diagnostics {[e['name'] for e in r['errors']]}",
                             "text": lit + fol})
    for lit, kind in char_and_strings():
        cases += 1
        r = lex(lit + ";")
        t0 = r["tokens"][0] if r["tokens"] else None
        if r["exc"] or t0 is None or t0[0] != kind or t0[3] != lit or r["errors"]:
            viol.append({"what": f"valid literal {lit!r} lexes to {t0} with diagnostics {[e['name'] for e in r['errors']]} "
                                 f"{r['exc'] or ''}", "text": lit + ";"})
    # the backslash of an escape spelled as the trigraph ??/ : same token, same (normalised) text
    extra = [('"say \\"hi\\" \\n"', "STRING"), ('"\\\\"', "STRING"), ("'\\''", "CHAR_CONST"), ('"a\\tb\\"c"', "STRING")]
    for lit, kind in char_and_strings() + extra:
        if "\\" not in lit:
            continue
        # only the backslash that starts an escape is respelled (an escaped character spelled as a
        # trigraph is known finding K7)
        import re as _re
        src = _re.sub(r"\\(.)", lambda m: "??/" + m.group(1), lit, flags=_re.S)
        cases += 1
        r = lex(src + ";")
        t0 = r["tokens"][0] if r["tokens"] else None
        if r["exc"] or t0 is None or t0[0] != kind or t0[3] != lit or r["errors"] or len(r["tokens"]) != 2:
            viol.append({"what": f"valid literal {src!r} (escapes written with the trigraph ??/) lexes to "
                                 f"{(r['tokens'] or [])[:3]} with diagnostics {[e['name'] for e in r['errors']]} {r['exc'] or ''}",
                         "text": src + ";"})
    for lit, kind in char_and_strings():
        q = "'" if kind == "CHAR_CONST" else '"'
        start = lit.index(q)
        for cut in range(start + 1, len(lit)):
            pre = lit[:cut]
            cases += 1
            r = lex(pre)
            names = [e["name"] for e in r["errors"]]
            want = "UNEXPECTED_EOF_CHR" if kind == "CHAR_CONST" else "UNEXPECTED_EOF_STR"
            if r["exc"] or want not in names:
                viol.append({"what": f"literal cut off at the end of the input {pre!r}: expected {want}, got {names} "
                                     f"{r['exc'] or ''}", "text": pre})
            if pre.endswith("\\") or pre.endswith("??/"):
                continue                # a further backslash-newline would be escaped itself
            # ... and cut off right after a line splice (which is no character of the literal), and for
            # character constants at the end of a line that ends in a splice
            for sp in ("\\\n", "??/\n"):
                tails = [(sp, want)] + ([(sp + "\nx;", "UNEXPECTED_EOL_CHR")] if kind == "CHAR_CONST" else [])
                for tail, w2 in tails:
                    cases += 1
                    r = lex(pre + tail)
                    names = [e["name"] for e in r["errors"]]
                    if r["exc"] or w2 not in names:
                        viol.append({"what": f"unterminated literal {pre + tail!r}: expected {w2}, got {names} {r['exc'] or ''}",
                                     "text": pre + tail})
    for lit, name in MALFORMED + LONG_MALFORMED:
        cases += 1
        r = lex(lit)
        names = [e["name"] for e in r["errors"]]
        if r["exc"] or name not in names:
            viol.append({"what": f"malformed literal {lit!r}: expected diagnostic {name}, got {names} {r['exc'] or ''}",
                         "text": lit})
    import re
    by_shape = {}
    for v in viol:
        lit = v["text"].rstrip(" ;)+")
        low = lit.lower()
        if low.startswith("0x") and "p" in low:
            fam = "hexfloat:" + ("empty-int" if low.startswith("0x.") else "empty-frac" if ".p" in low else "other")
        elif re.match(r"^0x[b]\d", low):
            fam = "hex-first-digit-b"
        elif low.startswith("0x"):
            fam = "hex:" + low[:4]
        elif low.startswith("0b"):
            fam = "bin"
        elif "." in low or "e" in low:
            fam = "float:" + re.sub(r"\d+", "D", low)[:8]
        elif lit[:1] in "'\"" or lit[:2] in ("L'", "L\"", "u'", "u\"", "U'", "U\"") or lit.startswith("u8"):
            fam = "literal:" + lit[:3]
        else:
            fam = "int:" + re.sub(r"\d+", "D", low)[:8]
        by_shape.setdefault(fam, v)
    return {"cases": cases, "violations": list(by_shape.values())[:200], "nviol": len(viol)}


def op_one(task):
    r = lex(task["text"])
    return {"tokens": r["tokens"], "errors": [e["name"] for e in r["errors"]], "exc": r["exc"], "violations": []}


def op_patterns(task):
    """the compiled numeric-literal patterns and suffix tables of the real lexer module"""
    from norminette.lexer import lexer as L
    out = {"patterns": {}, "integer_suffixes": list(L.integer_suffixes), "float_suffixes": list(L.float_suffixes)}
    for name in ("INT_LITERAL_PATTERN", "FLOAT_EXPONENT_LITERAL_PATTERN", "FLOAT_FRACTIONAL_LITERAL_PATTERN",
                 "FLOAT_HEXADECIMAL_LITERAL_PATTERN"):
        p = getattr(L, name, None)
        if p is not None:
            out["patterns"][name] = {"pattern": p.pattern, "flags": p.flags}
    return out


def op_module_patterns(task):
    """the compiled regular expressions an imported module (and one of its classes) holds"""
    import importlib
    import re as _re
    mod = importlib.import_module(task["module"])
    seen, out = set(), []
    spaces = [vars(mod)]
    cls = getattr(mod, task.get("cls", ""), None)
    if cls is not None:
        spaces.append(vars(cls))
    for ns in spaces:
        for k, v in ns.items():
            if isinstance(v, _re.Pattern) and id(v) not in seen:
                seen.add(id(v))
                out.append({"name": k, "pattern": v.pattern, "flags": v.flags})
    return {"patterns": out}


def op_rematch(task):
    """what the real compiled pattern answers on concrete strings (translation validation and
    replay of counter-models): [end, groupdict] or None"""
    from norminette.lexer import lexer as L
    p = getattr(L, task["pattern"])
    out = []
    for w in task["words"]:
        m = p.match(w)
        out.append(None if m is None else [m.end(), m.groupdict()])
    return {"results": out}


def main():
    task = json.load(sys.stdin)
    json.dump({"operators": op_operators, "programs": op_programs, "literals": op_literals, "one": op_one,
               "patterns": op_patterns, "rematch": op_rematch,
               "module_patterns": op_module_patterns}[task["op"]](task), sys.stdout)


if __name__ == "__main__":
    from vp.replay.native import guarded_main
    guarded_main(main)
