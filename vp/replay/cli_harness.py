"""Native harness running the real command line (python -m norminette) in a subprocess
on generated directories (C04, C15, C16)."""
import itertools
import json
import os
import random
import shutil
import subprocess
import sys
import tempfile
import re

HEADER = """/* ************************************************************************** */
/*                                                                            */
/*                                                        :::      ::::::::   */
/*   {name:<51.51}:+:      :+:    :+:   */
/*                                                    +:+ +:+         +:+     */
/*   By: marvin <marvin@student.42.fr>              +#+  +:+       +#+        */
/*                                                +#+#+#+#+#+   +#+           */
/*   Created: 2020/01/01 00:00:00 by marvin            #+#    #+#             */
/*   Updated: 2020/01/01 00:00:00 by marvin           ###   ########.fr       */
/*                                                                            */
/* ************************************************************************** */
"""

BODIES = {
    "clean": "\nint\tmain(void)\n{\n\treturn (0);\n}\n",
    "notice": "\nint\tmain(void)\n{\n\tft_f(\"\\q\");\n\treturn (0);\n}\n",
    "error": "\nint main(void)\n{\n\treturn (0);\n}\n",
    "fatal": "\nint\tmain(void)\n{\n\treturn (0);\n}\n]\n",
}
ANSI = re.compile(r"\x1b\[[0-9;]*m")


# several kinds of fatally unparsable text (they stop in different functions: the registry's
# unrecognised-token check, skip_nest, the directive dispatch, the #if expression parser)
FATAL_FLAVOURS = [
    BODIES["fatal"],                                                      # f2_fatal.c
    "\n#if (VERSION > 2\n# define A 1\n#endif\n",                      # f3_fatal.c (longer sequences)
    "\nint\tmain(void)\n{\n\tfoo(\n",                                 # f0_fatal.c
    "\n#bogus\n\nint\tmain(void)\n{\n\treturn (0);\n}\n",          # f1_fatal.c
]


def content(cls, name):
    if cls == "fatal":
        k = sum(ord(ch) for ch in name) % len(FATAL_FLAVOURS)
        return HEADER.format(name=name) + FATAL_FLAVOURS[k]
    return HEADER.format(name=name) + BODIES[cls]


def run_cli(args, cwd, timeout=60):
    env = dict(os.environ)
    try:
        p = subprocess.run([sys.executable, "-m", "norminette"] + args, cwd=cwd, capture_output=True, text=True,
                           timeout=timeout, env=env)
    except subprocess.TimeoutExpired:
        from vp.replay.native import cli_timed_out
        cli_timed_out(args, cwd, timeout)
        raise
    return p.returncode, p.stdout, p.stderr


def json_report(out):
    """the JSON report in the standard output of a `-f json` run: an object with a list under
    "files" (other top-level keys, and text before or after it, are not this harness's
    business) -- or None"""
    cands = [out] + [ln for ln in out.split("\n") if ln.lstrip().startswith("{")]
    i = out.find("{")
    if i >= 0:
        cands.append(out[i:])
    for c in cands:
        try:
            data = json.loads(c)
        except Exception:
            try:
                data, _ = json.JSONDecoder().raw_decode(c.lstrip())
            except Exception:
                continue
        if isinstance(data, dict) and isinstance(data.get("files"), list):
            return data
    return None


def verdict_lines(out):
    res = []
    for line in ANSI.sub("", out).split("\n"):
        m = re.match(r"^(.*): (OK|Error)!$", line)
        if m:
            res.append((m.group(1), m.group(2)))
    return res


def check_sequence(seq, via_dir=False):
    """seq: list of classes -> None or message"""
    d = tempfile.mkdtemp(prefix="c04_")
    try:
        names = []
        for i, cls in enumerate(seq):
            nm = f"f{i}_{cls}.c"
            with open(os.path.join(d, nm), "w") as fh:
                fh.write(content(cls, nm))
            names.append(nm)
        args = ["."] if via_dir else names
        if via_dir and not names:
            args = ["."]
        rc, out, err = run_cli(args if (names or via_dir) else [], d)
        if "Traceback" in err:
            last = err.strip().split("\n")[-1]
            return f"internal exception (traceback) for files {seq}: {last}"
        lines = verdict_lines(out)
        if "fatal" in seq:
            # whatever verdict lines are printed next to the fatal report must be right
            # (one per file at most, OK! iff the file has no Error-level diagnostic)
            seen_v = {}
            for nm, v in lines:
                if nm in seen_v:
                    return f"two verdict lines for {nm} in a run with a fatal file ({seq})"
                seen_v[nm] = v
            for nm, cls in zip(names, seq):
                if cls != "fatal" and nm in seen_v and seen_v[nm] != ("Error" if cls == "error" else "OK"):
                    return (f"run with a fatal file {seq}: {nm} ({cls}) is reported {seen_v[nm]}! -- the verdict does not "
                            "agree with its diagnostics")
                if cls == "fatal" and seen_v.get(nm) == "OK":
                    return f"run {seq}: the fatally unparsable {nm} is reported OK!"
            if via_dir:
                if rc == 0:
                    return f"a fatally unparsable file is present but exit status is 0 ({seq})"
                return None
            first = names[seq.index("fatal")]
            if rc == 0:
                return f"fatal parse error in {first} but exit status 0"
            if first not in out:
                return f"fatal parse error does not name {first}: {out[-200:]!r}"
            return None
        want = {nm: ("Error" if cls == "error" else "OK") for nm, cls in zip(names, seq)}
        got = {}
        for nm, v in lines:
            if nm in got:
                return f"two verdict lines for {nm}"
            got[nm] = v
        if got != want:
            return f"verdict lines {got} but expected {want}"
        all_ok = all(v == "OK" for v in want.values())
        if (rc == 0) != all_ok:
            return f"exit status {rc} for files {seq} (every file OK: {all_ok})"
        return None
    finally:
        shutil.rmtree(d, ignore_errors=True)


def check_repeated_mention(seq):
    """the first file of the sequence is named once more at the end: a path mentioned twice is
    analysed twice and gets its verdict line twice (with repetition, says the quantifier)"""
    d = tempfile.mkdtemp(prefix="c04r_")
    try:
        names = []
        for i, cls in enumerate(seq):
            nm = f"f{i}_{cls}.c"
            with open(os.path.join(d, nm), "w") as fh:
                fh.write(content(cls, nm))
            names.append(nm)
        args = names + [names[0]]
        rc, out, err = run_cli(args, d)
        if "Traceback" in err:
            return f"internal exception (traceback) for arguments {args}: {err.strip().splitlines()[-1]}"
        lines = verdict_lines(out)
        want = sorted((nm, "Error" if cls == "error" else "OK") for nm, cls in zip(names, seq)) + \
            [(names[0], "Error" if seq[0] == "error" else "OK")]
        if sorted(lines) != sorted(want):
            return f"arguments {args}: verdict lines {lines}, expected one per mention: {sorted(want)}"
        if (rc == 0) != all(v == "OK" for _n, v in want):
            return f"arguments {args}: exit status {rc}"
        return None
    finally:
        shutil.rmtree(d, ignore_errors=True)


def check_same_content_headers(order):
    """util.h (correct guard UTIL_H) and a byte-identical copy compat.h in one run: the copy
    has a wrong guard for its name, the original is clean"""
    d = tempfile.mkdtemp(prefix="c04_")
    try:
        body = ("\n#ifndef UTIL_H\n# define UTIL_H\n\nint\tft_fa(int c, char **d);\n\n#endif\n")
        text = HEADER.format(name="util.h") + body
        names = ["util.h", "compat.h"]
        for nm in names:
            with open(os.path.join(d, nm), "w") as fh:
                fh.write(text)
        args = [names[i] for i in order]
        rc, out, err = run_cli(args, d)
        got = dict(verdict_lines(out))
        want = {"util.h": "OK", "compat.h": "Error"}
        if got != want:
            return f"two headers with the same bytes, arguments {args}: verdicts {got}, expected {want}"
        if rc == 0:
            return f"two headers with the same bytes, arguments {args}: exit status 0 although compat.h is Error!"
        return None
    finally:
        shutil.rmtree(d, ignore_errors=True)


def op_search(task):
    classes = ["clean", "notice", "error", "fatal"]
    maxlen = task.get("maxlen", 3)
    rnd = random.Random(task.get("seed", 0))
    seqs = []
    for n in range(0, maxlen + 1):
        seqs += [list(s) for s in itertools.product(classes, repeat=n)]
    for _ in range(10):
        seqs.append([rnd.choice(classes[:3]) for _ in range(rnd.randint(5, 8))])
    viol = []
    cases = 0
    from concurrent.futures import ThreadPoolExecutor
    jobs = [(s, False) for s in seqs] + [(s, True) for s in seqs if len(s) <= 2]

    def go(job):
        s, via = job
        return job, check_sequence(s, via)
    with ThreadPoolExecutor(max_workers=12) as ex:
        for (s, via), m in ex.map(go, jobs):
            cases += 1
            if m:
                viol.append({"what": m, "task": {"op": "one", "seq": s, "via_dir": via}})
    # a path mentioned twice
    for s_ in [list(x) for n in (1, 2, 3) for x in itertools.product(classes[:3], repeat=n)]:
        cases += 1
        m = check_repeated_mention(s_)
        if m:
            viol.append({"what": m, "task": {"op": "repeated", "seq": s_}})
    # the verdict of a file comes from its own analysis: same bytes under two header names
    for order in ((0, 1), (1, 0)):
        cases += 1
        m = check_same_content_headers(order)
        if m:
            viol.append({"what": m, "task": {"op": "same_content", "order": list(order)}})
    viol.sort(key=lambda v: len(v["task"].get("seq", [0, 0])))
    return {"cases": cases, "nontrivial": len(jobs), "violations": viol[:5],
            "samples": [{"seq": j[0], "via_dir": j[1]} for j in jobs[5:8]],
            "bound": f"all sequences (with repetition, all orders) of length 0..{maxlen} over {{clean, notice-only, "
                     "erroneous, fatally unparsable}} as explicit paths; lengths 0..2 also through a directory "
                     "argument; 10 seeded longer sequences"}


def op_one(task):
    m = check_sequence(task["seq"], task.get("via_dir", False))
    return {"violations": [m] if m else []}


def op_two_headers(task):
    """inc/libft.h with a correct guard and vendor/libft.h whose guard lacks its #define, in one
    run, both orders; and the erroneous one alone"""
    viol, cases, unreadable = [], 0, []
    good = HEADER.format(name="libft.h") + "\n#ifndef LIBFT_H\n# define LIBFT_H\n\nint\tft_fa(int c, char **d);\n\n#endif\n"
    bad = HEADER.format(name="libft.h") + "\n#ifndef LIBFT_H\n\nint\tft_fa(int c, char **d);\n\n#endif\n"
    for order in (("inc/libft.h", "vendor/libft.h"), ("vendor/libft.h", "inc/libft.h"), ("vendor/libft.h",)):
        d = tempfile.mkdtemp(prefix="c14_")
        try:
            for sub, text in (("inc", good), ("vendor", bad)):
                os.makedirs(os.path.join(d, sub))
                with open(os.path.join(d, sub, "libft.h"), "w") as fh:
                    fh.write(text)
            cases += 1
            rc, out, err = run_cli(["-f", "json"] + list(order), d)
            data = json_report(out)
            if data is None:
                unreadable.append(f"arguments {order}: no JSON report ({err.strip().splitlines()[-1:]})")
                continue
            for f in data["files"]:
                names = [e["name"] for e in f["errors"]]
                isbad = os.sep + "vendor" + os.sep in f["path"]
                if isbad and "HEADER_PROT_NODEF" not in names:
                    viol.append(f"arguments {order}: vendor/libft.h (guard without #define) gets {names}, HEADER_PROT_NODEF expected")
                if not isbad and any(n.startswith("HEADER_PROT") for n in names):
                    viol.append(f"arguments {order}: inc/libft.h (correct guard) gets {names}")
        finally:
            shutil.rmtree(d, ignore_errors=True)
    return {"cases": cases, "violations": viol, "unreadable": unreadable}


def op_fatal_texts(task):
    """texts that the library run stops with the fatal parse error: through the real command line
    each must print the fatal diagnostic, no `OK!`, and exit non-zero"""
    viol = []
    d = tempfile.mkdtemp(prefix="c07_")
    try:
        for k, (name, text) in enumerate(task["files"]):
            sub = os.path.join(d, str(k))
            os.makedirs(sub)
            with open(os.path.join(sub, name), "w") as fh:
                fh.write(text)
            rc, out, err = run_cli([name], sub)
            plain = ANSI.sub("", out)
            if "Traceback" in err:
                continue            # internal exceptions are C05's business
            if rc == 0 or f"{name}: OK!" in plain:
                viol.append({"what": f"unrecognisable text is fatal for the library run, but the command line exits {rc} "
                                     f"and prints {plain.strip().splitlines()[:2]}", "k": k, "name": name, "text": text})
    finally:
        shutil.rmtree(d, ignore_errors=True)
    return {"cases": len(task["files"]), "violations": viol}


def main():
    task = json.load(sys.stdin)
    out = {"search": op_search, "one": op_one, "repeated": lambda t: {"violations": [m for m in [check_repeated_mention(t["seq"])] if m]}, "fatal_texts": op_fatal_texts, "two_headers": op_two_headers,
           "same_content": lambda t: {"violations": [m for m in [check_same_content_headers(tuple(t["order"]))] if m]}}[task["op"]](task)
    json.dump(out, sys.stdout)


if __name__ == "__main__":
    from vp.replay.native import guarded_main
    guarded_main(main)
