"""Native harness for C16: colour lemma, inline content, and the real CLI under option sets."""
import glob
import itertools
import json
import os
import random
import re
import shutil
import subprocess
import sys
import tempfile

from vp.replay.cli_harness import HEADER, BODIES, content, ANSI

HUMAN = re.compile(r"^(Error|Notice): (\S+)\s+\(line:\s*(\d+), col:\s*(\d+)\):\t(.*)$")


def op_colors(task):
    from norminette.errors import HumanizedErrorsFormatter, Error
    from norminette.norm_error import errors
    viol = []
    for name, text in errors.items():
        e = Error.from_name(name)
        for uc in (True, False):
            f = HumanizedErrorsFormatter([], use_colors=uc)
            out = f._colorize_error_text(e)
            if ANSI.sub("", out) != text:
                viol.append(name)
            if not uc and out != text:
                viol.append(name + "/no-colors")
    return {"cases": 2 * len(errors), "violations": viol}


def op_inline_file(task):
    from norminette.file import File
    viol = []
    d = tempfile.mkdtemp(prefix="c16_")
    cases = 0
    try:
        for name, data in [(n, "int\tmain(void)\n{\n\treturn (0);\n}\n") for n in
                           ("a.c", "b.h", "x y.c", "dir.d/z.c", "noext", "a.b.c.h")] + \
                [("nonl.c", "int\tmain(void)\n{\n\treturn (0);\n}"), ("empty.c", ""),
                 ("blank.c", "\n\n"), ("tabs.h", "\t\t")]:
            path = os.path.join(d, name)
            os.makedirs(os.path.dirname(path), exist_ok=True)
            with open(path, "w") as fh:
                fh.write(data)
            a, b = File(path), File(os.path.basename(name), data)
            cases += 1
            if (a.basename, a.name, a.type, a.source) != (b.basename, b.name, b.type, b.source):
                viol.append(name)
    finally:
        shutil.rmtree(d, ignore_errors=True)
    return {"cases": cases, "violations": viol}


def op_file_source(task):
    """what File(path).source gives for content stored on disk: the stored text, decoded as
    UTF-8 (the locale of the runs), with CRLF line ends read as LF (Python's text mode), and
    nothing else changed -- and File(name, data).source is data"""
    from norminette.file import File
    viol, cases = [], 0
    d = tempfile.mkdtemp(prefix="fsrc_")
    try:
        samples = [("plain.c", "int\tmain(void)\n{\n\treturn (0);\n}\n"),
                   ("nonl.c", "int\tmain(void)\n{\n\treturn (0);\n}"),
                   ("empty.h", ""), ("blank.c", "\n\n"), ("tabs.h", "\t\t"),
                   ("accent.c", "/* r\u00e9sum\u00e9 d\u00e9j\u00e0 vu */\nchar\t*g_s = \"\u00e9t\u00e9 \u4e2d\u6587\";\n"),
                   ("crlf.c", "int\tg_a;\r\nint\tg_b = 1 +\\\r\n 2;\r\n"),
                   ("bom_free.c", "// \u00a9 42\nint\tg_c;\n"),
                   ("ctl.c", "/* a\x0cb\x0bc */\nint\tg_d;\n")]
        for name, data in samples:
            path = os.path.join(d, name)
            with open(path, "wb") as fh:
                fh.write(data.encode("utf-8"))
            cases += 1
            want = data.replace("\r\n", "\n")
            try:
                got = File(path).source
            except Exception as ex:
                viol.append(f"{name}: reading raises {type(ex).__name__}")
                continue
            if got != want:
                k = next((i for i, (a, b) in enumerate(zip(got, want)) if a != b), min(len(got), len(want)))
                viol.append(f"{name}: File(path).source differs from the stored text at offset {k}: "
                            f"{got[k:k + 12]!r} instead of {want[k:k + 12]!r}")
            if File(name, data).source != data:
                viol.append(f"{name}: File(name, data).source is not data")
    finally:
        shutil.rmtree(d, ignore_errors=True)
    return {"cases": cases, "violations": viol}


def run_cli(args, cwd):
    try:
        p = subprocess.run([sys.executable, "-m", "norminette"] + args, cwd=cwd, capture_output=True, text=True,
                           timeout=60, env=dict(os.environ))
    except subprocess.TimeoutExpired:
        from vp.replay.native import cli_timed_out
        cli_timed_out(args, cwd, 60)
        raise
    return p.returncode, p.stdout, p.stderr


def parse(out, fmt):
    """-> (verdict, sorted diagnostics) or None when the run did not reach a verdict"""
    if fmt == "json":
        from vp.replay.cli_harness import json_report
        data = json_report(out)
        if data is None or not data["files"]:
            return None
        f = data["files"][0]
        return f["status"], sorted((e["level"], e["name"], e["highlights"][0]["lineno"], e["highlights"][0]["column"])
                                   for e in f["errors"])
    verdict, errs = None, []
    for line in ANSI.sub("", out).split("\n"):
        m = HUMAN.match(line)
        if m:
            errs.append((m.group(1), m.group(2), int(m.group(3)), int(m.group(4))))
        else:
            m2 = re.match(r"^(.*): (OK|Error)!$", line)
            if m2:
                verdict = m2.group(2)
    if verdict is None:
        return None
    return verdict, sorted(errs)


DEFINE_NAMES = {"MACRO_NAME_CAPITAL", "MACRO_FUNC_FORBIDDEN", "PREPROC_CONSTANT"}


def op_cli(task):
    rnd = random.Random(task.get("seed", 0))
    thorough = task.get("thorough")
    root = os.environ.get("VERIF_REPO", "/repo")
    samples = sorted(glob.glob(os.path.join(root, "tests/rules/samples/*.[ch]")))
    rnd.shuffle(samples)
    files = [(os.path.basename(p), open(p).read()) for p in samples[: (14 if thorough else 5)]]
    files.append(("clean.c", content("clean", "clean.c")))
    # lexical diagnostics with several highlights at different columns (the printed position is the first)
    files.append(("multi.c", HEADER.format(name="multi.c") + "\nint\tg_mode = 0389;\nint\tg_mask = 0b1231;\n\nint\tmain(void)\n"
                  "{\n\tchar\tc;\n\n\tc = '\\q;\n\treturn (0);\n}\n"))
    files.append(("nonl.c", content("clean", "nonl.c").rstrip("\n")))        # no final newline
    # a header: its guard is judged against the file name, so --filename has to reach the checks
    from vp.bounded.programs import conforming_h
    files.append(("ft_guard.h", conforming_h("ft_guard.h")))
    files.append(("err.c", content("error", "err.c")))
    files.append(("def.c", HEADER.format(name="def.c") + "\n#define foo(x) x\n# define bar 1 +\n\nint\tmain(void)\n{\n\treturn (0);\n}\n"))
    optsets = []
    for colors in ([], ["--no-colors"]):
        for fmt in ("humanized", "json"):
            for dbg in ([], ["-d"], ["-dd"]):
                for extra in ([], ["-o"], ["-R", "Whatever"], ["-R", "NoCheckDefineX"], ["-R", "checkdefine"]):
                    optsets.append((colors + ["-f", fmt] + dbg + extra, fmt))
    if not thorough:
        optsets = [optsets[0]] + rnd.sample(optsets[1:], 7)
    viol, cases, samples_out = [], 0, []
    from concurrent.futures import ThreadPoolExecutor
    d = tempfile.mkdtemp(prefix="c16_")
    try:
        jobs = []
        for name, text in files:
            with open(os.path.join(d, name), "w") as fh:
                fh.write(text)
            for opts, fmt in optsets:
                jobs.append((name, text, opts, fmt, "file"))
            jobs.append((name, text, ["-f", "json", "-R", "CheckDefine"], "json", "nodefine"))
            flag = "--cfile" if name.endswith(".c") else "--hfile"
            jobs.append((name, text, ["-f", "json", flag, text, "--filename", name], "json", "inline"))

        def go(job):
            name, text, opts, fmt, kind = job
            args = opts if kind == "inline" else opts + [name]
            rc, out, err = run_cli(args, d)
            return job, rc, parse(out, fmt), ("Traceback" in err)
        with ThreadPoolExecutor(max_workers=12) as ex:
            results = list(ex.map(go, jobs))
        base = {}
        for (name, text, opts, fmt, kind), rc, parsed, tb in results:
            if kind == "file" and opts == optsets[0][0]:
                base[name] = parsed
        for (name, text, opts, fmt, kind), rc, parsed, tb in results:
            cases += 1
            ref = base.get(name)
            if ref is None or parsed is None:
                continue            # no verdict under one of the two option sets: nothing is claimed
            if kind in ("file", "inline") and parsed != ref:
                viol.append({"what": f"{name}: diagnostics under options {opts if kind == 'file' else '--cfile/--hfile'} "
                                     f"differ from the default run: {sorted(set(parsed[1]) ^ set(ref[1]))[:4]}",
                             "task": {"op": "cli_one", "name": name, "text": text, "opts": opts, "fmt": fmt, "kind": kind}})
            if kind == "nodefine":
                want = [e for e in ref[1] if e[1] not in DEFINE_NAMES]
                if parsed[1] != want:
                    viol.append({"what": f"{name}: -R CheckDefine changes more (or less) than the #define diagnostics: "
                                         f"{sorted(set(parsed[1]) ^ set(want))[:4]}",
                                 "task": {"op": "cli_one", "name": name, "text": text, "opts": opts, "fmt": fmt, "kind": kind}})
        samples_out = [{"file": j[0][0], "opts": j[0][2]} for j in results[:3]]
    finally:
        shutil.rmtree(d, ignore_errors=True)
    return {"cases": cases, "nontrivial": len(files) * len(optsets), "violations": viol[:5], "samples": samples_out,
            "bound": f"{len(files)} files x {len(optsets)} option sets out of {{--no-colors}} x {{-f humanized|json}} x "
                     "{-d, -dd} x {-o, -R <word>}; plus -R CheckDefine and --cfile/--hfile --filename per file"}


def op_same_content(task):
    """content stored in two files of one run (same bytes, same base name, different directories)
    gets, for each of them, the diagnostics of the same content passed inline"""
    viol, cases, unreadable = [], 0, []
    texts = [HEADER.format(name="ft_nine.c") + "\nint\tft_nine(void)\n{\n\treturn (09);\n}\n",
             HEADER.format(name="ft_nine.c") + "\nint\tft_nine(void)\n{\n\treturn ('ab' + 0b12);\n}\n",
             "int\tg_mode = 0389;\n"]
    for text in texts:
        d = tempfile.mkdtemp(prefix="c16s_")
        try:
            for sub in ("libft", os.path.join("push_swap", "libft")):
                os.makedirs(os.path.join(d, sub))
                with open(os.path.join(d, sub, "ft_nine.c"), "w") as fh:
                    fh.write(text)
            cases += 1
            rc, out, _ = run_cli(["-f", "json", "--cfile", text, "--filename", "ft_nine.c"], d)
            ref = parse(out, "json")
            rc, out, _ = run_cli(["-f", "json", os.path.join("libft", "ft_nine.c"), os.path.join("push_swap", "libft", "ft_nine.c")], d)
            from vp.replay.cli_harness import json_report
            data = json_report(out)
            if ref is None or data is None:
                unreadable.append(f"no readable reports for two stored copies of {text[-30:]!r}")
                continue
            if len(data["files"]) != 2:
                viol.append(f"{len(data['files'])} files reported for two stored copies of {text[-30:]!r}")
                continue
            for f in data["files"]:
                got = (f["status"], sorted((e["level"], e["name"], e["highlights"][0]["lineno"], e["highlights"][0]["column"])
                                           for e in f["errors"]))
                if got != ref:
                    viol.append(f"{os.path.relpath(f['path'], d)}: stored copy reports {got[1]}, the same content inline {ref[1]}")
        finally:
            shutil.rmtree(d, ignore_errors=True)
    return {"cases": cases, "violations": viol, "unreadable": unreadable}


def op_cli_one(task):
    d = tempfile.mkdtemp(prefix="c16_")
    try:
        with open(os.path.join(d, task["name"]), "w") as fh:
            fh.write(task["text"])
        rc0, out0, _ = run_cli(["-f", "humanized", task["name"]], d)
        ref = parse(out0, "humanized")
        args = task["opts"] if task["kind"] == "inline" else task["opts"] + [task["name"]]
        rc, out, err = run_cli(args, d)
        got = parse(out, task["fmt"])
        if ref is None or got is None:
            return {"violations": []}
        if task["kind"] == "nodefine":
            ref = (ref[0], [e for e in ref[1] if e[1] not in DEFINE_NAMES])
            return {"violations": [] if got[1] == ref[1] else [f"{got[1]} vs {ref[1]}"]}
        return {"violations": [] if got == ref else [f"{got} vs {ref}"]}
    finally:
        shutil.rmtree(d, ignore_errors=True)


def main():
    task = json.load(sys.stdin)
    json.dump({"colors": op_colors, "inline_file": op_inline_file, "file_source": op_file_source, "cli": op_cli, "cli_one": op_cli_one, "same_content": op_same_content}[task["op"]](task),
              sys.stdout)


if __name__ == "__main__":
    from vp.replay.native import guarded_main
    guarded_main(main)
