"""Native harness for C08/C04: runs the real errors.py on concrete diagnostics."""
import itertools
import json
import random
import re
import sys


def build_errors(specs):
    from norminette.errors import Errors, Error, Highlight
    es = Errors()
    for e in specs:
        hs = [Highlight(h[0], h[1], h[2], h[3]) for h in e["highlights"]]
        es.add(Error(e["name"], e.get("text", "t"), e.get("level", "Error"), hs))
    return es


def printed_key(e):
    return (e.highlights[0].lineno, e.highlights[0].column)


def op_order(task):
    viol = []
    for perm in itertools.permutations(task["errors"]):
        es = build_errors(perm)
        try:
            seq = list(es)
        except Exception as ex:
            viol.append(f"sorting raises {type(ex).__name__}")
            break
        keys = [printed_key(e) for e in seq]
        if keys != sorted(keys):
            viol.append(f"listed order {keys} is not ascending (names {[e.name for e in seq]})")
            break
    return {"violations": viol}


def op_from_name(task):
    from norminette.errors import Error
    from norminette.norm_error import errors
    viol = []
    for k, text in errors.items():
        e = Error.from_name(k)
        if e.name != k or e.text != text or e.level != "Error" or e.highlights != []:
            viol.append(k)
        e2 = Error.from_name(k, level="Notice")
        if e2.level != "Notice" or e2.text != text:
            viol.append(k + "/Notice")
    return {"violations": viol, "cases": 2 * len(errors)}


HUMAN = re.compile(r"^(Error|Notice): (\S+)\s+\(line:\s*(\d+), col:\s*(\d+)\):\t(.*)$")
ANSI = re.compile(r"\x1b\[[0-9;]*m")


def parse_human(text):
    files = []
    for line in text.split("\n"):
        if not line:
            continue
        m = HUMAN.match(ANSI.sub("", line))
        if m:
            files[-1]["errors"].append((m.group(1), m.group(2), int(m.group(3)), int(m.group(4)), m.group(5)))
        else:
            name, _, status = line.rpartition(": ")
            files.append({"name": name, "status": status.rstrip("!"), "errors": []})
    return files


def check_formats(file_specs, use_colors):
    """-> None or message"""
    from norminette.file import File
    from norminette.errors import HumanizedErrorsFormatter, JSONErrorsFormatter
    import os
    files = []
    for fs in file_specs:
        f = File(fs["path"], "")
        f.errors = build_errors(fs["errors"])
        files.append(f)
    try:
        human = str(HumanizedErrorsFormatter(files, use_colors=use_colors))
        js = str(JSONErrorsFormatter(files, use_colors=use_colors))
    except Exception as ex:
        return f"formatter raises {type(ex).__name__}: {ex}"
    try:
        data = json.loads(js)
    except Exception as ex:
        return f"JSON output is not valid JSON: {ex}"
    hp = parse_human(human)
    if len(hp) != len(file_specs) or len(data.get("files", [])) != len(file_specs):
        return f"{len(file_specs)} files, {len(hp)} humanized verdict lines, {len(data.get('files', []))} JSON entries"
    for fs, h, j in zip(file_specs, hp, data["files"]):
        has_err = any(e.get("level", "Error") == "Error" for e in fs["errors"])
        want = "Error" if has_err else "OK"
        if h["name"] != os.path.basename(fs["path"]):
            return f"humanized names {h['name']!r}, expected base name of {fs['path']!r}"
        if h["status"] != want or j["status"] != want:
            return f"verdict {h['status']}/{j['status']} but diagnostics say {want}"
        je = [(e["level"], e["name"], e["highlights"][0]["lineno"], e["highlights"][0]["column"], e["text"])
              for e in j["errors"]]
        if je != h["errors"]:
            return f"formats disagree: humanized {h['errors']} vs json {je}"
        keys = [(e[2], e[3]) for e in h["errors"]]
        if keys != sorted(keys):
            return f"diagnostics not in ascending (line, column) order: {keys}"
        if sorted(je) != sorted((e.get("level", "Error"), e["name"], e["highlights"][0][0], e["highlights"][0][1],
                                 e.get("text", "t")) for e in fs["errors"]):
            return "diagnostics lost or invented by the formatters"
    return None


def op_formats(task):
    rnd = random.Random(task.get("seed", 0))
    thorough = task.get("thorough")
    names = ["AAA", "BBB", "LINE_TOO_LONG"]
    pos = [(1, 1), (1, 2), (2, 1)]
    hints = [None, "h"]
    # single-highlight errors over a small position domain, all multisets up to 3
    atoms = [{"name": n, "level": lv, "highlights": [[l, c, None, None]]}
             for n in names[:2] for lv in ("Error", "Notice") for (l, c) in pos]
    # multi-highlight errors: the printed one first, then a second one before/after it
    multi = [{"name": "MMM", "level": "Error", "highlights": [[l1, c1, None, h1], [l2, c2, 1, h2]]}
             for (l1, c1) in pos for (l2, c2) in pos for h1 in hints for h2 in hints]
    cases = 0
    viol = []
    seen = set()
    samples = []

    def run(file_specs):
        nonlocal cases
        cases += 1
        key = json.dumps(file_specs, sort_keys=True)
        seen.add(key)
        for colors in (True, False):
            m = check_formats(file_specs, colors)
            if m:
                viol.append({"what": m, "task": {"op": "formats_one", "files": file_specs, "use_colors": colors}})
                return
    for k in (0, 1, 2):
        for combo in itertools.product(atoms, repeat=k):
            run([{"path": "dir/a.c", "errors": list(combo)}])
            if len(viol) > 5:
                break
    for m in multi:
        for a in atoms[::2]:
            run([{"path": "a.c", "errors": [m, a]}, {"path": "b.h", "errors": [a, m]}])
    n_rand = 3000 if thorough else 400
    pool = atoms + multi
    for _ in range(n_rand):
        fl = []
        for fi in range(rnd.randint(1, 3)):
            fl.append({"path": rnd.choice(["x.c", "d/y.h", "z z.c"]),
                       "errors": [rnd.choice(pool) for _ in range(rnd.randint(0, 5))]})
        run(fl)
        if len(samples) < 2:
            samples.append(fl)
    return {"cases": cases, "nontrivial": len(seen), "violations": viol[:5], "samples": samples,
            "bound": "all multisets of <= 2 single-highlight diagnostics over 2 names x 2 levels x 3 positions; "
                     "36 two-highlight diagnostics x 6 companions in 2 files; %d seeded file lists of 1-3 files with "
                     "0-5 diagnostics; both colour settings" % n_rand}


def op_formats_one(task):
    m = check_formats(task["files"], task.get("use_colors", True))
    return {"violations": [m] if m else []}


def op_lexname(task):
    from norminette.file import File
    from norminette.lexer import Lexer
    from norminette.norm_error import errors
    f = File("a.c", task["text"])
    list(Lexer(f))
    bad = [e.name for e in f.errors._inner if e.name not in errors or errors[e.name] != e.text]
    return {"violations": bad}


def main():
    task = json.load(sys.stdin)
    out = {"order": op_order, "from_name": op_from_name, "formats": op_formats, "formats_one": op_formats_one,
           "lexname": op_lexname}[task["op"]](task)
    json.dump(out, sys.stdout)


if __name__ == "__main__":
    from vp.replay.native import guarded_main
    guarded_main(main)
