"""Native harness for C09/C10/C12: runs the real Lexer on strings and compares with an
independent raw-position scanner (the statement's notion of true source position)."""
import itertools
import json
import random
import sys

from vp.replay.native import lex


def rawpos_table(text):
    """(line, col) of every raw offset, tabs to the next multiple-of-4 stop"""
    out = []
    line, col = 1, 1
    for ch in text:
        out.append((line, col))
        if ch == "\n":
            line, col = line + 1, 1
        elif ch == "\t":
            col += 4 - (col - 1) % 4
        else:
            col += 1
    out.append((line, col))
    return out


TRI = {"??<": "{", "??>": "}", "??(": "[", "??)": "]", "??=": "#", "??/": "\\", "??'": "^", "??!": "|", "??-": "~"}
DI = {"<%": "{", "%>": "}", "<:": "[", ":>": "]", "%:": "#"}


ESCAPE_FIRST = [False]


def logical(text):
    """list of (logical char, raw offset, raw size) with splices removed.  Two readings of a
    backslash pair followed by a newline exist (C's translation phase 2 splices it; a lexer
    that reads escapes first sees an escaped backslash and a newline): ESCAPE_FIRST selects"""
    out = []
    i = 0
    n = len(text)

    def one(j):
        if text[j:j + 3] in TRI:
            return TRI[text[j:j + 3]], 3
        if text[j:j + 2] in DI:
            return DI[text[j:j + 2]], 2
        return text[j], 1
    while i < n:
        ch, sz = one(i)
        if ch == "\\" and ESCAPE_FIRST[0] and i + sz < n:
            ch2, sz2 = one(i + sz)
            if ch2 == "\\":
                out.append((ch, i, sz))
                out.append((ch2, i + sz, sz2))
                i += sz + sz2
                continue
        if ch == "\\" and i + sz < n and text[i + sz] == "\n":
            i += sz + 1
            continue
        out.append((ch, i, sz))
        i += sz
    return out


_inv = None


def inverse_tables():
    global _inv
    if _inv is None:
        from norminette.lexer.dictionary import keywords, operators, brackets
        _inv = {}
        for table in (keywords, operators, brackets):
            for lexeme, kind in table.items():
                _inv.setdefault(kind, lexeme)
        _inv.update({"SPACE": " ", "TAB": "\t", "NEWLINE": "\n"})
    return _inv


def token_text(typ, val):
    if val is not None:
        return val
    return inverse_tables().get(typ)


def norm_slice(text, a, b, table, expand_tabs, skip):
    """documented normalisations of raw text[a:b]: splices removed, alternative spellings
    replaced, tabs expanded to the next stop (block comments only)"""
    out = []
    for ch, off, sz in logical(text[:b]):
        if off < a or off in skip:
            continue
        if ch == "\t" and expand_tabs:
            col = table[off][1]
            out.append(" " * (4 - (col - 1) % 4))
        else:
            out.append(ch)
    return "".join(out)


def check_positions(text, mode="lossless"):
    ESCAPE_FIRST[0] = False
    m = _check_positions(text, mode)
    if m and not m.startswith("skip:") and "\\" in text and escape_first_applies(text):
        ESCAPE_FIRST[0] = True
        try:
            m2 = _check_positions(text, mode)
        finally:
            ESCAPE_FIRST[0] = False
        if m2 is None:
            return None
    return m


def escape_first_applies(text):
    """the second reading of a backslash pair followed by a newline (escaped backslash, then a
    newline) is only a reading of text inside a string or character literal: every such pair
    has to lie inside a STRING / CHAR_CONST token of the lexer's own output"""
    r = lex(text)
    if r["exc"]:
        return False
    table = rawpos_table(text)
    offset_of = {lc: off for off, lc in enumerate(table[:-1])}
    spans = []
    for typ, ln, col, val in r["tokens"]:
        off = offset_of.get((ln, col))
        if off is None:
            return False
        spans.append((off, typ))
    spans.sort()

    def bs(j):
        if text[j:j + 1] == "\\":
            return 1
        if text[j:j + 3] == "??/":
            return 3
        return 0
    i = 0
    while i < len(text):
        a = bs(i)
        b = bs(i + a) if a else 0
        if a and b and text[i + a + b:i + a + b + 1] == "\n":
            kind = None
            for off, typ in spans:
                if off <= i:
                    kind = typ
            if kind not in ("STRING", "CHAR_CONST"):
                return False
            i += a + b
        else:
            i += max(a, 1)
    return True


def _check_positions(text, mode="lossless"):
    """C09 + C10 by one independent scanner: every token carries the (line, col) of a raw
    offset, offsets strictly increase, and the raw text between consecutive token starts
    normalises exactly to the token's text (so a position that is off by one, a dropped, a
    duplicated or a reordered character all show).
    -> None | message | 'skip:<why>' when the lexer did not finish"""
    r = lex(text)
    if r["exc"]:
        return "skip:" + r["exc"]
    table = rawpos_table(text)
    offset_of = {lc: off for off, lc in enumerate(table[:-1])}
    skip = set()
    for e in r["errors"]:
        if e["name"] == "BAD_LEXEME":
            if not e["highlights"]:
                return "BAD_LEXEME is reported without any position"
            h = e["highlights"][0]
            if (h[0], h[1]) in offset_of:
                skip.add(offset_of[(h[0], h[1])])
            else:
                return f"BAD_LEXEME reported at ({h[0]},{h[1]}) which is not the position of a raw character"
    starts = []
    prev = -1
    for typ, ln, col, val in r["tokens"]:
        off = offset_of.get((ln, col))
        if off is None:
            return f"token {typ} carries position ({ln},{col}) which is not the position of any raw character"
        if off <= prev:
            return f"token {typ} at ({ln},{col}) does not start after the previous token"
        starts.append(off)
        prev = off
    ends = starts[1:] + [len(text)]
    if mode == "positions":
        # C09 only: the logical character found at the reported position is the first
        # character of the token (an off-by-one column or line shows here)
        lg = {off: ch for ch, off, sz in logical(text)}
        for (typ, ln, col, val), a in zip(r["tokens"], starts):
            want = token_text(typ, val)
            if a not in lg:
                return f"token {typ} at ({ln},{col}) points into the middle of a spelling or at a splice"
            if want and lg[a] != want[0]:
                return (f"token {typ} at ({ln},{col}) points at {lg[a]!r} but the token starts with {want[0]!r}")
        return check_diagnostics(text, r, table, offset_of, starts, ends)
    for (typ, ln, col, val), a, b in zip(r["tokens"], starts, ends):
        want = token_text(typ, val)
        got = norm_slice(text, a, b, table, typ == "MULT_COMMENT", skip)
        if want is None:
            return f"token {typ} has no text"
        if got != want:
            # equality up to the documented normalisations: a token text that keeps a splice
            # (the lexer reads "\\\\" + newline inside a literal as an escaped backslash first)
            # is normalised the same way before comparing
            want2 = "".join(ch for ch, _o, _s in logical(want)) if typ != "MULT_COMMENT" else want
            if got == want2:
                continue
            return (f"token {typ} at ({ln},{col}): source text from its position to the next token normalises to "
                    f"{got!r} but the token text is {want!r}")
    head = norm_slice(text, 0, starts[0] if starts else len(text), table, False, skip)
    if head != "":
        return f"characters {head!r} before the first token are neither tokens nor reported"
    return None


HEXD = "0123456789abcdefABCDEF"
AT_TOKEN_START = {"UNEXPECTED_EOF_STR": ("STRING",), "UNEXPECTED_EOF_CHR": ("CHAR_CONST",), "UNEXPECTED_EOL_CHR": ("CHAR_CONST",),
                  "EMPTY_CHAR": ("CHAR_CONST",), "CHAR_AS_STRING": ("CHAR_CONST",), "UNEXPECTED_EOF_MC": ("MULT_COMMENT",)}
INSIDE = {"MAXIMAL_MUNCH": ("CONSTANT",), "INVALID_SUFFIX": ("CONSTANT",), "INVALID_BIN_INT": ("CONSTANT",),
          "INVALID_OCT_INT": ("CONSTANT",), "INVALID_HEX_INT": ("CONSTANT",), "BAD_EXPONENT": ("CONSTANT",),
          "MULTIPLE_X": ("CONSTANT",), "MULTIPLE_DOTS": ("CONSTANT",), "BAD_FLOAT_SUFFIX": ("CONSTANT",),
          "UNKNOWN_ESCAPE": ("STRING", "CHAR_CONST"), "NO_HEX_DIGITS": ("STRING", "CHAR_CONST")}


def digits_end(t):
    """index in the text of an integer constant where the digit sequence ends (C 6.4.4.1:
    what follows the digits is the suffix)"""
    if t[:2] in ("0x", "0X") and len(t) > 2 and t[2] in HEXD:
        k, cls = 2, HEXD
    elif t[:2] in ("0b", "0B") and len(t) > 2 and t[2].isdigit():
        k, cls = 2, "0123456789"
    else:
        k, cls = 0, "0123456789"
    while k < len(t) and t[k] in cls:
        k += 1
    return k


def check_diagnostics(text, r, table, offset_of, starts, ends):
    """second sentence of C09 for the tokenizer's own diagnostics: the position printed with a
    diagnostic (its first highlight) is the position of the offending character -- the start of
    the literal for an unterminated / empty / overlong literal, the sign for MAXIMAL_MUNCH, the
    first character after the digits for INVALID_SUFFIX, the digits not allowed in the base for
    INVALID_BIN_INT / INVALID_OCT_INT, the character after the backslash for an unknown escape,
    a character inside the constant for the other numeric diagnostics, and a character that is
    in no token for BAD_LEXEME.  Judged only where the token concerned is spelled without
    splices, alternative spellings or tabs (there columns inside the token are not one per
    character: known finding K7 territory)."""
    toks = r["tokens"]
    for e in r["errors"]:
        hs = e["highlights"]
        if not hs:
            return f"diagnostic {e['name']} carries no position at all"
        h0 = hs[0]                  # the printed position; further highlights are hints
        if (h0[0], h0[1]) not in offset_of and (h0[0], h0[1]) != table[-1]:
            return f"diagnostic {e['name']} is printed with ({h0[0]},{h0[1]}), which is the position of no character of the text"
        off = offset_of.get((h0[0], h0[1]))
        if off is None:
            if e["name"] in AT_TOKEN_START or e["name"] in INSIDE or e["name"] == "BAD_LEXEME":
                return f"diagnostic {e['name']} is printed with the end of the text as its position"
            continue
        k = None
        for i, (a, b) in enumerate(zip(starts, ends)):
            if a <= off < b:
                k = i
        if e["name"] == "BAD_LEXEME":
            if k is not None:
                typ, ln, col, val = toks[k]
                tt = token_text(typ, val) or ""
                if text[starts[k]:starts[k] + len(tt)] == tt and off < starts[k] + len(tt):
                    return f"BAD_LEXEME is printed with ({h0[0]},{h0[1]}), a character of the {typ} token at ({ln},{col})"
            continue
        kinds = AT_TOKEN_START.get(e["name"]) or INSIDE.get(e["name"])
        if kinds is None:
            continue                    # a diagnostic this oracle has no statement about
        if k is None:
            return f"diagnostic {e['name']} is printed with ({h0[0]},{h0[1]}), which is in no token"
        typ, ln, col, val = toks[k]
        tt = token_text(typ, val) or ""
        if text[starts[k]:starts[k] + len(tt)] != tt or "\t" in tt or "\n" in tt.rstrip("\n") and typ != "MULT_COMMENT":
            continue                    # splice / alternative spelling / tab / line break inside the token
        rel = off - starts[k]
        if typ not in kinds or rel >= len(tt):
            return (f"diagnostic {e['name']} is printed with ({h0[0]},{h0[1]}), inside or after the {typ} token "
                    f"{tt!r} at ({ln},{col})")
        if e["name"] in AT_TOKEN_START:
            if rel != 0:
                return f"diagnostic {e['name']} is printed with ({h0[0]},{h0[1]}), the literal {tt!r} starts at ({ln},{col})"
        elif e["name"] == "MAXIMAL_MUNCH":
            if tt[rel] not in "+-":
                return f"MAXIMAL_MUNCH is printed with ({h0[0]},{h0[1]}) = {tt[rel]!r} of {tt!r}, not with the sign"
        elif e["name"] == "INVALID_SUFFIX":
            if rel != digits_end(tt):
                return (f"INVALID_SUFFIX is printed with ({h0[0]},{h0[1]}) = offset {rel} of {tt!r}; the digits end "
                        f"at offset {digits_end(tt)}")
        elif e["name"] in ("INVALID_BIN_INT", "INVALID_OCT_INT"):
            first = 2 if e["name"] == "INVALID_BIN_INT" else 1
            allowed = "01" if e["name"] == "INVALID_BIN_INT" else "01234567"
            end = first
            while end < len(tt) and tt[end].isdigit():
                end += 1
            want = [i for i in range(first, end) if tt[i] not in allowed]
            got = sorted(offset_of.get((h[0], h[1]), -1) - starts[k] for h in hs)
            if got != want:
                return f"{e['name']} on {tt!r}: highlighted offsets {got}, the digits not allowed in the base are at {want}"
        elif e["name"] in ("UNKNOWN_ESCAPE", "NO_HEX_DIGITS"):
            if rel == 0 or tt[rel - 1] != "\\":
                return f"{e['name']} is printed with ({h0[0]},{h0[1]}) = offset {rel} of {tt!r}, which does not follow a backslash"
    return None


DIAGNOSED = ["0x1E+2", "0xe-1", "1e+", "1e", "5E-", "12lL", "12abc", "1_000", "0x", "0b", "12u3", "0b1e", "0778", "089", "0b12", "0b102",
             "0b2", "1.2.3", "1..2", "0xx1.0p1", "1.5q", "1e5q", "1.0ff", "1e+5x", "0x1p1x", "'ab'", "''", "'a", "\"abc", "/* x",
             "'\\q'", "\"\\q\"", "\"\\x\"", "'\\xg'", "\"ab\\qcd\"", "@", "$", "`", "1@", "a$b"]


def op_search(task):
    rnd = random.Random(task.get("seed", 0))
    alphabet = task.get("alphabet", ["a", "1", " ", "\t", "\n", "\\\n", "??/\n", "\"", "'", "/*", "*/", "//", "??=", "<%",
                                     ";", "+", ".", "=", "\\", "_", "if", "*", "\r", "\x0c"])
    excs = {}
    maxlen = task.get("maxlen", 4)
    cases, viol, skipped = 0, [], 0
    seen = set()
    for n in range(1, maxlen + 1):
        for combo in itertools.product(alphabet, repeat=n):
            text = "".join(combo)
            if text in seen:
                continue
            seen.add(text)
            cases += 1
            m = check_positions(text, task.get("mode", "lossless"))
            if m and m.startswith("skip:"):
                skipped += 1
                excs.setdefault(m[5:], text)
            elif m:
                viol.append({"what": m, "text": text})
    # structured family: a splice in either spelling inside every multi-character token
    # kind, followed by more tokens on the same line
    structured = []
    for sp in ("\\\n", "??/\n"):
        for head, tail in (('"a', 'b"'), ("'", "a'"), ("/* a", "b */"), ("// a", "b\n"), ("ab", "cd"), ("12", "34"),
                           ("+", "="), ("-", ">"), ("<", "<="), ("", "x")):
            for after in (" c", ";", "\tz", " /* k */ q"):
                for pre in ("", "\t", "x = "):
                    structured.append(pre + head + sp + tail + after)
                    structured.append(pre + head + sp + sp + tail + after)
    for inner in ("\t", "a\t", "\tb", "ab\tc", "\t\t"):
        for head, tail in (('"', '"'), ("'", "'"), ("/*", "*/"), ("/* x\n", "*/"), ("//", "\n")):
            for after in ("m", " m", "\tm", ";"):
                for pre in ("", "x ", "\t"):
                    structured.append(pre + head + inner + tail + after)
    # escapes whose backslash is written as the trigraph ??/ (the escaped character is plain)
    for lit in ('"a??/nb"', "'??/n'", '"??/""', '"??/??/"', "'??/''", '"x??/ty"', '"??/x41z"', "'??/0'", '"%d??/n"'):
        for pre in ("", "x = ", "\t"):
            for after in (";", " z", "\n"):
                structured.append(pre + lit + after)
    # identifiers that look like keywords (GNU spellings, other case, a keyword as prefix or suffix):
    # their text is their own, whatever the tokenizer calls them
    for w in ("__inline__", "__inline", "__restrict", "__restrict__", "__const", "__const__", "__signed__", "__volatile__",
              "__asm__", "__typeof__", "_Bool", "inline_", "Int", "INT", "iF", "unsigned_", "_int", "elseif", "Return",
              "structs", "sizeof_", "DEFAULT", "gotoo"):
        for pre in ("", "x ", "\t"):
            for after in (";", " y;", "\n"):
                structured.append(pre + w + after)
    # lexemes the tokenizer diagnoses, at several columns (after a tab, after other tokens)
    if task.get("mode") == "positions":
        for lx in DIAGNOSED:
            for pre in ("", "x = ", "\t", "ab\t", "/* c */ ", "a;\n\t"):
                for after in (";", " ;", "\n", ""):
                    structured.append(pre + lx + after)
    for text in structured:
        if text in seen:
            continue
        seen.add(text)
        cases += 1
        m = check_positions(text, task.get("mode", "lossless"))
        if m and m.startswith("skip:"):
            skipped += 1
        elif m:
            viol.append({"what": m, "text": text})
    for _ in range(task.get("random", 300)):
        text = "".join(rnd.choice(alphabet) for _ in range(rnd.randint(5, 14)))
        cases += 1
        m = check_positions(text, task.get("mode", "lossless"))
        if m and m.startswith("skip:"):
            skipped += 1
        elif m:
            viol.append({"what": m, "text": text})
    viol.sort(key=lambda v: len(v["text"]))
    return {"cases": cases, "nontrivial": len(seen), "skipped": skipped, "violations": viol[:3000],
            "total_violations": len(viol), "exceptions": excs,
            "bound": f"all strings of 1..{maxlen} lexemes over {alphabet!r}, plus {task.get('random', 300)} seeded "
                     "strings of 5..14 lexemes, plus a structured family (splice in either spelling inside every "
                     "multi-character token kind x 4 continuations x 3 prefixes; tabs at 5 places inside strings, character "
                     "literals, block and line comments x 4 continuations x 3 prefixes)"}


def op_one(task):
    m = check_positions(task["text"], task.get("mode", "lossless"))
    r = lex(task["text"])
    return {"violations": [m] if m and not m.startswith("skip:") else [], "tokens": r["tokens"], "exc": r["exc"]}


def main():
    task = json.load(sys.stdin)
    json.dump({"search": op_search, "one": op_one}[task["op"]](task), sys.stdout)


if __name__ == "__main__":
    from vp.replay.native import guarded_main
    guarded_main(main)
