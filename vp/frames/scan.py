"""Reads-/writes-clause scan over the real source (DESIGN.md 2.3): every read of a given
attribute is located with the expression that consumes it and classified; every write to
state that outlives a Context is listed.  Sites are identified by (file, function,
consumer text), never by line number."""
import ast
import os


def iter_modules(repo, subdir="norminette"):
    root = repo.root
    for dp, dn, fn in sorted(os.walk(os.path.join(root, subdir))):
        for f in sorted(fn):
            if f.endswith(".py"):
                rel = os.path.relpath(os.path.join(dp, f), root)
                yield rel, repo.module(rel).tree


def parents(tree):
    par = {}
    for n in ast.walk(tree):
        for c in ast.iter_child_nodes(n):
            par[c] = n
    return par


def enclosing_function(node, par):
    names = []
    n = node
    while n in par:
        n = par[n]
        if isinstance(n, (ast.FunctionDef, ast.ClassDef)):
            names.append(n.name)
    return ".".join(reversed(names)) or "<module>"


def consumer(node, par):
    """smallest expression around `node` that says what is done with the value"""
    cur = node
    while cur in par:
        p = par[cur]
        if isinstance(p, ast.Attribute) and p.value is cur:
            cur = p
            continue
        if isinstance(p, ast.Call) and p.func is cur:
            cur = p
            continue
        if isinstance(p, ast.Call) and cur in p.args and isinstance(p.func, ast.Name) and p.func.id in ("len", "str"):
            cur = p
            continue
        if isinstance(p, (ast.Compare, ast.BinOp, ast.BoolOp, ast.UnaryOp, ast.Subscript, ast.Call, ast.IfExp,
                          ast.JoinedStr, ast.FormattedValue, ast.Tuple, ast.List, ast.keyword, ast.comprehension,
                          ast.ListComp, ast.GeneratorExp, ast.Starred)):
            return p
        return p if isinstance(p, ast.expr) else cur
    return cur


def const_like(n, consts=()):
    if isinstance(n, ast.Constant):
        return True
    if isinstance(n, (ast.Tuple, ast.List)):
        return all(const_like(e, consts) for e in n.elts)
    if isinstance(n, ast.Name) and n.id in consts:
        return True
    return False


def attr_reads(repo, attrs, subdir="norminette"):
    """-> list of dict(file, function, attr, base, consumer, node, consumer_node)"""
    out = []
    for rel, tree in iter_modules(repo, subdir):
        par = parents(tree)
        for n in ast.walk(tree):
            if isinstance(n, ast.Attribute) and n.attr in attrs and isinstance(n.ctx, ast.Load):
                cn = consumer(n, par)
                # `x.value or ''` only passes the value on: what consumes it is the consumer of the BoolOp
                outer = consumer(cn, par) if isinstance(cn, ast.BoolOp) and cn in par else None
                out.append({"file": rel, "function": enclosing_function(n, par), "attr": n.attr,
                            "base": ast.unparse(n.value), "consumer": ast.unparse(cn), "node": n, "consumer_node": cn,
                            "outer_consumer": ast.unparse(outer) if outer is not None else None, "outer_node": outer,
                            "stmt": ast.unparse(statement_of(n, par))[:200]})
    return out


def statement_of(node, par):
    cur = node
    while cur in par and not isinstance(cur, ast.stmt):
        cur = par[cur]
    if isinstance(cur, (ast.If, ast.While)):
        return cur.test
    return cur


LONG_LIVED_CLASSES = ("Registry", "Rules")


def long_lived_writes(repo, subdir="norminette"):
    """one Registry / Rules object serves every file of a run: any attribute of `self` that a
    method other than __init__ / __new__ assigns or mutates is state shared between files"""
    out = []
    for rel, tree in iter_modules(repo, subdir):
        for cls in tree.body:
            if not (isinstance(cls, ast.ClassDef) and cls.name in LONG_LIVED_CLASSES):
                continue
            for fn in cls.body:
                if not isinstance(fn, ast.FunctionDef) or fn.name in ("__init__", "__new__"):
                    continue
                for x in ast.walk(fn):
                    if isinstance(x, ast.Attribute) and isinstance(x.ctx, (ast.Store, ast.Del)) \
                            and isinstance(x.value, ast.Name) and x.value.id == "self":
                        out.append({"where": f"{rel}:{cls.name}.{fn.name}", "what": f"self.{x.attr} assigned"})
                    if isinstance(x, ast.Call) and isinstance(x.func, ast.Attribute) and \
                            x.func.attr in ("append", "remove", "extend", "pop", "insert", "clear", "sort", "update",
                                            "add", "setdefault") and isinstance(x.func.value, ast.Attribute) and \
                            isinstance(x.func.value.value, ast.Name) and x.func.value.value.id == "self":
                        out.append({"where": f"{rel}:{cls.name}.{fn.name}",
                                    "what": f"self.{x.func.value.attr}.{x.func.attr}(...)"})
                    if isinstance(x, ast.Subscript) and isinstance(x.ctx, (ast.Store, ast.Del)) and \
                            isinstance(x.value, ast.Attribute) and isinstance(x.value.value, ast.Name) and \
                            x.value.value.id == "self":
                        out.append({"where": f"{rel}:{cls.name}.{fn.name}", "what": f"self.{x.value.attr}[...] assigned"})
    return out


def enclosing_is_nested(fn, par):
    cur = fn
    while cur in par:
        cur = par[cur]
        if isinstance(cur, ast.FunctionDef):
            return True
    return False


def global_writes(repo, subdir="norminette"):
    """statements that can write state outliving a Context: module-level names assigned in
    functions (global), class attributes (cls.x = / ClassName.x =), sys.* / os.environ,
    mutation of module-level containers through a bare module-level name"""
    out = []
    for rel, tree in iter_modules(repo, subdir):
        par = parents(tree)
        module_names = set()
        for node in tree.body:
            if isinstance(node, ast.Assign):
                for t in node.targets:
                    if isinstance(t, ast.Name):
                        module_names.add(t.id)
        class_names = {n.name for n in tree.body if isinstance(n, ast.ClassDef)}
        for fn in ast.walk(tree):
            if not isinstance(fn, ast.FunctionDef):
                continue
            local = {a.arg for a in fn.args.args + fn.args.kwonlyargs + fn.args.posonlyargs}
            for x in ast.walk(fn):
                if isinstance(x, ast.Name) and isinstance(x.ctx, ast.Store):
                    local.add(x.id)
            globs = set()
            for x in ast.walk(fn):
                if isinstance(x, ast.Global):
                    globs |= set(x.names)
            # closure state: a nested function that rebinds (nonlocal) or mutates a variable of
            # an enclosing function keeps it alive as long as the closure lives -- for a decorator
            # or a module-level helper that is the whole process; function attributes likewise
            nonlocals = set()
            for x in ast.walk(fn):
                if isinstance(x, ast.Nonlocal):
                    nonlocals |= set(x.names)
            for x in ast.walk(fn):
                where = f"{rel}:{enclosing_function(x, par)}"
                if isinstance(x, ast.Name) and isinstance(x.ctx, ast.Store) and x.id in nonlocals:
                    out.append({"where": where, "what": f"closure variable {x.id} rebound (nonlocal)"})
                if isinstance(x, ast.Attribute) and isinstance(x.ctx, (ast.Store, ast.Del)) and isinstance(x.value, ast.Name) \
                        and x.value.id not in local and x.value.id not in ("self", "cls") and x.value.id not in module_names \
                        and x.value.id not in class_names and enclosing_is_nested(fn, par):
                    out.append({"where": where, "what": f"attribute {x.value.id}.{x.attr} of an enclosing function's object assigned"})
            for x in ast.walk(fn):
                where = f"{rel}:{enclosing_function(x, par)}"
                if isinstance(x, ast.Name) and isinstance(x.ctx, ast.Store) and x.id in globs:
                    out.append({"where": where, "what": f"global {x.id} assigned"})
                if isinstance(x, ast.Attribute) and isinstance(x.ctx, (ast.Store, ast.Del)):
                    b = x.value
                    if isinstance(b, ast.Name) and (b.id == "cls" or b.id in class_names):
                        out.append({"where": where, "what": f"class attribute {b.id}.{x.attr} assigned"})
                    if isinstance(b, ast.Name) and b.id in module_names and b.id not in local:
                        out.append({"where": where, "what": f"attribute of module-level object {b.id}.{x.attr} assigned"})
                if isinstance(x, ast.Call) and isinstance(x.func, ast.Attribute):
                    f = x.func
                    if isinstance(f.value, ast.Name) and f.value.id == "sys" and f.attr.startswith("set"):
                        out.append({"where": where, "what": f"sys.{f.attr}(...)"})
                    if isinstance(f.value, ast.Name) and f.value.id in module_names and f.value.id not in local \
                            and f.attr in ("append", "remove", "extend", "pop", "insert", "clear", "sort", "update",
                                           "add", "setdefault"):
                        out.append({"where": where, "what": f"module-level container {f.value.id}.{f.attr}(...)"})
                if isinstance(x, (ast.Subscript,)) and isinstance(x.ctx, (ast.Store, ast.Del)) and \
                        isinstance(x.value, ast.Name) and x.value.id in module_names and x.value.id not in local:
                    out.append({"where": where, "what": f"module-level container {x.value.id}[...] assigned"})
                if isinstance(x, ast.AugAssign) and isinstance(x.target, ast.Name) and x.target.id in module_names \
                        and x.target.id in globs:
                    out.append({"where": where, "what": f"global {x.target.id} augmented"})
    return out
