"""The committed reads-clauses on token values (C17: comments and literals are opaque;
C18: diagnostics do not depend on identifier spelling).  A site is accepted when its
automatically computed class is permitted by the rule below; sites that need a reviewed
justification (the token kind is not evident from the consumer) are listed by key."""

# constants an identifier value may be compared with: names the tool treats specially
SPECIAL_NAMES = {"__attribute__", "environ", "defined"}
# only for tokens in directive position / inside an #include path
DIRECTIVE_NAMES = {"define", "include", "h", "<ARGUMENTED_PREPROCESSORS>"}
DIRECTIVE_UPPER = {"IFNDEF", "IFDEF", "ELIF", "ENDIF"}
PREFIXES = {"g_", "s_", "t_", "u_", "e_"}

# sites whose consumer alone does not show that the token is an IDENTIFIER: reviewed
# justification (where the token comes from)
JUSTIFIED_IDENTIFIER_SITES = {
    "norminette/rules/check_identifier_name.py|v0.value":
        "scope.vars_name holds IDENTIFIER tokens only (appended by IsVarDeclaration / IsUserDefinedType after a "
        "check_token(.., 'IDENTIFIER')); consumed character by character against ascii_lowercase + digits + '_'",
    "norminette/rules/check_variable_indent.py|context.peek_token(v0).value":
        "guarded by check_token(i, 'IDENTIFIER') is True on the line above; consumed character by character "
        "against ascii_lowercase",
    "norminette/rules/check_preprocessor_define.py|not context.peek_token(v0).value.isupper()":
        "the token after '#define' is the macro name: IsPreprocessorStatement.check_define raises CParsingError "
        "unless it is an IDENTIFIER",
    "norminette/rules/check_preprocessor_protection.py|context.peek_token(v0).value":
        "the token after '#ifndef' (validated by IsPreprocessorStatement._just_identifier); compared with the guard "
        "derived from the file name: a name the tool treats specially (C14)",
    "norminette/rules/is_func_declaration.py|v0.fnames.append(context.peek_token(v1).value)":
        "function name IDENTIFIER (identifier[1] index); stored, later read character-wise by CheckIdentifierName",
    "norminette/rules/is_func_prototype.py|v0.fnames.append(context.peek_token(v1).value)":
        "function name IDENTIFIER; stored only",
    "norminette/context.py|v0.value or v0.type":
        "macro name of a #define; compared only with the guard symbol (has_macro_defined)",
    "norminette/rules/is_preprocessor_statement.py|v0.value if v0.type == 'IDENTIFIER' else v0.type":
        "directive name right after '#': directive position",
    "norminette/rules/is_preprocessor_statement.py|v0.value if v0.type == 'IDENTIFIER' else v0.type":
        "directive name right after '#': directive position",
}

# consumers of comment / literal text that the statement of C17 itself excludes or that only
# observe a length
COMMENT_LITERAL_SITES = {
    "norminette/rules/check_comment_line_len.py|v0.value.split('\\n')":
        "only len() of the parts is taken (proved: the C03 contract of CheckCommentLineLen.run mentions the value "
        "through split_part_len / len only)",
    "norminette/rules/check_comment_line_len.py|v0 + len(v1.value)": "length only",
    "norminette/rules/check_header.py|context.peek_token(0).value + '\\n'":
        "the 42 header accumulator: excluded by the statement ('outside the 42 header'); only leading block comments "
        "reach it (C13 state machine: frozen after the first non-comment statement)",
    "norminette/rules/check_preprocessor_include.py|context.peek_token(v0).value.strip().strip('\"')":
        "argument of #include: excluded by the statement",
}

DEBUG_SITES = {
    "norminette/lexer/tokens.py|f'<{self.type}={self.value}>' if self.value else f'<{self.type}>'",
    "norminette/lexer/tokens.py|{self.value}",
}


def judge(site):
    """-> (accepted: bool, reason)"""
    k, d, key = site["class"], site["detail"], site["key"]
    if key in DEBUG_SITES:
        return True, "debug representation (Token.__str__): printed by dprint only"
    if k == "FORMAT" and site.get("file") == "norminette/lexer/tokens.py" and \
            str(site.get("function", "")).split(".")[-1] in ("__str__", "__repr__", "__format__"):
        # however the token renders itself: shown by -d and inside the text of the fatal message
        # only, which no statement quotes (a rule that parsed that text would read it through
        # str() / repr(), not through .value, and the tokens module has no rule)
        return True, "debug representation of the token (its own __str__ / __repr__)"
    if key in COMMENT_LITERAL_SITES:
        return True, COMMENT_LITERAL_SITES[key]
    if key in JUSTIFIED_IDENTIFIER_SITES:
        return True, JUSTIFIED_IDENTIFIER_SITES[key]
    if site.get("file") == "norminette/rules/check_preprocessor_protection.py":
        # the symbol after #ifndef / #define / #endif is what C14 is about: however the rule spells the
        # comparison with the guard derived from the file name (plain read, ==, !=, upper-cased first) --
        # as long as the other side is that derived name and not a constant of the rule's own
        txt = site.get("consumer", "")
        if k == "PLAIN" or (k in ("EQ_CONST", "UPPER_EQ_CONST") and d == ["<guard>"]) or \
                (k == "OTHER" and txt.replace(" ", "").endswith(".value.upper()")):
            return True, "guard symbol compared with the name derived from the file name (C14)"
    if k == "EQ_CONST":
        bad = [c for c in d if c not in SPECIAL_NAMES and c not in DIRECTIVE_NAMES]
        if bad:
            return False, f"token value compared with a constant outside the committed special names: {bad}"
        return True, "equality with a committed special name"
    if k == "UPPER_EQ_CONST":
        bad = [c for c in d if c not in DIRECTIVE_UPPER]
        return (not bad), ("directive name test" if not bad else f"upper-cased value compared with {bad}")
    if k == "STARTSWITH_CONST":
        bad = [c for c in d if c not in PREFIXES]
        return (not bad), ("naming-class prefix test" if not bad else f"startswith with an uncommitted prefix {bad}")
    if k in ("LEN", "IS_NONE"):
        return True, "length / presence only"
    if k == "OR_DEFAULT" and d == "''":
        return True, "Token.length: len(value or '')"
    return False, f"unclassified consumer of a token value (class {k})"
