"""Classification of the consumers of token values (reads-clauses of C17 / C18)."""
import ast

from . import scan

PREFIXES = ("g_", "s_", "t_", "u_", "e_")


def klass(site):
    """-> (class, detail) of one `.value` read"""
    n, c = site["node"], site["consumer_node"]
    txt = site["consumer"]

    def is_value(x):
        return x is n

    def const_of(x):
        if isinstance(x, ast.Constant):
            return [x.value]
        if isinstance(x, (ast.Tuple, ast.List)) and all(isinstance(e, ast.Constant) for e in x.elts):
            return [e.value for e in x.elts]
        if isinstance(x, ast.Name):
            return [f"<{x.id}>"]
        return None
    if isinstance(c, ast.Compare) and len(c.ops) == 1 and isinstance(c.left, ast.Call) and isinstance(c.left.func, ast.Attribute) \
            and c.left.func.attr == "startswith" and is_value(c.left.func.value) and c.left.args \
            and isinstance(c.left.args[0], ast.Name) and site.get("table_values") is not None:
        return "STARTSWITH_CONST", site["table_values"]
    if isinstance(c, ast.Compare) and len(c.ops) == 1:
        left, right = c.left, c.comparators[0]
        op = type(c.ops[0]).__name__
        # X.value ==/!=/in CONST
        if is_value(left) and op in ("Eq", "NotEq", "In", "NotIn"):
            k = const_of(right)
            if k is not None:
                return "EQ_CONST", k
        if is_value(left) and op in ("Is", "IsNot") and isinstance(right, ast.Constant) and right.value is None:
            return "IS_NONE", None
        # X.value.upper() in CONST / == CONST
        if isinstance(left, ast.Call) and isinstance(left.func, ast.Attribute) and left.func.attr == "upper" \
                and is_value(left.func.value) and op in ("Eq", "NotEq", "In", "NotIn"):
            k = const_of(right)
            if k is not None:
                return "UPPER_EQ_CONST", k
        # X.value.startswith('p') is False
        if isinstance(left, ast.Call) and isinstance(left.func, ast.Attribute) and left.func.attr == "startswith" \
                and is_value(left.func.value) and left.args and isinstance(left.args[0], ast.Constant):
            return "STARTSWITH_CONST", [left.args[0].value]
    if isinstance(c, ast.Call) and isinstance(c.func, ast.Name) and c.func.id == "len" and c.args and is_value(c.args[0]):
        return "LEN", None
    if isinstance(c, ast.BinOp) and isinstance(c.op, ast.Add):
        for side in (c.left, c.right):
            if isinstance(side, ast.Call) and isinstance(side.func, ast.Name) and side.func.id == "len" \
                    and side.args and is_value(side.args[0]):
                return "LEN", None
        if is_value(c.left) or is_value(c.right):
            return "CONCAT", None
    if isinstance(c, ast.UnaryOp) and isinstance(c.op, ast.Not) and isinstance(c.operand, ast.Call) \
            and isinstance(c.operand.func, ast.Attribute) and c.operand.func.attr == "isupper":
        return "ISUPPER", None
    if isinstance(c, ast.Call) and isinstance(c.func, ast.Attribute) and is_value(c.func.value):
        a = c.func.attr
        if a == "split":
            return "SPLIT", [x.value for x in c.args if isinstance(x, ast.Constant)]
        if a == "isupper":
            return "ISUPPER", None
        if a == "startswith" and c.args and isinstance(c.args[0], ast.Constant):
            return "STARTSWITH_CONST", [c.args[0].value]
        if a == "startswith" and c.args and isinstance(c.args[0], ast.Name) and site.get("table_values") is not None:
            return "STARTSWITH_CONST", site["table_values"]
        if a == "strip":
            return "STRIP", None
    if isinstance(c, ast.Call) and isinstance(c.func, ast.Attribute) and c.func.attr == "strip":
        return "STRIP", None
    if isinstance(c, ast.Call) and isinstance(c.func, ast.Attribute) and c.func.attr == "append" and any(is_value(a) for a in c.args):
        return "STORE", None
    if isinstance(c, ast.BoolOp) and isinstance(c.op, ast.Or) and c.values and is_value(c.values[0]):
        # the default only passes the value on: classify by what consumes the whole expression
        o = site.get("outer_node")
        if isinstance(o, ast.Call) and isinstance(o.func, ast.Name) and o.func.id == "len" and o.args and o.args[0] is c:
            return "OR_DEFAULT", ast.unparse(c.values[1])
        return "OTHER", f"({ast.unparse(c)}) consumed by {site.get('outer_consumer')}"
    if isinstance(c, ast.IfExp) and (is_value(c.body) or is_value(c.test)):
        return "COND_VALUE", None
    if isinstance(c, (ast.JoinedStr, ast.FormattedValue)):
        return "FORMAT", None
    if isinstance(c, ast.comprehension) or isinstance(c, ast.For):
        return "ITER_CHARS", None
    if c is n:
        return "PLAIN", None
    return "OTHER", None


KEEP_NAMES = {"self", "context", "cls", "True", "False", "None"}


def canonical_text(repo, relfile, node):
    """source text of an expression with its local variables renamed v0, v1, ... in order of
    appearance, so that a site key survives the renaming of a local (module-level names,
    builtins, self / context are kept)"""
    import builtins
    import copy
    mod = repo.module(relfile)
    keep = KEEP_NAMES | set(mod.top) | set(mod.imports) | set(dir(builtins))
    node = copy.deepcopy(node)
    ren = {}
    names = sorted((x for x in ast.walk(node) if isinstance(x, ast.Name)), key=lambda x: (x.lineno, x.col_offset))
    for x in names:
        if x.id in keep:
            continue
        if x.id not in ren:
            ren[x.id] = f"v{len(ren)}"
    for x in names:
        if x.id in ren:
            x.id = ren[x.id]
    return ast.unparse(node)


def table_values_of_startswith_arg(repo, site):
    """value.startswith(<name>): when <name> is bound (possibly by tuple unpacking) from a
    subscript of a module-level dict literal, the string constants it can take -> list | None"""
    c = site["consumer_node"]
    call = None
    for x in ast.walk(c):
        if isinstance(x, ast.Call) and isinstance(x.func, ast.Attribute) and x.func.attr == "startswith" and x.args \
                and isinstance(x.args[0], ast.Name):
            call = x
    if call is None:
        return None
    name = call.args[0].id
    mod = repo.module(site["file"])
    fn = None
    for node in ast.walk(mod.tree):
        if isinstance(node, ast.FunctionDef) and any(x is c for x in ast.walk(node)):
            fn = node
    if fn is None:
        return None
    out = None
    for x in ast.walk(fn):
        if not isinstance(x, ast.Assign) or not isinstance(x.value, ast.Subscript) or not isinstance(x.value.value, ast.Name):
            continue
        tgt = x.targets[0]
        pos = None
        if isinstance(tgt, ast.Name) and tgt.id == name:
            pos = -1
        elif isinstance(tgt, ast.Tuple):
            for k, e in enumerate(tgt.elts):
                if isinstance(e, ast.Name) and e.id == name:
                    pos = k
        if pos is None:
            continue
        table = mod.top.get(x.value.value.id)
        lit = table.value if isinstance(table, ast.Assign) else None
        if not isinstance(lit, ast.Dict):
            return None
        vals = []
        for v in lit.values:
            e = v if pos == -1 else (v.elts[pos] if isinstance(v, ast.Tuple) and pos < len(v.elts) else None)
            if not (isinstance(e, ast.Constant) and isinstance(e.value, str)):
                return None
            vals.append(e.value)
        out = (out or []) + vals
    return out


def value_sites(repo):
    out = []
    for s in scan.attr_reads(repo, {"value"}):
        if not (s["file"].startswith("norminette/rules/") or s["file"] in ("norminette/context.py",
                                                                          "norminette/lexer/tokens.py",
                                                                          "norminette/errors.py")):
            continue
        s["table_values"] = table_values_of_startswith_arg(repo, s)
        k, d = klass(s)
        s2 = dict(s)
        s2["class"], s2["detail"] = k, d
        # the key does not name the function: moving an expression into a helper of the same file
        # is not a new consumer
        s2["key"] = f"{s['file']}|{canonical_text(repo, s['file'], s['consumer_node'])}"
        s2["key_as_written"] = f"{s['file']}|{s['function']}|{s['consumer']}"
        out.append(s2)
    return out
