"""Which match does Python's backtracking `re` engine return?  (C11, DESIGN.md 10.7)

`pattern.match(w)` explores the alternatives of the pattern depth-first in priority order
(left alternative first, a greedy repeat longest first, an optional group taken first) and
returns the first complete match of a prefix of w.  For the patterns handled here every
complete match is an *instance* of a *shape*:

  shape    = one choice at every alternation / optional group of the parse tree, which leaves
             a sequence of pieces (single characters of a class, greedy runs of a class, or
             a complex repeated sub-pattern taken as one opaque piece), look-behind conditions
             between them and group boundaries;
  instance = a shape plus the text of every piece.

Shapes are enumerated from the real parse tree (re._parser) in priority order.  For a family
F of inputs (z3 constraints over string variables) and an intended instance I0 given by the
specification, the engine returns I0 for every w in F iff

  (E)  I0 is a match:         every piece lies in its language, look-behinds hold;
  (P1) no earlier shape:      F and "some instance of S' matches a prefix of w" is unsat for
                              every shape S' before the shape of I0;
  (P2) no longer greedy run:  for every greedy piece j of I0 and every shape that takes the
                              same decisions as I0 up to j: F and "an instance of it that
                              agrees with I0 before j and is longer at j matches" is unsat.

(a later alternative or a shorter run is only tried after these have failed).  All queries
are quantifier-free string constraints; they are generated here and discharged by the
caller.  The encoding of the engine's search order is validated against `re` itself on
samples of each family on every run (translation validation), not proved.

Supported: `^`, named / unnamed groups, alternation, greedy repeats, classes with \\d and \\w
(ASCII reading, see `ascii_only`), literals, positive look-behind of fixed width.  Anything
else raises UnsupportedRegex and the caller reports the lemma undecided."""
import re
import re._parser as sre_parse
import re._constants as C

import z3

from . import UnsupportedRegex

S = z3.StringSort()
RS = z3.ReSort(S)

DIGIT = z3.Range("0", "9")
WORD = z3.Union(z3.Range("a", "z"), z3.Range("A", "Z"), z3.Range("0", "9"), z3.Re("_"))


def klass(av):
    negate, alts = False, []
    for op, v in av:
        if op == C.NEGATE:
            negate = True
        elif op == C.LITERAL:
            alts.append(z3.Re(chr(v)))
        elif op == C.RANGE:
            alts.append(z3.Range(chr(v[0]), chr(v[1])))
        elif op == C.CATEGORY and v == C.CATEGORY_DIGIT:
            alts.append(DIGIT)
        elif op == C.CATEGORY and v == C.CATEGORY_WORD:
            alts.append(WORD)
        else:
            raise UnsupportedRegex(f"class item {op} {v}")
    u = alts[0] if len(alts) == 1 else z3.Union(*alts)
    if negate:
        u = z3.Intersect(z3.AllChar(RS), z3.Complement(u))
    return u


def one_char(op, av):
    """regex of a single-character item, or None"""
    if op == C.LITERAL:
        return z3.Re(chr(av))
    if op == C.IN:
        return klass(av)
    return None


def plain_language(seq):
    """language of a sub-pattern without groups / look-behind (used for opaque pieces)"""
    parts = []
    for op, av in seq:
        r = one_char(op, av)
        if r is not None:
            parts.append(r)
        elif op == C.MAX_REPEAT:
            lo, hi, sub = av
            body = plain_language(sub)
            parts.append(loop(body, lo, hi))
        elif op == C.BRANCH:
            parts.append(z3.Union(*[plain_language(b) for b in av[1]]))
        elif op == C.SUBPATTERN and av[0] is None:
            parts.append(plain_language(av[3]))
        else:
            raise UnsupportedRegex(f"construct {op} inside a repeated sub-pattern")
    if not parts:
        return z3.Re("")
    return parts[0] if len(parts) == 1 else z3.Concat(*parts)


def loop(r, lo, hi):
    if hi == C.MAXREPEAT:
        if lo == 0:
            return z3.Star(r)
        if lo == 1:
            return z3.Plus(r)
        return z3.Concat(z3.Loop(r, lo, lo), z3.Star(r))
    return z3.Loop(r, lo, hi)


class Piece:
    """kind: 'char' (exactly one character of `cls`), 'run' (greedy run of `cls`, lo..hi
    characters), 'opaque' (greedy repeat of a complex body: language only)"""

    def __init__(self, kind, lang, lo=1, hi=1, desc=""):
        self.kind, self.lang, self.lo, self.hi, self.desc = kind, lang, lo, hi, desc

    @property
    def greedy(self):
        return self.kind in ("run", "opaque")


class Shape:
    def __init__(self, items=(), key=()):
        self.items = list(items)      # ('piece', Piece) | ('lb', regex of the look-behind) | ('gs', name) | ('ge', name)
        self.key = tuple(key)         # the choices taken, for reporting

    def then(self, other):
        return Shape(self.items + other.items, self.key + other.key)

    @property
    def pieces(self):
        return [x[1] for x in self.items if x[0] == "piece"]

    def describe(self):
        return "".join({"piece": lambda p: f"<{p.desc}>", "lb": lambda r: "(?<=..)", "gs": lambda n: f"({n}:",
                        "ge": lambda n: ")"}[k](v) for k, v in self.items)


def shapes_of_seq(seq, names):
    out = [Shape()]
    for op, av in seq:
        alts = shapes_of_item(op, av, names)
        out = [a.then(b) for a in out for b in alts]      # lexicographic: earlier items are more significant
    return out


def desc_of(op, av):
    if op == C.LITERAL:
        return chr(av)
    return "[..]"


def shapes_of_item(op, av, names):
    if op == C.AT:
        if av != C.AT_BEGINNING:
            raise UnsupportedRegex(f"anchor {av}")
        return [Shape()]
    r = one_char(op, av)
    if r is not None:
        return [Shape([("piece", Piece("char", r, desc=desc_of(op, av)))])]
    if op == C.SUBPATTERN:
        group, add_flags, del_flags, sub = av
        if add_flags or del_flags:
            raise UnsupportedRegex("inline flags")
        inner = shapes_of_seq(sub, names)
        if group is None or group not in names:
            return inner
        n = names[group]
        return [Shape([("gs", n)]).then(s).then(Shape([("ge", n)])) for s in inner]
    if op == C.BRANCH:
        out = []
        for k, b in enumerate(av[1]):
            for s in shapes_of_seq(b, names):
                out.append(Shape(s.items, (f"alt{k}",) + s.key))
        return out
    if op == C.ASSERT:
        direction, sub = av
        if direction != -1:
            raise UnsupportedRegex("look-ahead")
        r = plain_language(sub)
        lookbehind_of[id(r)] = lookbehind_chars(sub)
        _keep.append(r)
        return [Shape([("lb", r)])]
    if op == C.MAX_REPEAT:
        lo, hi, sub = av
        if len(sub) == 1 and one_char(*sub[0]) is not None:
            cls = one_char(*sub[0])
            if (lo, hi) == (0, 1):
                return [Shape([("piece", Piece("char", cls, desc=desc_of(*sub[0]) + "?"))], ("taken",)), Shape([], ("skipped",))]
            return [Shape([("piece", Piece("run", cls, lo, hi, desc=desc_of(*sub[0]) + ("+" if lo else "*")))])]
        if (lo, hi) == (0, 1):
            inner = shapes_of_seq(sub, names)
            return [Shape(s.items, ("taken",) + s.key) for s in inner] + [Shape([], ("skipped",))]
        # a repeated complex body: one opaque greedy piece (no groups inside)
        return [Shape([("piece", Piece("opaque", loop(plain_language(sub), lo, hi), desc="(..)+"))])]
    raise UnsupportedRegex(f"regex construct {op}")


_keep = []      # keeps look-behind regex objects alive (their id() is a key)


def shapes(pattern, flags=0):
    tree = sre_parse.parse(pattern, flags)
    names = {v: k for k, v in tree.state.groupdict.items()}
    return shapes_of_seq(tree, names)


# ------------------------------------------------------------------------------ queries
# Everything is phrased as emptiness of an intersection of regular languages over the input
# alphabet plus two marker characters that pin positions of the two decompositions (the
# family's and the candidate instance's) to each other.  No word equations.
M1, M2 = "\x01", "\x02"
MARK = z3.Union(z3.Re(M1), z3.Re(M2))
SIGMA = z3.Full(RS)


def cat(rs):
    rs = list(rs)
    if not rs:
        return z3.Re("")
    return rs[0] if len(rs) == 1 else z3.Concat(*rs)


def piece_lang(p):
    if p.kind == "run":
        return loop(p.lang, p.lo, p.hi)
    return p.lang


def with_optional_marks(lb_items):
    """a look-behind of single-character items, tolerant of markers between / after them"""
    out = []
    for r in lb_items:
        out.append(r)
        out.append(z3.Star(MARK))
    return cat(out)


def lookbehind_chars(sub):
    out = []
    for op, av in sub:
        r = one_char(op, av)
        if r is None:
            raise UnsupportedRegex("look-behind of variable width")
        out.append(r)
    return out


class Segment:
    """part of the family's grammar: its text lies in `lang` and fills `npieces` consecutive
    pieces of the intended shape"""

    def __init__(self, lang, npieces=1, name=""):
        self.lang, self.npieces, self.name = lang, npieces, name


def fold_items(left, items):
    """language of `left` followed by the items (pieces, look-behinds) of a shape"""
    cur = left
    for kind, v in items:
        if kind == "piece":
            cur = z3.Concat(cur, piece_lang(v))
        elif kind == "lb":
            cur = z3.Intersect(cur, z3.Concat(SIGMA, v))
    return cur


def seg_of_piece(segments):
    out = []
    for g, sg in enumerate(segments):
        out += [g] * sg.npieces
    return out


def queries_for_family(sh, k0, segments, rest_lang, groups, name):
    """-> list of (name, regex whose language must be EMPTY, meta), or raises UnsupportedRegex.
    groups: name -> (first segment, one past the last segment) of the expected group text."""
    out = []
    s0 = sh[k0]
    ps = s0.pieces
    if sum(sg.npieces for sg in segments) != len(ps):
        raise UnsupportedRegex("segments do not cover the pieces of the shape")
    seg_idx = seg_of_piece(segments)
    # item positions of the pieces, and the piece range of every segment
    pos = [i for i, it in enumerate(s0.items) if it[0] == "piece"]
    first_piece = []
    k = 0
    for sg in segments:
        first_piece.append(k)
        k += sg.npieces
    first_piece.append(k)

    def seg_with_pieces(g):
        """text of segment g as the family and the shape's pieces both allow it"""
        a, b = first_piece[g], first_piece[g + 1]
        return z3.Intersect(segments[g].lang, cat(piece_lang(ps[i]) for i in range(a, b)))
    # (E) the intended instance is a match: every segment's language is inside the language of
    # its pieces, and every look-behind holds for every member
    for g, sg in enumerate(segments):
        a, b = first_piece[g], first_piece[g + 1]
        out.append((f"{name}.E.segment{g}_fits_its_pieces",
                    z3.Intersect(sg.lang, z3.Complement(cat(piece_lang(ps[i]) for i in range(a, b)))),
                    {"segment": sg.name}))
    npieces_before = 0
    for i, (kind, v) in enumerate(s0.items):
        if kind == "piece":
            npieces_before += 1
        elif kind == "lb":
            if npieces_before not in first_piece:
                raise UnsupportedRegex("look-behind inside a segment")
            g = first_piece.index(npieces_before)
            before = cat(segments[x].lang for x in range(g))
            out.append((f"{name}.E.lookbehind_at_segment{g}", z3.Intersect(before, z3.Complement(z3.Concat(SIGMA, v))), {}))
    # groups: the group boundaries of the shape are the expected segment boundaries
    gspan, open_, np_ = {}, {}, 0
    for kind, v in s0.items:
        if kind == "piece":
            np_ += 1
        elif kind == "gs":
            open_[v] = np_
        elif kind == "ge":
            gspan[v] = (open_.pop(v), np_)
    for gname, (ga, gb) in groups.items():
        want = (first_piece[ga], first_piece[gb])
        ok = gspan.get(gname) == want
        out.append((f"{name}.E.group_{gname}_is_the_expected_text", z3.Re("") if not ok else z3.Intersect(z3.Re("a"), z3.Re("b")),
                    {"group": gname, "pieces_of_group": gspan.get(gname), "expected_pieces": want}))
    whole_f = cat([sg.lang for sg in segments] + [rest_lang])

    def common_prefix(s2):
        c = 0
        for a, b in zip(s2.items, s0.items):
            if a is b or (a[0] == b[0] and a[1] is b[1]):
                c += 1
            else:
                break
        return c
    for k2, s2 in enumerate(sh):
        c = common_prefix(s2)
        npc = sum(1 for it in s0.items[:c] if it[0] == "piece")      # pieces in the common prefix
        # (b) an earlier shape that agrees with the intended instance on the common pieces
        if k2 < k0:
            # align at the last segment boundary inside the common prefix
            g = max(x for x in range(len(first_piece)) if first_piece[x] <= npc)
            a_items = [it for it in s0.items[:c]]
            # items of the common prefix beyond the aligned boundary stay on the candidate's side
            cut = pos[first_piece[g]] if first_piece[g] < len(pos) else len(s0.items)
            cut = min(cut, c)
            A = cat(seg_with_pieces(x) for x in range(g))
            f_side = z3.Concat(A, z3.Re(M1), cat([segments[x].lang for x in range(g, len(segments))] + [rest_lang]))
            tail = [(kk, (with_optional_marks(lookbehind_of[id(vv)]) if kk == "lb" else vv)) for kk, vv in s2.items[cut:]]
            c_side = z3.Concat(fold_items(z3.Concat(A, z3.Re(M1)), tail), SIGMA)
            out.append((f"{name}.P1.no_earlier_alternative.shape{k2}", z3.Intersect(f_side, c_side),
                        {"shape": s2.describe(), "choices": list(s2.key), "aligned_after_segment": g}))
        # (a) a longer greedy run at a piece of the common prefix
        for j in range(npc):
            p = ps[j]
            if not p.greedy:
                continue
            if pos[j] >= c:
                continue
            g = seg_idx[j]
            if j != first_piece[g + 1] - 1:
                raise UnsupportedRegex("a greedy piece that is not the last piece of its segment")
            if any(ps[i].greedy for i in range(first_piece[g], j)):
                raise UnsupportedRegex("two greedy pieces in one segment")
            A = cat(seg_with_pieces(x) for x in range(g))
            f_side = z3.Concat(A, z3.Re(M1), segments[g].lang, z3.Re(M2),
                               cat([segments[x].lang for x in range(g + 1, len(segments))] + [rest_lang]))
            inside = cat([piece_lang(ps[i]) for i in range(first_piece[g], j)] +
                         [z3.Star(p.lang), z3.Re(M2), z3.Plus(p.lang)])
            tail = [(kk, (with_optional_marks(lookbehind_of[id(vv)]) if kk == "lb" else vv)) for kk, vv in s2.items[pos[j] + 1:]]
            c_side = z3.Concat(fold_items(z3.Concat(A, z3.Re(M1), inside), tail), SIGMA)
            out.append((f"{name}.P2.no_longer_run.piece{j}.shape{k2}", z3.Intersect(f_side, c_side),
                        {"piece": p.desc, "shape": s2.describe()}))
    opaque = [p.desc for p in ps if p.kind == "opaque"]
    return out, opaque, whole_f


def no_match_queries(sh, whole_f, name):
    out = []
    for k, s in enumerate(sh):
        tail = [(kk, (z3.Concat(*lookbehind_of[id(vv)]) if len(lookbehind_of[id(vv)]) > 1 else lookbehind_of[id(vv)][0])
                 if kk == "lb" else vv) for kk, vv in s.items]
        c_side = z3.Concat(fold_items(z3.Re(""), tail), SIGMA)
        out.append((f"{name}.no_match.shape{k}", z3.Intersect(whole_f, c_side), {"shape": s.describe()}))
    return out


lookbehind_of = {}      # id(regex of a look-behind item) -> list of its single-character regexes
