"""Which match does Python's backtracking `re` engine return?  (C11, DESIGN.md 10.7)

`pattern.match(w)` explores the alternatives of the pattern depth-first in priority order
(left alternative first, a greedy repeat longest first, an optional group taken first) and
returns the first complete match of a prefix of w.  For the patterns handled here every
complete match is an *instance* of a *shape*:

  shape    = one choice at every alternation / optional group of the parse tree, which leaves
             a sequence of pieces (single characters of a class, greedy runs of a class, or
             a complex repeated sub-pattern taken as one opaque piece), look-behind conditions
             between them and group boundaries;
  instance = a shape plus the text of every piece.

Shapes are enumerated from the real parse tree (re._parser) in priority order.  For a family
F of inputs (z3 constraints over string variables) and an intended instance I0 given by the
specification, the engine returns I0 for every w in F iff

  (E)  I0 is a match:         every piece lies in its language, look-behinds hold;
  (P1) no earlier shape:      F and "some instance of S' matches a prefix of w" is unsat for
                              every shape S' before the shape of I0;
  (P2) no longer greedy run:  for every greedy piece j of I0 and every shape that takes the
                              same decisions as I0 up to j: F and "an instance of it that
                              agrees with I0 before j and is longer at j matches" is unsat.

(a later alternative or a shorter run is only tried after these have failed).  All queries
are quantifier-free string constraints; they are generated here and discharged by the
caller.  The encoding of the engine's search order is validated against `re` itself on
samples of each family on every run (translation validation), not proved.

Supported: `^`, named / unnamed groups, alternation, greedy repeats, classes with \\d and \\w
(ASCII reading, see `ascii_only`), literals, positive look-behind of fixed width.  Anything
else raises UnsupportedRegex and the caller reports the lemma undecided."""
import re
import re._parser as sre_parse
import re._constants as C

import z3

from . import UnsupportedRegex

S = z3.StringSort()
RS = z3.ReSort(S)

DIGIT = z3.Range("0", "9")
WORD = z3.Union(z3.Range("a", "z"), z3.Range("A", "Z"), z3.Range("0", "9"), z3.Re("_"))


def klass(av):
    negate, alts = False, []
    for op, v in av:
        if op == C.NEGATE:
            negate = True
        elif op == C.LITERAL:
            alts.append(z3.Re(chr(v)))
        elif op == C.RANGE:
            alts.append(z3.Range(chr(v[0]), chr(v[1])))
        elif op == C.CATEGORY and v == C.CATEGORY_DIGIT:
            alts.append(DIGIT)
        elif op == C.CATEGORY and v == C.CATEGORY_WORD:
            alts.append(WORD)
        else:
            raise UnsupportedRegex(f"class item {op} {v}")
    u = alts[0] if len(alts) == 1 else z3.Union(*alts)
    if negate:
        u = z3.Intersect(z3.AllChar(RS), z3.Complement(u))
    return u


def one_char(op, av):
    """regex of a single-character item, or None"""
    if op == C.LITERAL:
        return z3.Re(chr(av))
    if op == C.IN:
        return klass(av)
    return None


def plain_language(seq):
    """language of a sub-pattern without groups / look-behind (used for opaque pieces)"""
    parts = []
    for op, av in seq:
        r = one_char(op, av)
        if r is not None:
            parts.append(r)
        elif op == C.MAX_REPEAT:
            lo, hi, sub = av
            body = plain_language(sub)
            parts.append(loop(body, lo, hi))
        elif op == C.BRANCH:
            parts.append(z3.Union(*[plain_language(b) for b in av[1]]))
        elif op == C.SUBPATTERN and av[0] is None:
            parts.append(plain_language(av[3]))
        else:
            raise UnsupportedRegex(f"construct {op} inside a repeated sub-pattern")
    if not parts:
        return z3.Re("")
    return parts[0] if len(parts) == 1 else z3.Concat(*parts)


def loop(r, lo, hi):
    if hi == C.MAXREPEAT:
        if lo == 0:
            return z3.Star(r)
        if lo == 1:
            return z3.Plus(r)
        return z3.Concat(z3.Loop(r, lo, lo), z3.Star(r))
    return z3.Loop(r, lo, hi)


class Piece:
    """kind: 'char' (exactly one character of `cls`), 'run' (greedy run of `cls`, lo..hi
    characters), 'opaque' (greedy repeat of a complex body: language only)"""

    def __init__(self, kind, lang, lo=1, hi=1, desc=""):
        self.kind, self.lang, self.lo, self.hi, self.desc = kind, lang, lo, hi, desc

    @property
    def greedy(self):
        return self.kind in ("run", "opaque")


class Shape:
    def __init__(self, items=(), key=()):
        self.items = list(items)      # ('piece', Piece) | ('lb', regex of the look-behind) | ('gs', name) | ('ge', name)
        self.key = tuple(key)         # the choices taken, for reporting

    def then(self, other):
        return Shape(self.items + other.items, self.key + other.key)

    @property
    def pieces(self):
        return [x[1] for x in self.items if x[0] == "piece"]

    def describe(self):
        return "".join({"piece": lambda p: f"<{p.desc}>", "lb": lambda r: "(?<=..)", "gs": lambda n: f"({n}:",
                        "ge": lambda n: ")"}[k](v) for k, v in self.items)


def shapes_of_seq(seq, names):
    out = [Shape()]
    for op, av in seq:
        alts = shapes_of_item(op, av, names)
        out = [a.then(b) for a in out for b in alts]      # lexicographic: earlier items are more significant
    return out


def desc_of(op, av):
    if op == C.LITERAL:
        return chr(av)
    return "[..]"


def shapes_of_item(op, av, names):
    if op == C.AT:
        if av != C.AT_BEGINNING:
            raise UnsupportedRegex(f"anchor {av}")
        return [Shape()]
    r = one_char(op, av)
    if r is not None:
        return [Shape([("piece", Piece("char", r, desc=desc_of(op, av)))])]
    if op == C.SUBPATTERN:
        group, add_flags, del_flags, sub = av
        if add_flags or del_flags:
            raise UnsupportedRegex("inline flags")
        inner = shapes_of_seq(sub, names)
        if group is None or group not in names:
            return inner
        n = names[group]
        return [Shape([("gs", n)]).then(s).then(Shape([("ge", n)])) for s in inner]
    if op == C.BRANCH:
        out = []
        for k, b in enumerate(av[1]):
            for s in shapes_of_seq(b, names):
                out.append(Shape(s.items, (f"alt{k}",) + s.key))
        return out
    if op == C.ASSERT:
        direction, sub = av
        if direction != -1:
            raise UnsupportedRegex("look-ahead")
        return [Shape([("lb", plain_language(sub))])]
    if op == C.MAX_REPEAT:
        lo, hi, sub = av
        if len(sub) == 1 and one_char(*sub[0]) is not None:
            cls = one_char(*sub[0])
            if (lo, hi) == (0, 1):
                return [Shape([("piece", Piece("char", cls, desc=desc_of(*sub[0]) + "?"))], ("taken",)), Shape([], ("skipped",))]
            return [Shape([("piece", Piece("run", cls, lo, hi, desc=desc_of(*sub[0]) + ("+" if lo else "*")))])]
        if (lo, hi) == (0, 1):
            inner = shapes_of_seq(sub, names)
            return [Shape(s.items, ("taken",) + s.key) for s in inner] + [Shape([], ("skipped",))]
        # a repeated complex body: one opaque greedy piece (no groups inside)
        return [Shape([("piece", Piece("opaque", loop(plain_language(sub), lo, hi), desc="(..)+"))])]
    raise UnsupportedRegex(f"regex construct {op}")


def shapes(pattern, flags=0):
    tree = sre_parse.parse(pattern, flags)
    names = {v: k for k, v in tree.state.groupdict.items()}
    return shapes_of_seq(tree, names)


def piece_constraint(p, x):
    if p.kind == "char":
        return [z3.InRe(x, p.lang)]
    if p.kind == "run":
        return [z3.InRe(x, loop(p.lang, p.lo, p.hi))]
    return [z3.InRe(x, p.lang)]


def instance(shape, xs):
    """constraints saying that the strings xs are an instance of the shape; -> (constraints,
    groups: name -> term, consumed: term)"""
    cons, groups, open_, k = [], {}, {}, 0
    sofar = []

    def cat(ts):
        if not ts:
            return z3.StringVal("")
        return ts[0] if len(ts) == 1 else z3.Concat(*ts)
    for kind, v in shape.items:
        if kind == "piece":
            cons += piece_constraint(v, xs[k])
            sofar.append(xs[k])
            for n in open_:
                open_[n].append(xs[k])
            k += 1
        elif kind == "lb":
            cons.append(z3.InRe(cat(sofar), z3.Concat(z3.Full(RS), v)))
        elif kind == "gs":
            open_[v] = []
        elif kind == "ge":
            groups[v] = cat(open_.pop(v))
    return cons, groups, cat(sofar)


def fresh(prefix, n):
    fresh.counter += 1
    return [z3.String(f"{prefix}{fresh.counter}_{i}") for i in range(n)]


fresh.counter = 0


def matches_prefix(shape, w, tag="y"):
    """some instance of the shape matches a prefix of w -> (constraints, piece vars)"""
    xs = fresh(tag, len(shape.pieces))
    cons, groups, consumed = instance(shape, xs)
    rest = z3.String(f"{tag}rest{fresh.counter}")
    cons.append(w == z3.Concat(consumed, rest))
    return cons, xs


def lemma_queries(pattern, flags, w, family, intended_pieces, intended_groups, name):
    """-> list of (obligation name, list of z3 constraints that must be UNSAT, meta).
    intended_pieces None: the pattern must not match any prefix of w."""
    sh = shapes(pattern, flags)
    out = []
    if intended_pieces is None:
        for k, s in enumerate(sh):
            cons, _ = matches_prefix(s, w)
            out.append((f"{name}.no_match.shape{k}", list(family) + cons, {"shape": s.describe(), "choices": list(s.key)}))
        return out, None
    cands = [k for k, s in enumerate(sh) if len(s.pieces) == len(intended_pieces)]
    return out, (sh, cands)


def intended_queries(sh, k0, w, family, pieces, groups, name):
    """queries for 'the engine returns the instance `pieces` of shape k0' (E, P1, P2)"""
    out = []
    s0 = sh[k0]
    cons0, g0, consumed0 = instance(s0, pieces)
    for i, c in enumerate(cons0):
        out.append((f"{name}.E.is_a_match.{i}", list(family) + [z3.Not(c)], {"shape": s0.describe()}))
    out.append((f"{name}.E.prefix_of_input", list(family) + [z3.Not(z3.PrefixOf(consumed0, w))], {}))
    for gname, term in groups.items():
        if gname not in g0:
            out.append((f"{name}.E.group.{gname}", list(family), {"missing-group": gname}))
        else:
            out.append((f"{name}.E.group.{gname}", list(family) + [g0[gname] != term], {}))
    for k in range(k0):
        cons, _ = matches_prefix(sh[k], w)
        out.append((f"{name}.P1.no_earlier_shape.{k}", list(family) + cons,
                    {"shape": sh[k].describe(), "choices": list(sh[k].key)}))
    ps = s0.pieces
    # position of every piece in the item list (to compare decision prefixes by identity:
    # shapes of one enumeration share the item objects of their common prefix)
    pos = [i for i, it in enumerate(s0.items) if it[0] == "piece"]
    for j, p in enumerate(ps):
        if not p.greedy:
            continue
        upto = pos[j] + 1
        for k2, s2 in enumerate(sh):
            if len(s2.items) < upto or any(a is not b and a[1] is not b[1] for a, b in zip(s2.items[:upto], s0.items[:upto])):
                continue
            cons, xs = matches_prefix(s2, w)
            cons += [xs[i] == pieces[i] for i in range(j)]
            cons.append(z3.Length(xs[j]) > z3.Length(pieces[j]))
            out.append((f"{name}.P2.no_longer_run.piece{j}.shape{k2}", list(family) + cons,
                        {"piece": p.desc, "shape": s2.describe()}))
    opaque = [p.desc for p in ps if p.kind == "opaque"]
    return out, opaque
