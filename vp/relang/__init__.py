"""Python regular expression -> z3 regular expression (DESIGN.md 2.4).
Supported: literals, `.`, negated/positive classes of literals and ranges, bounded and
unbounded greedy repeats, groups, alternation.  Anchors, look-around, back-references and
lazy quantifiers are rejected (the header pattern uses none).  `search` semantics is
obtained by wrapping the language as Sigma* P Sigma*."""
import re
import re._parser as sre_parse
import re._constants as C

import z3

S = z3.StringSort()
RS = z3.ReSort(S)


class UnsupportedRegex(Exception):
    pass


def any_char():
    return z3.AllChar(RS)


def not_chars(chars):
    if not chars:
        return any_char()
    u = z3.Re(chars[0]) if len(chars) == 1 else z3.Union(*[z3.Re(c) for c in chars])
    return z3.Intersect(any_char(), z3.Complement(u))


def translate(pattern, flags=0):
    tree = sre_parse.parse(pattern, flags)
    dotall = bool(flags & re.DOTALL)
    return _seq(tree, dotall)


def _seq(items, dotall):
    parts = [_item(op, av, dotall) for op, av in items]
    if not parts:
        return z3.Re("")
    if len(parts) == 1:
        return parts[0]
    return z3.Concat(*parts)


def _word():
    return z3.Union(z3.Range("a", "z"), z3.Range("A", "Z"), z3.Range("0", "9"), z3.Re("_"))


def _space():
    return z3.Union(*[z3.Re(c) for c in " \t\n\r\x0b\x0c"])


def _not(r):
    return z3.Intersect(any_char(), z3.Complement(r))


# \w \d \s and their complements, exact on ASCII subjects (the header families and the literal
# families the lemmas quantify over are ASCII; on a non-ASCII subject `re` accepts more for \w \d \s)
_CATEGORIES = {
    C.CATEGORY_WORD: _word, C.CATEGORY_NOT_WORD: lambda: _not(_word()),
    C.CATEGORY_DIGIT: lambda: z3.Range("0", "9"), C.CATEGORY_NOT_DIGIT: lambda: _not(z3.Range("0", "9")),
    C.CATEGORY_SPACE: _space, C.CATEGORY_NOT_SPACE: lambda: _not(_space()),
}


def _class(av):
    negate = False
    alts = []
    for op, v in av:
        if op == C.NEGATE:
            negate = True
        elif op == C.LITERAL:
            alts.append(z3.Re(chr(v)))
        elif op == C.RANGE:
            alts.append(z3.Range(chr(v[0]), chr(v[1])))
        elif op == C.CATEGORY and v in _CATEGORIES:
            alts.append(_CATEGORIES[v]())
        else:
            raise UnsupportedRegex(f"class item {op}")
    u = alts[0] if len(alts) == 1 else z3.Union(*alts)
    if negate:
        return z3.Intersect(any_char(), z3.Complement(u))
    return u


def _item(op, av, dotall):
    if op == C.LITERAL:
        return z3.Re(chr(av))
    if op == C.NOT_LITERAL:
        return not_chars([chr(av)])
    if op == C.ANY:
        return any_char() if dotall else not_chars(["\n"])
    if op == C.IN:
        return _class(av)
    if op == C.MAX_REPEAT:
        lo, hi, sub = av
        r = _seq(sub, dotall)
        if hi == C.MAXREPEAT:
            if lo == 0:
                return z3.Star(r)
            if lo == 1:
                return z3.Plus(r)
            return z3.Concat(z3.Loop(r, lo, lo), z3.Star(r))
        return z3.Loop(r, lo, hi)
    if op == C.SUBPATTERN:
        group, add_flags, del_flags, sub = av
        if add_flags or del_flags:
            raise UnsupportedRegex("inline flags")
        return _seq(sub, dotall)
    if op == C.BRANCH:
        _, branches = av
        return z3.Union(*[_seq(b, dotall) for b in branches])
    raise UnsupportedRegex(f"regex construct {op}")


def search_language(pattern, flags=0):
    p = translate(pattern, flags)
    return z3.Concat(z3.Full(RS), p, z3.Full(RS))


def lit(s):
    return z3.Re(s)


def chars_of(alphabet):
    """regex for one character of the given string of allowed characters"""
    return z3.Union(*[z3.Re(c) for c in alphabet]) if len(alphabet) > 1 else z3.Re(alphabet)


def member_query(h, in_lang, not_in_lang=None, timeout_ms=20000):
    s = z3.Solver()
    s.set("timeout", timeout_ms)
    s.add(z3.InRe(h, in_lang))
    if not_in_lang is not None:
        s.add(z3.Not(z3.InRe(h, not_in_lang)))
    return s
